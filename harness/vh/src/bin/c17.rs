//! C17 — closing or losing a connection at any moment ends it cleanly and visibly.
//!
//! Engine E5 (crash-point enumeration on real loopback).  Every case is one execution of two
//! real `PeerConnection`s (A = offerer, B = answerer) on 127.0.0.1 inside a PRIVATE tokio
//! runtime (2 workers), so `Handle::metrics().num_alive_tasks()` counts only that run's tasks.
//!
//! Enumerated space (stated, finite, enumerated completely — `exhaustive: true` for the tier):
//!   quick    : mode {WebRtc, Srtp, Rtp} x phase boundary (10 in WebRtc, 8 in Srtp/Rtp: those
//!              that exist) x event {close, drop, ice-stop, blocked-close} x acting side {A, B}.
//!              The event "peer close()" (and peer drop / peer going silent) is the SAME run seen
//!              from the other side: every run judges the acting side AND the observing side
//!              (signatures carry event=peer-<event> for failures on the observing side).
//!   thorough : quick + every datagram boundary k <= K (K measured per mode in a fault-free run
//!              through a harness-owned UDP relay on 127.0.0.1 that forwards unchanged and
//!              counts) x event {close, drop, ice-stop, silent} x acting side, + pairs of events
//!              at every phase boundary in both orders ({close,close} on both sides,
//!              {close,drop}, {ice-stop,close}, ...).
//!
//! Process structure: the driver re-executes itself as N worker children (`--worker`); a child
//! runs its cases strictly one after another, so the process-wide socket count
//! (/proc/self/fd entries that are sockets) is exact per run; parallelism is across children.
//! A failing case is re-run three times ALONE (no other child active); it is a violation only
//! if it fails all three times with the same kind, otherwise it is listed as FLAKY.
//!
//! Oracle (exactly the property text): see `judge_*` below and the `assumptions` in evidence.
use rustrtc::media::MediaStreamTrack;
use rustrtc::media::frame::{MediaSample, VideoFrame};
use rustrtc::transports::sctp::{DataChannel, DataChannelConfig, DataChannelEvent};
use rustrtc::{
    DisconnectReason, IceConnectionState, MediaKind, PeerConnection, PeerConnectionEvent,
    PeerConnectionState, RtcConfiguration, RtpCodecParameters, SdpType, SessionDescription,
    SignalingState, TransceiverDirection, TransportMode,
};
use serde_json::{Value, json};
use std::collections::{BTreeMap, VecDeque};
use std::future::Future;
use std::io::{BufRead, Write};
use std::net::SocketAddr;
use std::sync::atomic::{AtomicBool, AtomicU64, AtomicUsize, Ordering};
use std::sync::{Arc, Mutex};
use std::time::{Duration, Instant};
use tokio::sync::{Notify, watch};
use tokio::task::JoinHandle;

// ───────────────────────────── constants ─────────────────────────────

/// Grace period of the property's "promptly" / "within bounded time".
const GRACE: Duration = Duration::from_millis(2000);
/// Harness cap for reaching a phase boundary in a fault-free set-up (not a verdict).
const REACH_CAP: Duration = Duration::from_secs(10);
/// Configured loss-detection timeouts (shortened through RtcConfiguration).
const ICE_DISCONNECT_THRESHOLD: Duration = Duration::from_millis(1000);
const ICE_CONNECTION_TIMEOUT: Duration = Duration::from_millis(2000);
const ICE_DISCONNECT_GRACE: Duration = Duration::from_millis(300);
const STUN_TIMEOUT: Duration = Duration::from_millis(500);
const NOMINATION_TIMEOUT: Duration = Duration::from_millis(800);
/// Budget for a peer to notice a loss: configured ICE timeout + 1 s keepalive tick granularity
/// + disconnect grace + the property's grace.
const NOTICE_CAP: Duration = Duration::from_millis(2000 + 1000 + 300 + 1000 + 2000);
/// Whole-run watchdog inside the worker (a synchronous hang in close()/drop is reported by it).
const RUN_WATCHDOG: Duration = Duration::from_secs(40);

const WEBRTC_POINTS: &[&str] = &[
    "created",
    "offer-made",
    "gathered",
    "offer-applied",
    "answer-applied",
    "ice-connected",
    "dtls-connected",
    "channel-open",
    "media-flowing",
    "renegotiating",
];
const DIRECT_POINTS: &[&str] = &[
    "created",
    "offer-made",
    "gathered",
    "offer-applied",
    "answer-applied",
    "connected",
    "media-flowing",
    "renegotiating",
];

fn points_of(mode: &str) -> &'static [&'static str] {
    if mode == "WebRtc" { WEBRTC_POINTS } else { DIRECT_POINTS }
}

fn mode_of(s: &str) -> TransportMode {
    match s {
        "WebRtc" => TransportMode::WebRtc,
        "Srtp" => TransportMode::Srtp,
        _ => TransportMode::Rtp,
    }
}

// ───────────────────────────── case / outcome ─────────────────────────────

#[derive(Clone, Debug)]
struct Case {
    mode: String,
    /// "phase:<name>" or "dgram:<k>" or "none" (fault-free measuring run)
    point: String,
    /// one or two events; each "<side-relative>" event: close | drop | ice-stop | silent |
    /// blocked-close | other:close | other:drop | other:ice-stop (pair member fired on the other side)
    events: Vec<String>,
    /// acting side: "A" (offerer) or "B" (answerer)
    actor: String,
    relay: bool,
}

impl Case {
    fn to_json(&self) -> Value {
        json!({"mode": self.mode, "point": self.point, "events": self.events, "actor": self.actor, "relay": self.relay})
    }
    fn from_json(v: &Value) -> Option<Case> {
        Some(Case {
            mode: v["mode"].as_str()?.to_string(),
            point: v["point"].as_str()?.to_string(),
            events: v["events"].as_array()?.iter().filter_map(|e| e.as_str().map(|s| s.to_string())).collect(),
            actor: v["actor"].as_str()?.to_string(),
            relay: v["relay"].as_bool().unwrap_or(false),
        })
    }
    fn event_name(&self) -> String {
        self.events.join("+")
    }
    fn key(&self) -> String {
        format!("{}|{}|{}|{}", self.mode, self.point, self.event_name(), self.actor)
    }
}

#[derive(Clone, Debug)]
struct Fail {
    kind: String,
    /// which side the failure was observed on: "actor" | "observer" | "run"
    on: String,
    detail: String,
}

// ───────────────────────────── small utilities ─────────────────────────────

fn socket_fd_count() -> usize {
    let mut n = 0;
    if let Ok(rd) = std::fs::read_dir("/proc/self/fd") {
        for e in rd.flatten() {
            if let Ok(t) = std::fs::read_link(e.path()) {
                if t.to_string_lossy().starts_with("socket:") {
                    n += 1;
                }
            }
        }
    }
    n
}

fn is_terminal(s: PeerConnectionState) -> bool {
    matches!(s, PeerConnectionState::Failed | PeerConnectionState::Closed)
}

#[derive(Clone)]
struct Log {
    t0: Instant,
    lines: Arc<Mutex<Vec<String>>>,
    fails: Arc<Mutex<Vec<Fail>>>,
    step: Arc<Mutex<String>>,
}

impl Log {
    fn new() -> Self {
        Log {
            t0: Instant::now(),
            lines: Arc::new(Mutex::new(vec![])),
            fails: Arc::new(Mutex::new(vec![])),
            step: Arc::new(Mutex::new(String::new())),
        }
    }
    fn note(&self, s: impl AsRef<str>) {
        let ms = self.t0.elapsed().as_millis();
        if let Ok(mut l) = self.lines.lock() {
            if l.len() < 400 {
                l.push(format!("{ms:>5}ms {}", s.as_ref()));
            }
        }
    }
    fn step(&self, s: &str) {
        if let Ok(mut g) = self.step.lock() {
            *g = s.to_string();
        }
    }
    fn fail(&self, on: &str, kind: impl Into<String>, detail: impl Into<String>) {
        let f = Fail { kind: kind.into(), on: on.to_string(), detail: detail.into() };
        self.note(format!("FAIL[{}] {} — {}", f.on, f.kind, f.detail));
        if let Ok(mut g) = self.fails.lock() {
            g.push(f);
        }
    }
}

/// Fired flag shared between the set-up script, the relay and the event task.
#[derive(Clone)]
struct Fire {
    fired: Arc<AtomicBool>,
    notify: Arc<Notify>,
    /// drop events: calls in flight in the script are cancelled (their future is dropped) so that
    /// the script releases its PeerConnection handles; otherwise they are left pending and must
    /// return within GRACE.
    cancel_in_flight: bool,
}

impl Fire {
    fn is(&self) -> bool {
        self.fired.load(Ordering::SeqCst)
    }
    async fn wait(&self) {
        loop {
            let n = self.notify.notified();
            if self.is() {
                return;
            }
            n.await;
        }
    }
    fn set(&self) {
        self.fired.store(true, Ordering::SeqCst);
        self.notify.notify_waiters();
    }
}

enum ApiOut<T> {
    Done(T),
    /// the event fired and the call was cancelled / hung / the harness cap was hit: script stops
    Stop,
}

/// Runs one public-API call of the set-up script.  Before the event: harness cap REACH_CAP
/// (machinery `unreached`, never a verdict).  If the event fires while the call is in flight the
/// call is a *pending API call* of the property: it must return within GRACE.
async fn api<T>(log: &Log, fire: &Fire, side: &str, name: &str, fut: impl Future<Output = T>) -> ApiOut<T> {
    log.step(&format!("{side}.{name}"));
    tokio::pin!(fut);
    if !fire.is() {
        tokio::select! {
            r = &mut fut => return ApiOut::Done(r),
            _ = fire.wait() => {}
            _ = tokio::time::sleep(REACH_CAP) => {
                log.fail("run", "unreached", format!("{side}.{name} did not return within {REACH_CAP:?} before any event"));
                return ApiOut::Stop;
            }
        }
    }
    if fire.cancel_in_flight {
        log.note(format!("{side}.{name} in flight at the event: cancelled (drop event)"));
        return ApiOut::Stop;
    }
    match tokio::time::timeout(GRACE, &mut fut).await {
        Ok(_) => {
            log.note(format!("{side}.{name} was in flight at the event and returned"));
            ApiOut::Stop
        }
        Err(_) => {
            log.fail(side, format!("hang:{name}"), format!("{side}.{name} was pending when the event fired and did not return within {GRACE:?}"));
            ApiOut::Stop
        }
    }
}

macro_rules! step {
    ($e:expr) => {
        match $e {
            ApiOut::Done(v) => v,
            ApiOut::Stop => return false,
        }
    };
}

// ───────────────────────────── UDP relay (thorough tier) ─────────────────────────────

/// Harness-owned relay: `ra` stands for A's candidate (B sends to it; datagrams are forwarded to
/// A's real address *from `rb`*), `rb` stands for B's candidate.  Forwards unchanged, counts
/// every forwarded datagram, and at datagram number `trigger` pauses forwarding and raises the
/// fire flag (the event task resumes or silences it).
struct Relay {
    ra: Arc<tokio::net::UdpSocket>,
    rb: Arc<tokio::net::UdpSocket>,
    ra_addr: SocketAddr,
    rb_addr: SocketAddr,
    a_real: Arc<Mutex<Option<SocketAddr>>>,
    b_real: Arc<Mutex<Option<SocketAddr>>>,
    count: Arc<AtomicU64>,
    trigger: u64,
    triggered: Arc<Notify>,
    trig_flag: Arc<AtomicBool>,
    /// 0 = forward, 1 = paused (hold), 2 = silent (drop everything)
    gate: Arc<AtomicUsize>,
    gate_notify: Arc<Notify>,
    task: Mutex<Option<JoinHandle<()>>>,
    kinds: Arc<Mutex<Vec<u8>>>,
}

impl Relay {
    async fn new(trigger: u64) -> std::io::Result<Arc<Relay>> {
        let ra = Arc::new(tokio::net::UdpSocket::bind("127.0.0.1:0").await?);
        let rb = Arc::new(tokio::net::UdpSocket::bind("127.0.0.1:0").await?);
        let r = Arc::new(Relay {
            ra_addr: ra.local_addr()?,
            rb_addr: rb.local_addr()?,
            ra,
            rb,
            a_real: Arc::new(Mutex::new(None)),
            b_real: Arc::new(Mutex::new(None)),
            count: Arc::new(AtomicU64::new(0)),
            trigger,
            triggered: Arc::new(Notify::new()),
            trig_flag: Arc::new(AtomicBool::new(false)),
            gate: Arc::new(AtomicUsize::new(0)),
            gate_notify: Arc::new(Notify::new()),
            task: Mutex::new(None),
            kinds: Arc::new(Mutex::new(vec![])),
        });
        let rr = r.clone();
        let h = tokio::spawn(async move { rr.run().await });
        *r.task.lock().unwrap() = Some(h);
        Ok(r)
    }

    async fn run(self: Arc<Self>) {
        let mut ba = vec![0u8; 65536];
        let mut bb = vec![0u8; 65536];
        loop {
            // datagram arriving at ra came from B and goes to A (sent from rb); and vice versa
            let (n, to_a) = tokio::select! {
                r = self.ra.recv_from(&mut ba) => match r { Ok((n, _)) => (n, true), Err(_) => continue },
                r = self.rb.recv_from(&mut bb) => match r { Ok((n, _)) => (n, false), Err(_) => continue },
            };
            loop {
                match self.gate.load(Ordering::SeqCst) {
                    0 => break,
                    1 => {
                        let w = self.gate_notify.notified();
                        if self.gate.load(Ordering::SeqCst) != 1 {
                            continue;
                        }
                        w.await;
                    }
                    _ => break,
                }
            }
            if self.gate.load(Ordering::SeqCst) == 2 {
                continue;
            }
            let (buf, dst, via) = if to_a {
                (&ba[..n], *self.a_real.lock().unwrap(), &self.rb)
            } else {
                (&bb[..n], *self.b_real.lock().unwrap(), &self.ra)
            };
            let Some(dst) = dst else { continue };
            let _ = via.send_to(buf, dst).await;
            let c = self.count.fetch_add(1, Ordering::SeqCst) + 1;
            if let Ok(mut k) = self.kinds.lock() {
                if k.len() < 4096 {
                    k.push(buf.first().copied().unwrap_or(0));
                }
            }
            if self.trigger != 0 && c == self.trigger {
                self.gate.store(1, Ordering::SeqCst);
                self.trig_flag.store(true, Ordering::SeqCst);
                self.triggered.notify_waiters();
            }
        }
    }

    async fn wait_trigger(&self) {
        loop {
            let n = self.triggered.notified();
            if self.trig_flag.load(Ordering::SeqCst) {
                return;
            }
            n.await;
        }
    }

    fn set_gate(&self, g: usize) {
        self.gate.store(g, Ordering::SeqCst);
        self.gate_notify.notify_waiters();
    }

    async fn shutdown(&self) {
        let h = self.task.lock().unwrap().take();
        if let Some(h) = h {
            h.abort();
            let _ = h.await;
        }
    }
}

/// Rewrites every address the peer would send to (ICE candidates, c=/m= port, a=rtcp) so that it
/// points at the relay socket `to`; returns the original address.
fn rewrite_sdp(desc: &SessionDescription, to: SocketAddr) -> Option<(SessionDescription, SocketAddr)> {
    let text = desc.to_sdp_string();
    let mut real: Option<SocketAddr> = None;
    let mut out = String::new();
    let mut c_ip: Option<String> = None;
    for line in text.lines() {
        let l = line.trim_end();
        if let Some(rest) = l.strip_prefix("a=candidate:") {
            let mut f: Vec<String> = rest.split(' ').map(|s| s.to_string()).collect();
            if f.len() >= 6 && f[2].eq_ignore_ascii_case("udp") {
                if let (Ok(ip), Ok(port)) = (f[4].parse::<std::net::IpAddr>(), f[5].parse::<u16>()) {
                    if real.is_none() {
                        real = Some(SocketAddr::new(ip, port));
                    }
                    f[4] = to.ip().to_string();
                    f[5] = to.port().to_string();
                    out.push_str(&format!("a=candidate:{}\r\n", f.join(" ")));
                    continue;
                }
            }
            out.push_str(l);
            out.push_str("\r\n");
        } else if let Some(rest) = l.strip_prefix("c=IN IP4 ") {
            c_ip = Some(rest.trim().to_string());
            out.push_str(&format!("c=IN IP4 {}\r\n", to.ip()));
        } else if l.starts_with("m=") {
            let mut f: Vec<String> = l.split(' ').map(|s| s.to_string()).collect();
            if f.len() >= 2 {
                if let Ok(p) = f[1].parse::<u16>() {
                    if p != 9 && p != 0 {
                        if real.is_none() {
                            let ip = c_ip.clone().unwrap_or_else(|| "127.0.0.1".into());
                            if let Ok(ip) = ip.parse::<std::net::IpAddr>() {
                                real = Some(SocketAddr::new(ip, p));
                            }
                        }
                        f[1] = to.port().to_string();
                    }
                }
            }
            out.push_str(&f.join(" "));
            out.push_str("\r\n");
        } else if l.starts_with("a=rtcp:") {
            out.push_str(&format!("a=rtcp:{} IN IP4 {}\r\n", to.port(), to.ip()));
        } else {
            out.push_str(l);
            out.push_str("\r\n");
        }
    }
    // the media-level c= line may follow the m= line: resolve the real ip late
    if let (Some(r), Some(ip)) = (real.as_mut(), c_ip) {
        if r.ip().is_unspecified() {
            if let Ok(ip) = ip.parse() {
                r.set_ip(ip);
            }
        }
    }
    let parsed = SessionDescription::parse(desc.sdp_type.clone(), &out).ok()?;
    Some((parsed, real?))
}

// ───────────────────────────── one side of a run ─────────────────────────────

#[derive(Default, Debug, Clone)]
struct DcLog {
    opens: u32,
    closes: u32,
    msgs: u32,
    after_close: u32,
    ended: bool,
}

struct DcWatch {
    label: String,
    log: Arc<Mutex<DcLog>>,
    task: JoinHandle<()>,
    dc: Arc<DataChannel>,
}

fn watch_dc(dc: Arc<DataChannel>, label: &str, log: &Log, side: &str) -> DcWatch {
    let l = Arc::new(Mutex::new(DcLog::default()));
    let l2 = l.clone();
    let dc2 = dc.clone();
    let lg = log.clone();
    let tag = format!("{side}.dc[{label}]");
    let task = tokio::spawn(async move {
        loop {
            match dc2.recv().await {
                Some(ev) => {
                    let mut g = l2.lock().unwrap();
                    if g.closes > 0 {
                        g.after_close += 1;
                    }
                    match ev {
                        DataChannelEvent::Open => {
                            g.opens += 1;
                            lg.note(format!("{tag} Open"));
                        }
                        DataChannelEvent::Close => {
                            g.closes += 1;
                            lg.note(format!("{tag} Close"));
                        }
                        DataChannelEvent::Message(_) => g.msgs += 1,
                    }
                }
                None => {
                    l2.lock().unwrap().ended = true;
                    lg.note(format!("{tag} recv() -> None"));
                    break;
                }
            }
        }
    });
    DcWatch { label: label.to_string(), log: l, task, dc }
}

struct Side {
    name: &'static str,
    pc: Option<PeerConnection>,
    state_rx: watch::Receiver<PeerConnectionState>,
    reason_rx: watch::Receiver<Option<DisconnectReason>>,
    sig_rx: watch::Receiver<SignalingState>,
    dcs: Arc<Mutex<Vec<DcWatch>>>,
    /// pending PeerConnection::recv() loop (also collects in-band channels)
    pump: Option<JoinHandle<()>>,
    pump_ended: Arc<AtomicBool>,
    /// pending wait_for_connected()
    wfc: Option<JoinHandle<bool>>,
    /// pending remote-track recv loop
    track_task: Option<JoinHandle<()>>,
    track_ended: Arc<AtomicBool>,
    samples: Arc<AtomicU64>,
    /// state observer (trace only)
    obs: Option<JoinHandle<()>>,
    /// blocked sender task (blocked-close event)
    blocked: Option<JoinHandle<()>>,
    blocked_in_call_since: Arc<Mutex<Option<Instant>>>,
    blocked_done: Arc<AtomicBool>,
    had_remote: bool,
    closed_by_harness: bool,
}

impl Side {
    fn state(&self) -> PeerConnectionState {
        *self.state_rx.borrow()
    }
    fn reason(&self) -> Option<DisconnectReason> {
        self.reason_rx.borrow().clone()
    }
    fn snapshot(&self) -> String {
        format!("{:?}/{:?}/{:?}", self.state(), self.reason(), *self.sig_rx.borrow())
    }
}

fn make_config(mode: &str) -> RtcConfiguration {
    let mut c = RtcConfiguration::default();
    c.transport_mode = mode_of(mode);
    c.bind_ip = Some("127.0.0.1".into());
    c.disable_ipv6 = true;
    c.stun_timeout = STUN_TIMEOUT;
    c.nomination_timeout = NOMINATION_TIMEOUT;
    c.ice_connection_timeout = ICE_CONNECTION_TIMEOUT;
    c.ice_disconnect_threshold = ICE_DISCONNECT_THRESHOLD;
    c.ice_disconnect_grace = ICE_DISCONNECT_GRACE;
    c.sctp_rto_initial = Duration::from_millis(300);
    c.sctp_rto_min = Duration::from_millis(100);
    c.sctp_rto_max = Duration::from_millis(1000);
    c.sctp_max_buffered_amount = 32 * 1024;
    c
}

fn make_side(name: &'static str, mode: &str, log: &Log, with_pending_calls: bool) -> Side {
    let pc = PeerConnection::new(make_config(mode));
    let state_rx = pc.subscribe_peer_state();
    let reason_rx = pc.subscribe_disconnect_reason();
    let sig_rx = pc.subscribe_signaling_state();
    let dcs: Arc<Mutex<Vec<DcWatch>>> = Arc::new(Mutex::new(vec![]));

    // trace of state transitions
    let mut srx = pc.subscribe_peer_state();
    let mut irx = pc.subscribe_ice_connection_state();
    let lg = log.clone();
    let obs = tokio::spawn(async move {
        loop {
            tokio::select! {
                r = srx.changed() => { if r.is_err() { lg.note(format!("{name} peer-state channel closed")); break; } let s = *srx.borrow_and_update(); lg.note(format!("{name} peer_state -> {s:?}")); }
                r = irx.changed() => { if r.is_err() { break; } let s = *irx.borrow_and_update(); lg.note(format!("{name} ice_state -> {s:?}")); }
            }
        }
    });

    let pump_ended = Arc::new(AtomicBool::new(false));
    let (pump, wfc) = if with_pending_calls {
        let pcp = pc.clone();
        let dcs2 = dcs.clone();
        let lg = log.clone();
        let pe = pump_ended.clone();
        let pump = tokio::spawn(async move {
            loop {
                match pcp.recv().await {
                    Some(PeerConnectionEvent::DataChannel(dc)) => {
                        let label = dc.label.clone();
                        lg.note(format!("{name} pc.recv -> DataChannel({label})"));
                        let w = watch_dc(dc, &label, &lg, name);
                        dcs2.lock().unwrap().push(w);
                    }
                    Some(PeerConnectionEvent::Track(_)) => lg.note(format!("{name} pc.recv -> Track")),
                    None => {
                        pe.store(true, Ordering::SeqCst);
                        lg.note(format!("{name} pc.recv -> None"));
                        break;
                    }
                }
            }
        });
        let pcw = pc.clone();
        let lg = log.clone();
        let wfc = tokio::spawn(async move {
            let r = pcw.wait_for_connected().await;
            lg.note(format!("{name} wait_for_connected -> {}", if r.is_ok() { "Ok" } else { "Err" }));
            r.is_ok()
        });
        (Some(pump), Some(wfc))
    } else {
        (None, None)
    };

    Side {
        name,
        pc: Some(pc),
        state_rx,
        reason_rx,
        sig_rx,
        dcs,
        pump,
        pump_ended,
        wfc,
        track_task: None,
        track_ended: Arc::new(AtomicBool::new(false)),
        samples: Arc::new(AtomicU64::new(0)),
        obs: Some(obs),
        blocked: None,
        blocked_in_call_since: Arc::new(Mutex::new(None)),
        blocked_done: Arc::new(AtomicBool::new(false)),
        had_remote: false,
        closed_by_harness: false,
    }
}

// ───────────────────────────── the set-up script ─────────────────────────────

struct Shared {
    a: tokio::sync::Mutex<Side>,
    b: tokio::sync::Mutex<Side>,
    src_task: Mutex<Option<JoinHandle<()>>>,
    relay: Option<Arc<Relay>>,
    reached: Mutex<Vec<String>>,
}

async fn wait_until(fire: &Fire, log: &Log, what: &str, mut cond: impl FnMut() -> bool) -> bool {
    log.step(&format!("harness wait: {what}"));
    let t = Instant::now();
    loop {
        if cond() {
            return true;
        }
        if fire.is() {
            return false;
        }
        if t.elapsed() > REACH_CAP {
            log.fail("run", "unreached", format!("harness wait '{what}' not satisfied within {REACH_CAP:?} (fault-free set-up)"));
            return false;
        }
        tokio::time::sleep(Duration::from_millis(2)).await;
    }
}

/// Returns true if the target boundary was reached (script then stops there), false if it was
/// interrupted by the event or stopped by a harness cap.
async fn script(sh: Arc<Shared>, case: Case, fire: Fire, log: Log) -> bool {
    let mode = case.mode.clone();
    let webrtc = mode == "WebRtc";
    let target: Option<String> = case.point.strip_prefix("phase:").map(|s| s.to_string());
    let actor_is_a = case.actor == "A";
    macro_rules! boundary {
        ($name:expr) => {{
            sh.reached.lock().unwrap().push($name.to_string());
            log.note(format!("boundary {}", $name));
            if target.as_deref() == Some($name) {
                return true;
            }
            if fire.is() {
                return false;
            }
        }};
    }

    // The script works on clones of the handles so that `Side` keeps ownership for the event.
    let (pa, pb) = {
        let a = sh.a.lock().await;
        let b = sh.b.lock().await;
        (a.pc.clone(), b.pc.clone())
    };
    let (Some(pa), Some(pb)) = (pa, pb) else { return false };

    // ---- created: tracks, transceivers, channels added before negotiation
    let (source, track, _fb) = rustrtc::media::track::sample_track(rustrtc::media::frame::MediaKind::Video, 100);
    let params = RtpCodecParameters { payload_type: 96, name: "VP8".into(), clock_rate: 90000, channels: 0 };
    if pa.add_track(track.clone(), params.clone()).is_err() {
        log.fail("run", "unreached", "add_track failed");
        return false;
    }
    pb.add_transceiver(MediaKind::Video, TransceiverDirection::RecvOnly);
    if webrtc {
        let cfg = DataChannelConfig { negotiated: Some(0), ordered: true, ..Default::default() };
        match (pa.create_data_channel("neg", Some(cfg.clone())), pb.create_data_channel("neg", Some(cfg))) {
            (Ok(da), Ok(db)) => {
                sh.a.lock().await.dcs.lock().unwrap().push(watch_dc(da, "neg", &log, "A"));
                sh.b.lock().await.dcs.lock().unwrap().push(watch_dc(db, "neg", &log, "B"));
            }
            _ => {
                log.fail("run", "unreached", "create_data_channel failed");
                return false;
            }
        }
        let cfg2 = DataChannelConfig { ordered: true, ..Default::default() };
        match pa.create_data_channel("inband", Some(cfg2)) {
            Ok(da) => sh.a.lock().await.dcs.lock().unwrap().push(watch_dc(da, "inband", &log, "A")),
            Err(_) => {
                log.fail("run", "unreached", "create_data_channel(inband) failed");
                return false;
            }
        }
    }
    // media source pump (harness; holds only the track source)
    {
        let src = Arc::new(source);
        let h = tokio::spawn(async move {
            let mut seq: u32 = 0;
            loop {
                let frame = VideoFrame {
                    rtp_timestamp: seq.wrapping_mul(3000),
                    data: bytes::Bytes::from(vec![seq as u8; 100]),
                    is_last_packet: true,
                    ..Default::default()
                };
                if src.send(MediaSample::Video(frame)).is_err() {
                    break;
                }
                seq = seq.wrapping_add(1);
                tokio::time::sleep(Duration::from_millis(10)).await;
            }
        });
        *sh.src_task.lock().unwrap() = Some(h);
    }
    // pending remote-track recv on B
    {
        let mut b = sh.b.lock().await;
        let tr = pb.get_transceivers();
        if let Some(rx) = tr.first().and_then(|t| t.receiver()) {
            let t = rx.track();
            let samples = b.samples.clone();
            let ended = b.track_ended.clone();
            let lg = log.clone();
            b.track_task = Some(tokio::spawn(async move {
                loop {
                    match t.recv().await {
                        Ok(_) => {
                            samples.fetch_add(1, Ordering::SeqCst);
                        }
                        Err(_) => {
                            ended.store(true, Ordering::SeqCst);
                            lg.note("B remote track recv -> Err (ended)");
                            break;
                        }
                    }
                }
            }));
        }
    }
    drop(track);
    boundary!("created");

    // ---- offer made (first create_offer starts gathering)
    let _ = step!(api(&log, &fire, "A", "create_offer", pa.create_offer()).await);
    boundary!("offer-made");

    step!(api(&log, &fire, "A", "wait_for_gathering_complete", pa.wait_for_gathering_complete()).await);
    let offer = match step!(api(&log, &fire, "A", "create_offer", pa.create_offer()).await) {
        Ok(o) => o,
        Err(e) => {
            log.fail("run", "unreached", format!("create_offer: {e}"));
            return false;
        }
    };
    if let Err(e) = pa.set_local_description(offer.clone()) {
        log.fail("run", "unreached", format!("A.set_local_description: {e}"));
        return false;
    }
    boundary!("gathered");

    let offer_for_b = if let Some(r) = &sh.relay {
        match rewrite_sdp(&offer, r.ra_addr) {
            Some((d, real)) => {
                *r.a_real.lock().unwrap() = Some(real);
                d
            }
            None => {
                log.fail("run", "unreached", "could not rewrite offer SDP for the relay");
                return false;
            }
        }
    } else {
        offer.clone()
    };
    if let Err(e) = step!(api(&log, &fire, "B", "set_remote_description", pb.set_remote_description(offer_for_b)).await) {
        log.fail("run", "unreached", format!("B.set_remote_description: {e}"));
        return false;
    }
    sh.b.lock().await.had_remote = true;
    boundary!("offer-applied");

    let _ = step!(api(&log, &fire, "B", "create_answer", pb.create_answer()).await);
    step!(api(&log, &fire, "B", "wait_for_gathering_complete", pb.wait_for_gathering_complete()).await);
    let answer = match step!(api(&log, &fire, "B", "create_answer", pb.create_answer()).await) {
        Ok(o) => o,
        Err(e) => {
            log.fail("run", "unreached", format!("create_answer: {e}"));
            return false;
        }
    };
    if let Err(e) = pb.set_local_description(answer.clone()) {
        log.fail("run", "unreached", format!("B.set_local_description: {e}"));
        return false;
    }
    let answer_for_a = if let Some(r) = &sh.relay {
        match rewrite_sdp(&answer, r.rb_addr) {
            Some((d, real)) => {
                *r.b_real.lock().unwrap() = Some(real);
                d
            }
            None => {
                log.fail("run", "unreached", "could not rewrite answer SDP for the relay");
                return false;
            }
        }
    } else {
        answer.clone()
    };
    if let Err(e) = step!(api(&log, &fire, "A", "set_remote_description", pa.set_remote_description(answer_for_a)).await) {
        log.fail("run", "unreached", format!("A.set_remote_description: {e}"));
        return false;
    }
    sh.a.lock().await.had_remote = true;
    boundary!("answer-applied");

    let subj = if actor_is_a { pa.clone() } else { pb.clone() };
    if webrtc {
        let irx = subj.subscribe_ice_connection_state();
        if !wait_until(&fire, &log, "actor ICE connected", || {
            matches!(*irx.borrow(), IceConnectionState::Connected | IceConnectionState::Completed)
        })
        .await
        {
            return false;
        }
        boundary!("ice-connected");
        let srx = subj.subscribe_peer_state();
        if !wait_until(&fire, &log, "actor peer state Connected", || *srx.borrow() == PeerConnectionState::Connected).await {
            return false;
        }
        boundary!("dtls-connected");
        // channels open on both sides (negotiated on both, in-band announced to B)
        let (da, db) = (sh.a.lock().await.dcs.clone(), sh.b.lock().await.dcs.clone());
        if !wait_until(&fire, &log, "all data channels open on both sides", || {
            let a = da.lock().unwrap();
            let b = db.lock().unwrap();
            a.len() == 2 && b.len() == 2 && a.iter().chain(b.iter()).all(|w| w.log.lock().unwrap().opens >= 1)
        })
        .await
        {
            return false;
        }
        boundary!("channel-open");
    } else {
        let srx = subj.subscribe_peer_state();
        let orx = (if actor_is_a { &pb } else { &pa }).subscribe_peer_state();
        if !wait_until(&fire, &log, "both peer states Connected", || {
            *srx.borrow() == PeerConnectionState::Connected && *orx.borrow() == PeerConnectionState::Connected
        })
        .await
        {
            return false;
        }
        boundary!("connected");
    }

    // ---- media flowing: RTP samples at B, one dc message each way
    if webrtc {
        let r1 = step!(api(&log, &fire, "A", "send_data", pa.send_data(0, b"ping-from-a")).await);
        let r2 = step!(api(&log, &fire, "B", "send_data", pb.send_data(0, b"ping-from-b")).await);
        if r1.is_err() || r2.is_err() {
            log.fail("run", "unreached", format!("send_data on an open channel failed: {r1:?} {r2:?}"));
            return false;
        }
        let (da, db) = (sh.a.lock().await.dcs.clone(), sh.b.lock().await.dcs.clone());
        if !wait_until(&fire, &log, "dc message each way", || {
            da.lock().unwrap().iter().any(|w| w.log.lock().unwrap().msgs >= 1) && db.lock().unwrap().iter().any(|w| w.log.lock().unwrap().msgs >= 1)
        })
        .await
        {
            return false;
        }
    }
    let samples = sh.b.lock().await.samples.clone();
    if !wait_until(&fire, &log, "3 media samples at B", || samples.load(Ordering::SeqCst) >= 3).await {
        return false;
    }
    boundary!("media-flowing");

    // ---- renegotiation: A re-offers, B has applied the re-offer, answer not yet applied
    let offer2 = match step!(api(&log, &fire, "A", "create_offer", pa.create_offer()).await) {
        Ok(o) => o,
        Err(e) => {
            log.fail("run", "unreached", format!("re-offer create_offer: {e}"));
            return false;
        }
    };
    if let Err(e) = pa.set_local_description(offer2.clone()) {
        log.fail("run", "unreached", format!("re-offer set_local_description: {e}"));
        return false;
    }
    let offer2_for_b = if let Some(r) = &sh.relay {
        match rewrite_sdp(&offer2, r.ra_addr) {
            Some((d, _)) => d,
            None => offer2.clone(),
        }
    } else {
        offer2.clone()
    };
    if let Err(e) = step!(api(&log, &fire, "B", "set_remote_description", pb.set_remote_description(offer2_for_b)).await) {
        log.fail("run", "unreached", format!("re-offer B.set_remote_description: {e}"));
        return false;
    }
    boundary!("renegotiating");

    // complete the renegotiation (datagram-boundary and fault-free runs go on to steady state)
    let answer2 = match step!(api(&log, &fire, "B", "create_answer", pb.create_answer()).await) {
        Ok(o) => o,
        Err(e) => {
            log.fail("run", "unreached", format!("re-answer create_answer: {e}"));
            return false;
        }
    };
    if let Err(e) = pb.set_local_description(answer2.clone()) {
        log.fail("run", "unreached", format!("re-answer set_local_description: {e}"));
        return false;
    }
    let answer2_for_a = if let Some(r) = &sh.relay {
        match rewrite_sdp(&answer2, r.rb_addr) {
            Some((d, _)) => d,
            None => answer2.clone(),
        }
    } else {
        answer2.clone()
    };
    if let Err(e) = step!(api(&log, &fire, "A", "set_remote_description", pa.set_remote_description(answer2_for_a)).await) {
        log.fail("run", "unreached", format!("re-answer A.set_remote_description: {e}"));
        return false;
    }
    let s0 = samples.load(Ordering::SeqCst);
    if !wait_until(&fire, &log, "5 more media samples after renegotiation", || samples.load(Ordering::SeqCst) >= s0 + 5).await {
        return false;
    }
    boundary!("steady");
    // datagram-boundary runs: keep the connection up until the event (or the harness gives up)
    fire.wait().await;
    false
}

// ───────────────────────────── events ─────────────────────────────

/// Fires one event on `side`. All of these are synchronous calls.
fn fire_event(side: &mut Side, ev: &str, log: &Log) {
    log.step(&format!("{}.{ev}", side.name));
    log.note(format!("EVENT {} {ev}", side.name));
    match ev {
        "close" | "blocked-close" => {
            if let Some(pc) = side.pc.as_ref() {
                let pc = pc.clone();
                if let Err(p) = vh::catch(std::panic::AssertUnwindSafe(move || pc.close())) {
                    log.fail(side.name, "panic", format!("close() panicked: {p}"));
                }
                side.closed_by_harness = true;
            }
        }
        "drop" => {
            let pc = side.pc.take();
            if let Err(p) = vh::catch(std::panic::AssertUnwindSafe(move || drop(pc))) {
                log.fail(side.name, "panic", format!("drop panicked: {p}"));
            }
            side.closed_by_harness = true;
        }
        "ice-stop" => {
            if let Some(pc) = side.pc.as_ref() {
                let pc = pc.clone();
                if let Err(p) = vh::catch(std::panic::AssertUnwindSafe(move || pc.ice_transport().stop())) {
                    log.fail(side.name, "panic", format!("ice_transport().stop() panicked: {p}"));
                }
            }
        }
        _ => {}
    }
}

/// Before a drop: every harness task that holds a PeerConnection clone of that side is cancelled
/// (a pending call keeps the connection alive by construction, so there are no pending
/// PeerConnection-level calls at a drop; DataChannel and track receivers stay pending).
async fn release_pc_holders(side: &mut Side) {
    for h in [side.pump.take(), side.blocked.take()].into_iter().flatten() {
        h.abort();
        let _ = h.await;
    }
    if let Some(h) = side.wfc.take() {
        h.abort();
        let _ = h.await;
    }
}

// ───────────────────────────── oracle ─────────────────────────────

async fn wait_for(cap: Duration, mut cond: impl FnMut() -> bool) -> bool {
    let t = Instant::now();
    loop {
        if cond() {
            return true;
        }
        if t.elapsed() >= cap {
            return false;
        }
        tokio::time::sleep(Duration::from_millis(5)).await;
    }
}

/// terminal peer state + disconnect reason within `cap`
async fn judge_terminal(side: &Side, on: &str, cap: Duration, log: &Log) -> bool {
    let ok = wait_for(cap, || is_terminal(side.state()) && side.reason().is_some()).await;
    if !ok {
        let st = side.state();
        if !is_terminal(st) {
            log.fail(on, "no-terminal-state", format!("{}: peer state {:?} (reason {:?}) {:?} after the event", side.name, st, side.reason(), cap));
        } else {
            log.fail(on, "no-reason", format!("{}: peer state {:?} but disconnect_reason() is None {:?} after the event", side.name, st, cap));
        }
    }
    ok
}

/// every channel that had seen Open: Close exactly once, then None
async fn judge_channels(side: &Side, on: &str, cap: Duration, log: &Log) {
    let dcs = side.dcs.clone();
    let _ = wait_for(cap, || {
        dcs.lock().unwrap().iter().all(|w| {
            let l = w.log.lock().unwrap();
            l.opens == 0 || (l.closes >= 1 && l.ended)
        })
    })
    .await;
    // a late second Close would arrive right behind the first one; give it a moment
    tokio::time::sleep(Duration::from_millis(30)).await;
    for w in dcs.lock().unwrap().iter() {
        let l = w.log.lock().unwrap().clone();
        if l.opens == 0 {
            continue;
        }
        if l.closes != 1 {
            log.fail(on, format!("close-event-count={}", l.closes), format!("{}.dc[{}] had seen Open and observed Close {} times within {:?} ({:?})", side.name, w.label, l.closes, cap, l));
        } else if !l.ended {
            log.fail(on, "hang:dc.recv", format!("{}.dc[{}] saw Close but recv() did not return None within {:?} ({:?})", side.name, w.label, cap, l));
        }
    }
}

/// pending calls that were outstanding at the event
async fn judge_pending(side: &mut Side, on: &str, log: &Log) {
    if let Some(h) = side.wfc.as_mut() {
        match tokio::time::timeout(GRACE, h).await {
            Ok(_) => {
                side.wfc = None;
            }
            Err(_) => log.fail(on, "hang:wait_for_connected", format!("{}: wait_for_connected() pending since creation did not return within {:?} of the event (state {:?})", side.name, GRACE, side.state())),
        }
    }
    if side.track_task.is_some() && !wait_for(GRACE, || side.track_ended.load(Ordering::SeqCst)).await {
        log.fail(on, "hang:track.recv", format!("{}: remote track recv() pending at the event did not return within {:?}", side.name, GRACE));
    }
    if side.pump.is_some() && !wait_for(GRACE, || side.pump_ended.load(Ordering::SeqCst)).await {
        log.fail(on, "hang:pc.recv", format!("{}: PeerConnection::recv() pending at the event did not return within {:?}", side.name, GRACE));
    }
    if side.blocked.is_some() && !wait_for(GRACE, || side.blocked_done.load(Ordering::SeqCst)).await {
        log.fail(on, "hang:send_data(blocked)", format!("{}: send_data() blocked on a full window did not return within {:?} of the event", side.name, GRACE));
    }
    // channels that never opened: their recv() is a pending call too
    for w in side.dcs.lock().unwrap().iter() {
        let l = w.log.lock().unwrap().clone();
        if l.opens == 0 && !l.ended {
            log.fail(on, "hang:dc.recv(unopened)", format!("{}.dc[{}] never opened; its recv() pending at the event did not return within {:?}", side.name, w.label, GRACE));
            break;
        }
    }
}

/// subsequent calls return promptly
async fn judge_subsequent(side: &Side, on: &str, log: &Log) {
    let Some(pc) = side.pc.clone() else { return };
    macro_rules! probe {
        ($name:expr, $fut:expr) => {{
            log.step(&format!("{}.{} (subsequent)", side.name, $name));
            let t = Instant::now();
            match tokio::time::timeout(GRACE, $fut).await {
                Ok(r) => log.note(format!("{} subsequent {} -> {} in {:?}", side.name, $name, if r { "Ok" } else { "Err" }, t.elapsed())),
                Err(_) => log.fail(on, format!("hang:{}", $name), format!("{}: {}() called after the event did not return within {:?}", side.name, $name, GRACE)),
            }
        }};
    }
    probe!("send_data", async { pc.send_data(0, b"after").await.is_ok() });
    probe!("create_offer", async { pc.create_offer().await.is_ok() });
    probe!("wait_for_connected", async { pc.wait_for_connected().await.is_ok() });
}

/// second close() is a no-op
fn judge_second_close(side: &mut Side, on: &str, log: &Log) {
    let Some(pc) = side.pc.clone() else { return };
    log.step(&format!("{}.close (first explicit / second)", side.name));
    let p2 = pc.clone();
    if let Err(p) = vh::catch(std::panic::AssertUnwindSafe(move || p2.close())) {
        log.fail(on, "panic", format!("close() panicked: {p}"));
    }
    side.closed_by_harness = true;
    let s1 = side.snapshot();
    if let Err(p) = vh::catch(std::panic::AssertUnwindSafe(move || pc.close())) {
        log.fail(on, "panic", format!("second close() panicked: {p}"));
    }
    let s2 = side.snapshot();
    if s1 != s2 {
        log.fail(on, "second-close-changed-state", format!("{}: {} -> {}", side.name, s1, s2));
    }
    if !is_terminal(side.state()) || side.reason().is_none() {
        log.fail(on, if is_terminal(side.state()) { "no-reason" } else { "no-terminal-state" }, format!("{}: after close(): {}", side.name, s2));
    }
}

// ───────────────────────────── one run ─────────────────────────────

struct RunResult {
    fails: Vec<Fail>,
    trace: Vec<String>,
    datagrams: u64,
    dgram_kinds: Vec<u8>,
    reached: Vec<String>,
    tasks_baseline: usize,
    tasks_after: usize,
    fds_before: usize,
    fds_after: usize,
    obs: Value,
}

fn need_notice(case: &Case, observer: &Side) -> bool {
    // A peer can only notice through a lower layer that exists: in WebRtc mode ICE consent /
    // keepalive timeouts and DTLS close_notify; Rtp/Srtp direct modes have neither.
    case.mode == "WebRtc" && observer.had_remote && observer.pc.is_some()
}

async fn run_case_async(case: Case, log: Log) -> RunResult {
    let handle = tokio::runtime::Handle::current();
    let metrics = handle.metrics();
    let fds_before = socket_fd_count();
    let tasks_baseline = metrics.num_alive_tasks();
    let panics_before = vh::PANIC_COUNT.load(Ordering::SeqCst);

    let is_drop = case.events.iter().any(|e| e == "drop");
    let fire = Fire { fired: Arc::new(AtomicBool::new(false)), notify: Arc::new(Notify::new()), cancel_in_flight: is_drop };
    let trigger = case.point.strip_prefix("dgram:").and_then(|k| k.parse::<u64>().ok()).unwrap_or(0);
    let relay = if case.relay {
        match Relay::new(trigger).await {
            Ok(r) => Some(r),
            Err(e) => {
                log.fail("run", "unreached", format!("relay bind: {e}"));
                None
            }
        }
    } else {
        None
    };

    // pending PeerConnection-level calls cannot coexist with dropping the last handle
    let a = make_side("A", &case.mode, &log, true);
    let b = make_side("B", &case.mode, &log, true);
    let sh = Arc::new(Shared {
        a: tokio::sync::Mutex::new(a),
        b: tokio::sync::Mutex::new(b),
        src_task: Mutex::new(None),
        relay: relay.clone(),
        reached: Mutex::new(vec![]),
    });

    let mut script_task = tokio::spawn(script(sh.clone(), case.clone(), fire.clone(), log.clone()));

    // ---- wait for the crash point
    let fault_free = case.point == "none";
    let mut script_done: Option<bool> = None;
    if trigger != 0 {
        let r = relay.clone();
        tokio::select! {
            _ = async { if let Some(r) = r.as_ref() { r.wait_trigger().await } else { std::future::pending::<()>().await } } => {
                log.note(format!("relay forwarded datagram {trigger}: crash point"));
            }
            res = &mut script_task => {
                script_done = Some(res.unwrap_or(false));
            }
            _ = tokio::time::sleep(REACH_CAP * 2) => {
                log.fail("run", "unreached", format!("datagram {trigger} never seen"));
            }
        }
    } else if fault_free {
        // run to steady state, then a plain close on both sides (measures K, exercises the oracle)
        let reached = sh.clone();
        let _ = wait_for(REACH_CAP * 3, || reached.reached.lock().unwrap().iter().any(|s| s == "steady") || script_task.is_finished()).await;
    } else {
        match tokio::time::timeout(REACH_CAP * 3, &mut script_task).await {
            Ok(r) => script_done = Some(r.unwrap_or(false)),
            Err(_) => log.fail("run", "unreached", "script did not reach the phase boundary"),
        }
    }
    let unreached = log.fails.lock().unwrap().iter().any(|f| f.kind == "unreached")
        || (trigger == 0 && !fault_free && script_done != Some(true))
        || (trigger != 0 && script_done.is_some());
    if unreached && !log.fails.lock().unwrap().iter().any(|f| f.kind == "unreached") {
        log.fail("run", "unreached", format!("crash point {} not reached (script result {:?})", case.point, script_done));
    }

    let actor_is_a = case.actor == "A";
    if !unreached {
        // ---- blocked sender preparation: silence the observer, block the actor in send_data
        if case.events.iter().any(|e| e == "blocked-close") {
            let mut obs_side = if actor_is_a { sh.b.lock().await } else { sh.a.lock().await };
            fire_event(&mut obs_side, "ice-stop", &log);
            drop(obs_side);
            let mut act = if actor_is_a { sh.a.lock().await } else { sh.b.lock().await };
            if let Some(pc) = act.pc.clone() {
                let since = act.blocked_in_call_since.clone();
                let done = act.blocked_done.clone();
                let lg = log.clone();
                let nm = act.name;
                act.blocked = Some(tokio::spawn(async move {
                    let chunk = vec![0x5au8; 8 * 1024];
                    for i in 0..100_000u32 {
                        *since.lock().unwrap() = Some(Instant::now());
                        let r = pc.send_data(0, &chunk).await;
                        *since.lock().unwrap() = None;
                        if r.is_err() {
                            lg.note(format!("{nm} blocked sender: send_data #{i} -> Err"));
                            break;
                        }
                    }
                    done.store(true, Ordering::SeqCst);
                }));
                let since = act.blocked_in_call_since.clone();
                let blocked = wait_for(Duration::from_secs(5), || since.lock().unwrap().map(|t| t.elapsed() > Duration::from_millis(150)).unwrap_or(false)).await;
                if !blocked {
                    log.fail("run", "unreached", "sender never blocked in send_data for 150 ms");
                } else {
                    log.note(format!("{nm} sender is blocked inside send_data (window full, peer silent)"));
                }
            }
        }
    }
    let unreached = log.fails.lock().unwrap().iter().any(|f| f.kind == "unreached");

    let mut obs_json = json!({});
    if !unreached {
        // ---- fire
        fire.set();
        if is_drop {
            // the script must release its handles first (its in-flight call is cancelled)
            if script_done.is_none() {
                match tokio::time::timeout(GRACE, &mut script_task).await {
                    Ok(_) => script_done = Some(false),
                    Err(_) => log.fail("run", "machinery", "script did not stop after cancellation"),
                }
            }
        }
        {
            let mut a = sh.a.lock().await;
            let mut b = sh.b.lock().await;
            let evs: Vec<String> = if fault_free { vec!["close".into()] } else { case.events.clone() };
            // release handle holders of every side that is going to be dropped
            for ev in &evs {
                let (on_other, name) = match ev.strip_prefix("other:") {
                    Some(n) => (true, n),
                    None => (false, ev.as_str()),
                };
                if name == "drop" {
                    let s: &mut Side = if actor_is_a ^ on_other { &mut a } else { &mut b };
                    release_pc_holders(s).await;
                }
            }
            for ev in &evs {
                let (on_other, name) = match ev.strip_prefix("other:") {
                    Some(n) => (true, n),
                    None => (false, ev.as_str()),
                };
                if name == "silent" {
                    if let Some(r) = relay.as_ref() {
                        r.set_gate(2);
                        log.note("EVENT relay goes silent");
                    }
                    continue;
                }
                let s: &mut Side = if actor_is_a ^ on_other { &mut a } else { &mut b };
                fire_event(s, name, &log);
            }
        }
        if let Some(r) = relay.as_ref() {
            if r.gate.load(Ordering::SeqCst) == 1 {
                r.set_gate(0);
            }
        }
        // the script's in-flight call (if any) is a pending call: it must come back
        if script_done.is_none() {
            match tokio::time::timeout(GRACE + Duration::from_millis(500), &mut script_task).await {
                Ok(_) => {}
                Err(_) => {
                    let st = log.step.lock().unwrap().clone();
                    log.fail("run", "machinery", format!("script still running after the event (last step {st})"));
                    script_task.abort();
                    let _ = (&mut script_task).await;
                }
            }
        }

        // ---- judge
        let silent = case.events.iter().any(|e| e == "silent");
        let both_acted = case.events.iter().any(|e| e.starts_with("other:"));
        let mut a = sh.a.lock().await;
        let mut b = sh.b.lock().await;
        let (act, obs): (&mut Side, &mut Side) = if actor_is_a { (&mut a, &mut b) } else { (&mut b, &mut a) };
        let first = case.events.first().cloned().unwrap_or_default();

        // acting side
        let act_cap = if silent { NOTICE_CAP } else { GRACE };
        let act_must_end = !silent || need_notice(&case, act);
        if act_must_end {
            let t = Instant::now();
            judge_terminal(act, "actor", act_cap, &log).await;
            judge_channels(act, "actor", GRACE.saturating_sub(t.elapsed().min(GRACE)).max(Duration::from_millis(300)), &log).await;
            judge_pending(act, "actor", &log).await;
            judge_subsequent(act, "actor", &log).await;
        }
        // observing side
        if both_acted {
            judge_terminal(obs, "actor", GRACE, &log).await;
            judge_channels(obs, "actor", Duration::from_millis(500), &log).await;
            judge_pending(obs, "actor", &log).await;
            judge_subsequent(obs, "actor", &log).await;
        } else if need_notice(&case, obs) && first != "blocked-close" {
            if judge_terminal(obs, "observer", NOTICE_CAP, &log).await {
                judge_channels(obs, "observer", GRACE, &log).await;
                judge_pending(obs, "observer", &log).await;
            }
            judge_subsequent(obs, "observer", &log).await;
        } else {
            // the peer is not required to notice; its API must still not hang
            judge_subsequent(obs, "observer", &log).await;
        }
        obs_json = json!({
            "actor_after_event": act.snapshot(),
            "observer_after_event": obs.snapshot(),
        });

        // explicit close on whatever is still held: harmless, and a second close is a no-op
        judge_second_close(act, "actor", &log);
        judge_second_close(obs, "observer", &log);
        // every side has now been closed by the application: all opened channels end
        judge_channels(act, "actor", GRACE, &log).await;
        judge_channels(obs, "observer", GRACE, &log).await;
        if act.pc.is_some() {
            judge_pending(act, "actor", &log).await;
        }
        if obs.pc.is_some() {
            judge_pending(obs, "observer", &log).await;
        }
    } else if !script_task.is_finished() {
        fire.set();
        script_task.abort();
        let _ = (&mut script_task).await;
    }

    // ---- release everything the application held
    let (datagrams, dgram_kinds) = match relay.as_ref() {
        Some(r) => (r.count.load(Ordering::SeqCst), r.kinds.lock().unwrap().clone()),
        None => (0, vec![]),
    };
    if !script_task.is_finished() {
        script_task.abort();
    }
    let _ = script_task.await;
    if let Some(h) = sh.src_task.lock().unwrap().take() {
        h.abort();
        let _ = h.await;
    }
    for side in [&sh.a, &sh.b] {
        let mut s = side.lock().await;
        let hs: Vec<JoinHandle<()>> = [s.pump.take(), s.track_task.take(), s.obs.take(), s.blocked.take()].into_iter().flatten().collect();
        for h in hs {
            h.abort();
            let _ = h.await;
        }
        if let Some(h) = s.wfc.take() {
            h.abort();
            let _ = h.await;
        }
        let ws: Vec<DcWatch> = s.dcs.lock().unwrap().drain(..).collect();
        for w in ws {
            w.task.abort();
            let _ = w.task.await;
            drop(w.dc);
        }
        let pc = s.pc.take();
        if let Err(p) = vh::catch(std::panic::AssertUnwindSafe(move || drop(pc))) {
            log.fail(s.name, "panic", format!("final drop panicked: {p}"));
        }
    }
    if let Some(r) = relay.as_ref() {
        r.shutdown().await;
    }
    let reached = sh.reached.lock().unwrap().clone();
    drop(sh);
    drop(relay);

    // ---- tasks and sockets released within bounded time
    log.step("leak check");
    let t = Instant::now();
    let mut tasks_after = metrics.num_alive_tasks();
    let mut fds_after = socket_fd_count();
    while (tasks_after > tasks_baseline || fds_after > fds_before) && t.elapsed() < GRACE {
        tokio::time::sleep(Duration::from_millis(10)).await;
        tasks_after = metrics.num_alive_tasks();
        fds_after = socket_fd_count();
    }
    log.note(format!("leak check: tasks {tasks_baseline} -> {tasks_after}, socket fds {fds_before} -> {fds_after} after {:?}", t.elapsed()));
    if tasks_after > tasks_baseline {
        log.fail("run", "task-leak", format!("{} task(s) of the private runtime still alive {:?} after both PeerConnections and every handle were dropped (baseline {})", tasks_after - tasks_baseline, GRACE, tasks_baseline));
    }
    if fds_after > fds_before {
        log.fail("run", "fd-leak", format!("{} socket descriptor(s) still open {:?} after both PeerConnections were dropped ({} -> {})", fds_after - fds_before, GRACE, fds_before, fds_after));
    }
    let panics_after = vh::PANIC_COUNT.load(Ordering::SeqCst);
    if panics_after > panics_before && !log.fails.lock().unwrap().iter().any(|f| f.kind == "panic") {
        let loc = vh::LAST_PANIC_GLOBAL.lock().map(|g| g.clone()).unwrap_or_default();
        log.fail("run", "panic", format!("{} panic(s) in a background task during the run; last: {}", panics_after - panics_before, loc));
    }

    RunResult {
        fails: log.fails.lock().unwrap().clone(),
        trace: log.lines.lock().unwrap().clone(),
        datagrams,
        dgram_kinds,
        reached,
        tasks_baseline,
        tasks_after,
        fds_before,
        fds_after,
        obs: obs_json,
    }
}

fn run_case(case: &Case) -> Value {
    let log = Log::new();
    let rt = match tokio::runtime::Builder::new_multi_thread().worker_threads(2).enable_all().build() {
        Ok(rt) => rt,
        Err(e) => return json!({"case": case.to_json(), "machinery": format!("runtime: {e}")}),
    };
    // whole-run watchdog: a synchronous hang (close()/drop/stop() never returning) ends here
    let done = Arc::new(AtomicBool::new(false));
    {
        let done = done.clone();
        let log = log.clone();
        let case = case.clone();
        std::thread::spawn(move || {
            let t = Instant::now();
            while t.elapsed() < RUN_WATCHDOG {
                if done.load(Ordering::SeqCst) {
                    return;
                }
                std::thread::sleep(Duration::from_millis(50));
            }
            let step = log.step.lock().map(|g| g.clone()).unwrap_or_default();
            let mut fails: Vec<Value> = log.fails.lock().map(|g| g.iter().map(|f| json!({"kind": f.kind, "on": f.on, "detail": f.detail})).collect()).unwrap_or_default();
            fails.push(json!({"kind": format!("hang:{}", step.split(' ').next().unwrap_or("run")), "on": "run", "detail": format!("the run did not finish within {RUN_WATCHDOG:?}; last step: {step}")}));
            let out = json!({"case": case.to_json(), "fails": fails, "trace": log.lines.lock().map(|g| g.clone()).unwrap_or_default(), "watchdog": true});
            println!("{}", out);
            let _ = std::io::stdout().flush();
            std::process::exit(3);
        });
    }
    let r = rt.block_on(run_case_async(case.clone(), log.clone()));
    done.store(true, Ordering::SeqCst);
    rt.shutdown_timeout(Duration::from_millis(200));
    json!({
        "case": case.to_json(),
        "fails": r.fails.iter().map(|f| json!({"kind": f.kind, "on": f.on, "detail": f.detail})).collect::<Vec<_>>(),
        "trace": r.trace,
        "datagrams": r.datagrams,
        "dgram_kinds": r.dgram_kinds,
        "reached": r.reached,
        "tasks": [r.tasks_baseline, r.tasks_after],
        "fds": [r.fds_before, r.fds_after],
        "obs": r.obs,
    })
}

// ───────────────────────────── worker ─────────────────────────────

fn worker_main() -> ! {
    vh::install_quiet_panic_hook();
    // warm-up: process-wide lazily created descriptors (signal driver etc.) exist before run 1
    {
        if let Ok(rt) = tokio::runtime::Builder::new_multi_thread().worker_threads(1).enable_all().build() {
            rt.block_on(async {
                let _ = tokio::net::UdpSocket::bind("127.0.0.1:0").await;
            });
        }
    }
    let stdin = std::io::stdin();
    for line in stdin.lock().lines() {
        let Ok(line) = line else { break };
        if line.trim().is_empty() {
            continue;
        }
        let Ok(v) = serde_json::from_str::<Value>(&line) else { continue };
        let Some(case) = Case::from_json(&v) else { continue };
        let out = run_case(&case);
        println!("{}", out);
        let _ = std::io::stdout().flush();
    }
    std::process::exit(0)
}

// ───────────────────────────── driver ─────────────────────────────

struct Worker {
    child: std::process::Child,
    stdin: std::process::ChildStdin,
    rx: std::sync::mpsc::Receiver<String>,
}

fn spawn_worker() -> Worker {
    let exe = std::env::current_exe().unwrap_or_else(|e| vh::machinery_failure(&format!("current_exe: {e}")));
    let mut child = std::process::Command::new(exe)
        .arg("--worker")
        .stdin(std::process::Stdio::piped())
        .stdout(std::process::Stdio::piped())
        .stderr(std::process::Stdio::null())
        .spawn()
        .unwrap_or_else(|e| vh::machinery_failure(&format!("spawn worker: {e}")));
    let stdin = child.stdin.take().unwrap_or_else(|| vh::machinery_failure("worker stdin"));
    let stdout = child.stdout.take().unwrap_or_else(|| vh::machinery_failure("worker stdout"));
    let (tx, rx) = std::sync::mpsc::channel();
    std::thread::spawn(move || {
        let r = std::io::BufReader::new(stdout);
        for l in r.lines() {
            match l {
                Ok(l) => {
                    if tx.send(l).is_err() {
                        break;
                    }
                }
                Err(_) => break,
            }
        }
    });
    Worker { child, stdin, rx }
}

impl Worker {
    fn run(&mut self, case: &Case) -> Option<Value> {
        if writeln!(self.stdin, "{}", case.to_json()).is_err() || self.stdin.flush().is_err() {
            return None;
        }
        match self.rx.recv_timeout(RUN_WATCHDOG + Duration::from_secs(10)) {
            Ok(l) => serde_json::from_str(&l).ok(),
            Err(_) => None,
        }
    }
    fn kill(&mut self) {
        let _ = self.child.kill();
        let _ = self.child.wait();
    }
}

/// Runs all cases on `n` worker children; results in input order.
fn run_parallel(cases: &[Case], n: usize) -> Vec<Value> {
    let queue: Arc<Mutex<VecDeque<(usize, Case)>>> = Arc::new(Mutex::new(cases.iter().cloned().enumerate().collect()));
    let results: Arc<Mutex<BTreeMap<usize, Value>>> = Arc::new(Mutex::new(BTreeMap::new()));
    let mut threads = vec![];
    for _ in 0..n.max(1).min(cases.len().max(1)) {
        let queue = queue.clone();
        let results = results.clone();
        threads.push(std::thread::spawn(move || {
            let mut w = spawn_worker();
            loop {
                let next = queue.lock().unwrap().pop_front();
                let Some((i, case)) = next else { break };
                let v = match w.run(&case) {
                    Some(v) => {
                        if v["watchdog"].as_bool() == Some(true) {
                            w.kill();
                            w = spawn_worker();
                        }
                        v
                    }
                    None => {
                        w.kill();
                        w = spawn_worker();
                        json!({"case": case.to_json(), "fails": [{"kind": "machinery", "on": "run", "detail": "worker died or did not answer"}], "trace": []})
                    }
                };
                results.lock().unwrap().insert(i, v);
            }
            drop(w.stdin);
            let _ = w.child.wait();
        }));
    }
    for t in threads {
        let _ = t.join();
    }
    let r = results.lock().unwrap();
    (0..cases.len()).map(|i| r.get(&i).cloned().unwrap_or(json!({"fails": [{"kind": "machinery", "on": "run", "detail": "no result"}]}))).collect()
}

/// Normalised failure kinds of one result: (kind, on) pairs, sorted, dedup'd; harness-only kinds
/// (`unreached`, `machinery`) are kept apart.
fn verdict_kinds(v: &Value) -> (Vec<(String, String)>, Vec<String>) {
    let mut kinds = vec![];
    let mut mach = vec![];
    for f in v["fails"].as_array().cloned().unwrap_or_default() {
        let k = f["kind"].as_str().unwrap_or("").to_string();
        let on = f["on"].as_str().unwrap_or("").to_string();
        if k == "unreached" || k == "machinery" {
            mach.push(format!("{k}: {}", f["detail"].as_str().unwrap_or("")));
        } else {
            kinds.push((k, on));
        }
    }
    kinds.sort();
    kinds.dedup();
    (kinds, mach)
}

fn signature(kind: &str, on: &str, case: &Case) -> String {
    let ev = case.event_name();
    let event = if on == "observer" { format!("peer-{ev}") } else { ev };
    format!("kind={};event={};point={};mode={};side={}", kind, event, case.point.replace("phase:", ""), case.mode, match (on, case.actor.as_str()) {
        ("observer", "A") => "answerer",
        ("observer", _) => "offerer",
        (_, "A") => "offerer",
        _ => "answerer",
    })
}

fn enumerate_cases(tier: vh::Tier, k_of: &BTreeMap<String, u64>) -> Vec<Case> {
    let mut out = vec![];
    for mode in ["WebRtc", "Srtp", "Rtp"] {
        for p in points_of(mode) {
            for actor in ["A", "B"] {
                for ev in ["close", "drop", "ice-stop"] {
                    out.push(Case { mode: mode.into(), point: format!("phase:{p}"), events: vec![ev.into()], actor: actor.into(), relay: false });
                }
                // a sender can only be blocked on a full SCTP window once a channel is open
                if mode == "WebRtc" && matches!(*p, "channel-open" | "media-flowing" | "renegotiating") {
                    out.push(Case { mode: mode.into(), point: format!("phase:{p}"), events: vec!["blocked-close".into()], actor: actor.into(), relay: false });
                }
            }
        }
    }
    if tier == vh::Tier::Thorough {
        // pairs of events at the same point, both orders
        for mode in ["WebRtc", "Srtp", "Rtp"] {
            for p in points_of(mode) {
                for actor in ["A", "B"] {
                    for pair in [
                        ["close", "other:close"],
                        ["close", "drop"],
                        ["ice-stop", "close"],
                        ["close", "ice-stop"],
                        ["ice-stop", "drop"],
                        ["close", "other:drop"],
                        ["drop", "other:close"],
                        ["drop", "other:drop"],
                        ["ice-stop", "other:close"],
                        ["close", "other:ice-stop"],
                    ] {
                        out.push(Case { mode: mode.into(), point: format!("phase:{p}"), events: pair.iter().map(|s| s.to_string()).collect(), actor: actor.into(), relay: false });
                    }
                }
            }
        }
        // every datagram boundary
        for mode in ["WebRtc", "Srtp", "Rtp"] {
            let k = k_of.get(mode).copied().unwrap_or(0);
            for i in 1..=k {
                for actor in ["A", "B"] {
                    for ev in ["close", "drop", "ice-stop"] {
                        out.push(Case { mode: mode.into(), point: format!("dgram:{i}"), events: vec![ev.into()], actor: actor.into(), relay: true });
                    }
                }
                out.push(Case { mode: mode.into(), point: format!("dgram:{i}"), events: vec!["silent".into()], actor: "A".into(), relay: true });
            }
        }
    }
    out
}

fn main() {
    let cli = vh::cli();
    if cli.rest.iter().any(|a| a == "--worker") {
        worker_main();
    }
    if let Some(i) = cli.rest.iter().position(|a| a == "--one") {
        // debugging aid: c17 --one '<case json>'
        if std::env::var("C17_LOUD").is_err() { vh::install_quiet_panic_hook(); }
        let v: Value = serde_json::from_str(cli.rest.get(i + 1).map(|s| s.as_str()).unwrap_or("{}")).unwrap_or(json!({}));
        let Some(case) = Case::from_json(&v) else { vh::machinery_failure("bad --one case") };
        let out = run_case(&case);
        for l in out["trace"].as_array().cloned().unwrap_or_default() {
            println!("{}", l.as_str().unwrap_or(""));
        }
        println!("fails: {}", serde_json::to_string_pretty(&out["fails"]).unwrap_or_default());
        println!("reached={} datagrams={} tasks={} fds={} obs={}", out["reached"], out["datagrams"], out["tasks"], out["fds"], out["obs"]);
        std::process::exit(0);
    }
    let mut rep = vh::Report::new("C17", &cli, "fault_enumeration");
    let _ = &mut rep;
    vh::machinery_failure("driver not implemented yet");
}
