//! C09 — signaling state follows the JSEP state machine; rejected calls change nothing.
//!
//! Engine E3 (explicit-state search by history replay).  State = the call list.  `run_history`
//! builds a fresh real `PeerConnection` (plus a real shadow peer of the same transport mode that
//! produces genuine peer offers and genuine answers to our offers), brings it to the start
//! state and replays the history, one public API call per letter.
//!
//! Alphabet (17 letters; a letter whose operand slot is empty is not applicable and has no
//! successor): create_offer (-> slot O), create_answer (-> slot A), set_local(O),
//! set_local(O changed), set_local(A), set_local(pranswer of A), set_local(rollback),
//! set_remote(P1 = peer offer), set_remote(P2 = changed peer offer), set_remote(ANS = the shadow
//! peer's answer to O), set_remote(pranswer of ANS), set_remote(rollback), three malformed peer
//! offers (per mode, see `bad_variant`), set_remote(ANS with a foreign DTLS fingerprint; WebRtc
//! only) and close.
//! Modes {WebRtc, Srtp, Rtp} x starts {fresh, negotiated as offerer, negotiated as answerer}
//! with no ICE candidates ever signalled (trickle style; nothing connects, no traffic), plus, in
//! WebRtc mode, two starts that are really connected over 127.0.0.1 (ICE+DTLS up) before the
//! history begins.
//!
//! Search: BFS by levels.  Levels <= d1 expand every history (no dedup, no abstraction
//! argument).  Levels d1 < k <= d2 expand a history only if the canonical state it reaches has
//! not been seen before.  The merge is cross-checked mechanically (DESIGN 2.3): all histories of
//! length < d1 that reach the same canonical state must have produced the same successor
//! canonical state and the same verdict class for every letter.
//!
//! Tiers (d1 = no-dedup depth, d2 = dedup depth): quick Rtp (4,6), Srtp/WebRtc (3,6),
//! connected starts (2,4), about 20 s; thorough (5,8) everywhere, connected (3,6), about
//! 15-25 min.  Override with C09_D1/C09_D2 (C09_CD1/C09_CD2 for the connected starts) and
//! C09_ONLY=<mode>/<start substring>.  A measured PeerConnection pair costs 0.15-2 ms.
//!
//! The start sequences themselves (a plain offer/answer exchange) are judged too: if the real
//! code refuses one of their calls this is reported as a `jsep;start-sequence(..)` violation.
//!
//! Oracle (1): reference JSEP machine (`expect`).  Oracle (2): every call that returns Err (or
//! panics) must leave signaling_state(), local_description(), remote_description() and, for
//! every transceiver, kind/mid()/direction()/get_payload_map()/get_extmap() unchanged.
use futures::FutureExt;
use rayon::prelude::*;
use rustrtc::{
    MediaKind, PeerConnection, RtcConfiguration, RtcError, SdpType, SessionDescription,
    SignalingState, TransceiverDirection, TransportMode,
};
use serde_json::{Value, json};
use std::cell::RefCell;
use std::collections::{BTreeMap, BTreeSet, HashMap};
use std::panic::AssertUnwindSafe;
use std::time::Duration;

// ───────────────────────────── space ─────────────────────────────

#[derive(Clone, Copy, PartialEq, Eq, Hash, Debug, PartialOrd, Ord)]
enum Mode {
    WebRtc,
    Srtp,
    Rtp,
}
impl Mode {
    fn name(self) -> &'static str {
        match self {
            Mode::WebRtc => "webrtc",
            Mode::Srtp => "srtp",
            Mode::Rtp => "rtp",
        }
    }
    fn from_name(s: &str) -> Option<Mode> {
        [Mode::WebRtc, Mode::Srtp, Mode::Rtp].into_iter().find(|m| m.name() == s)
    }
    fn transport(self) -> TransportMode {
        match self {
            Mode::WebRtc => TransportMode::WebRtc,
            Mode::Srtp => TransportMode::Srtp,
            Mode::Rtp => TransportMode::Rtp,
        }
    }
}

#[derive(Clone, Copy, PartialEq, Eq, Hash, Debug, PartialOrd, Ord)]
enum Start {
    Fresh,
    Offerer,
    Answerer,
    ConnOfferer,
    ConnAnswerer,
}
impl Start {
    fn name(self) -> &'static str {
        match self {
            Start::Fresh => "fresh",
            Start::Offerer => "negotiated-offerer",
            Start::Answerer => "negotiated-answerer",
            Start::ConnOfferer => "connected-offerer",
            Start::ConnAnswerer => "connected-answerer",
        }
    }
    fn from_name(s: &str) -> Option<Start> {
        [Start::Fresh, Start::Offerer, Start::Answerer, Start::ConnOfferer, Start::ConnAnswerer]
            .into_iter()
            .find(|m| m.name() == s)
    }
    fn connected(self) -> bool {
        matches!(self, Start::ConnOfferer | Start::ConnAnswerer)
    }
}

const NL: u8 = 17;
const L_CREATE_OFFER: u8 = 0;
const L_CREATE_ANSWER: u8 = 1;
const L_SL_O: u8 = 2;
const L_SL_OC: u8 = 3;
const L_SL_A: u8 = 4;
const L_SL_PRA: u8 = 5;
const L_SL_ROLLBACK: u8 = 6;
const L_SR_P1: u8 = 7;
const L_SR_P2: u8 = 8;
const L_SR_ANS: u8 = 9;
const L_SR_PRANS: u8 = 10;
const L_SR_ROLLBACK: u8 = 11;
const L_SR_BAD1: u8 = 12;
const L_SR_BAD2: u8 = 13;
const L_SR_BAD3: u8 = 14;
const L_SR_FANS: u8 = 15;
const L_CLOSE: u8 = 16;

const LETTER_NAMES: [&str; NL as usize] = [
    "create_offer",
    "create_answer",
    "set_local(O)",
    "set_local(O-changed)",
    "set_local(A)",
    "set_local(pranswer(A))",
    "set_local(rollback)",
    "set_remote(P1)",
    "set_remote(P2-changed)",
    "set_remote(ANS)",
    "set_remote(pranswer(ANS))",
    "set_remote(rollback)",
    "set_remote(bad1(P1))",
    "set_remote(bad2(P1))",
    "set_remote(bad3(P1))",
    "set_remote(foreignfp(ANS))",
    "close",
];

fn letter_from_name(s: &str) -> Option<u8> {
    (0..NL).find(|l| LETTER_NAMES[*l as usize] == s)
}
fn hist_names(h: &[u8]) -> Vec<&'static str> {
    h.iter().map(|l| LETTER_NAMES[*l as usize]).collect()
}

/// What the three malformed peer offers are in each mode.
fn bad_variant(mode: Mode, k: u8) -> &'static str {
    match (mode, k) {
        (Mode::WebRtc, 1) => "no-fingerprint",
        (Mode::WebRtc, 2) => "foreign-fingerprint",
        (Mode::Srtp, 1) => "no-crypto",
        (Mode::Srtp, 2) => "no-connection-line",
        (Mode::Rtp, 1) => "unparsable-connection-address",
        (Mode::Rtp, 2) => "no-connection-line",
        (_, _) => "mid-65535",
    }
}

/// The structural name of a call used in signatures: API + description type + variant.
fn call_sig(mode: Mode, l: u8) -> String {
    match l {
        L_CREATE_OFFER => "create_offer".into(),
        L_CREATE_ANSWER => "create_answer".into(),
        L_SL_O => "set_local(offer)".into(),
        L_SL_OC => "set_local(offer:changed)".into(),
        L_SL_A => "set_local(answer)".into(),
        L_SL_PRA => "set_local(pranswer)".into(),
        L_SL_ROLLBACK => "set_local(rollback)".into(),
        L_SR_P1 => "set_remote(offer)".into(),
        L_SR_P2 => "set_remote(offer:changed)".into(),
        L_SR_ANS => "set_remote(answer)".into(),
        L_SR_PRANS => "set_remote(pranswer)".into(),
        L_SR_ROLLBACK => "set_remote(rollback)".into(),
        L_SR_BAD1 => format!("set_remote(offer:{})", bad_variant(mode, 1)),
        L_SR_BAD2 => format!("set_remote(offer:{})", bad_variant(mode, 2)),
        L_SR_BAD3 => format!("set_remote(offer:{})", bad_variant(mode, 3)),
        L_SR_FANS => "set_remote(answer:foreign-fingerprint)".into(),
        L_CLOSE => "close".into(),
        _ => "?".into(),
    }
}

// ───────────────────────────── SDP helpers ─────────────────────────────

const FOREIGN_FP: &str = "sha-256 0F:1E:2D:3C:4B:5A:69:78:87:96:A5:B4:C3:D2:E1:F0:0F:1E:2D:3C:4B:5A:69:78:87:96:A5:B4:C3:D2:E1:F0";
const ABS_SEND_TIME: &str = "http://www.webrtc.org/experiments/rtp-hdrext/abs-send-time";

fn reparse(t: SdpType, text: &str) -> Option<SessionDescription> {
    SessionDescription::parse(t, text).ok()
}

fn lines(d: &SessionDescription) -> Vec<String> {
    d.to_sdp_string().split("\r\n").filter(|l| !l.is_empty()).map(|s| s.to_string()).collect()
}
fn unlines(l: &[String]) -> String {
    let mut s = l.join("\r\n");
    s.push_str("\r\n");
    s
}

fn strip_candidates(d: &SessionDescription) -> SessionDescription {
    let mut d = d.clone();
    for m in &mut d.media_sections {
        m.attributes.retain(|a| a.key != "candidate" && a.key != "end-of-candidates");
    }
    d
}

fn retype(d: &SessionDescription, t: SdpType) -> SessionDescription {
    let mut d = d.clone();
    d.sdp_type = t;
    d
}

/// A well-formed description that differs from `d` in payload types, header-extension ids and
/// direction (same peer identity, same mids, same number of sections).  Involutive on the
/// parts it touches, so the result always differs from its input.
fn changed(d: &SessionDescription) -> Option<SessionDescription> {
    let mut out = vec![];
    let src = lines(d);
    let to96 = src.iter().any(|l| l.starts_with("a=rtpmap:111 "));
    let has_ext = src.iter().any(|l| l.starts_with("a=extmap:"));
    for l in &src {
        let mut l = l.clone();
        if l.starts_with("m=audio ") {
            let mut p: Vec<String> = l.split(' ').map(|s| s.to_string()).collect();
            let head: Vec<String> = p.drain(..3).collect();
            let fm: Vec<String> = if to96 {
                p.iter().map(|f| if f == "111" { "96".to_string() } else { f.clone() }).chain(std::iter::once("0".to_string())).collect()
            } else {
                p.iter().filter(|f| *f != "0").map(|f| if f == "96" { "111".to_string() } else { f.clone() }).collect()
            };
            l = format!("{} {}", head.join(" "), fm.join(" "));
        } else if to96 && l.starts_with("a=rtpmap:111 ") {
            out.push(l.replacen("a=rtpmap:111 ", "a=rtpmap:96 ", 1));
            out.push("a=rtpmap:0 PCMU/8000".to_string());
            continue;
        } else if to96 && l.starts_with("a=fmtp:111 ") {
            l = l.replacen("a=fmtp:111 ", "a=fmtp:96 ", 1);
        } else if !to96 && l.starts_with("a=rtpmap:96 ") {
            l = l.replacen("a=rtpmap:96 ", "a=rtpmap:111 ", 1);
        } else if !to96 && l.starts_with("a=fmtp:96 ") {
            l = l.replacen("a=fmtp:96 ", "a=fmtp:111 ", 1);
        } else if !to96 && l == "a=rtpmap:0 PCMU/8000" {
            continue;
        } else if l == "a=sendrecv" {
            l = "a=sendonly".into();
        } else if l == "a=sendonly" || l == "a=recvonly" || l == "a=inactive" {
            l = "a=sendrecv".into();
        } else if l.starts_with("a=extmap:3 ") {
            l = l.replacen("a=extmap:3 ", "a=extmap:5 ", 1);
        } else if l.starts_with("a=extmap:5 ") {
            l = l.replacen("a=extmap:5 ", "a=extmap:3 ", 1);
        } else if !has_ext && l == "a=rtcp-mux" {
            out.push(l);
            out.push(format!("a=extmap:5 {ABS_SEND_TIME}"));
            continue;
        }
        out.push(l);
    }
    let r = reparse(d.sdp_type, &unlines(&out))?;
    if r == *d { None } else { Some(r) }
}

fn with_foreign_fp(d: &SessionDescription) -> Option<SessionDescription> {
    let mut any = false;
    let l: Vec<String> = lines(d)
        .into_iter()
        .map(|l| {
            if l.starts_with("a=fingerprint:") {
                any = true;
                format!("a=fingerprint:{FOREIGN_FP}")
            } else {
                l
            }
        })
        .collect();
    if !any {
        return None;
    }
    reparse(d.sdp_type, &unlines(&l))
}

fn malformed(mode: Mode, k: u8, p1: &SessionDescription) -> Option<SessionDescription> {
    let v = bad_variant(mode, k);
    let src = lines(p1);
    let l: Vec<String> = match v {
        "no-fingerprint" => src.into_iter().filter(|l| !l.starts_with("a=fingerprint:")).collect(),
        "foreign-fingerprint" => return with_foreign_fp(p1),
        "no-crypto" => src.into_iter().filter(|l| !l.starts_with("a=crypto:")).collect(),
        "no-connection-line" => src.into_iter().filter(|l| !l.starts_with("c=")).collect(),
        "unparsable-connection-address" => src
            .into_iter()
            .map(|l| if l.starts_with("c=") { "c=IN IP4 999.1.1.1".to_string() } else { l })
            .collect(),
        "mid-65535" => src
            .into_iter()
            .map(|l| {
                if l.starts_with("a=mid:") {
                    "a=mid:65535".to_string()
                } else if l.starts_with("a=group:BUNDLE ") {
                    "a=group:BUNDLE 65535".to_string()
                } else {
                    l
                }
            })
            .collect(),
        _ => return None,
    };
    let r = reparse(SdpType::Offer, &unlines(&l))?;
    if r == *p1 { None } else { Some(r) }
}

// ───────────────────────────── observation ─────────────────────────────

fn st_name(s: SignalingState) -> &'static str {
    match s {
        SignalingState::Stable => "Stable",
        SignalingState::HaveLocalOffer => "HaveLocalOffer",
        SignalingState::HaveRemoteOffer => "HaveRemoteOffer",
        SignalingState::Closed => "Closed",
    }
}

#[derive(Clone, PartialEq, Eq, Debug)]
struct TrSnap {
    kind: String,
    mid: Option<String>,
    dir: String,
    pm: BTreeMap<u8, String>,
    ext: BTreeMap<u8, String>,
}

#[derive(Clone, PartialEq, Eq, Debug)]
struct Snap {
    sig: SignalingState,
    local: Option<(SdpType, String)>,
    remote: Option<(SdpType, String)>,
    trs: Vec<TrSnap>,
}

/// Only public observers.
fn snap(pc: &PeerConnection) -> Snap {
    let d = |x: Option<SessionDescription>| x.map(|d| (d.sdp_type, d.to_sdp_string()));
    Snap {
        sig: pc.signaling_state(),
        local: d(pc.local_description()),
        remote: d(pc.remote_description()),
        trs: pc
            .get_transceivers()
            .iter()
            .map(|t| TrSnap {
                kind: format!("{:?}", t.kind()),
                mid: t.mid(),
                dir: format!("{:?}", t.direction()),
                pm: t
                    .get_payload_map()
                    .into_iter()
                    .map(|(k, v)| (k, format!("{}/{}/{}", v.name, v.clock_rate, v.channels)))
                    .collect(),
                ext: t.get_extmap().into_iter().collect(),
            })
            .collect(),
    }
}

/// Names of the components that differ, plus a readable description.
fn diff(a: &Snap, b: &Snap) -> (Vec<&'static str>, String) {
    let mut c = BTreeSet::new();
    let mut d = vec![];
    if a.sig != b.sig {
        c.insert("signaling_state");
        d.push(format!("signaling_state {} -> {}", st_name(a.sig), st_name(b.sig)));
    }
    if a.local != b.local {
        c.insert("local_description");
        d.push(format!(
            "local_description {:?} -> {:?} (type or text differs)",
            a.local.as_ref().map(|x| x.0.as_str()),
            b.local.as_ref().map(|x| x.0.as_str())
        ));
    }
    if a.remote != b.remote {
        c.insert("remote_description");
        d.push(format!(
            "remote_description {:?} -> {:?} (type or text differs)",
            a.remote.as_ref().map(|x| x.0.as_str()),
            b.remote.as_ref().map(|x| x.0.as_str())
        ));
    }
    if a.trs.len() != b.trs.len() {
        c.insert("transceiver_count");
        d.push(format!("transceivers {} -> {}", a.trs.len(), b.trs.len()));
    }
    for (i, (x, y)) in a.trs.iter().zip(b.trs.iter()).enumerate() {
        if x.kind != y.kind {
            c.insert("kind");
        }
        if x.mid != y.mid {
            c.insert("mid");
            d.push(format!("transceiver[{i}].mid {:?} -> {:?}", x.mid, y.mid));
        }
        if x.dir != y.dir {
            c.insert("direction");
            d.push(format!("transceiver[{i}].direction {} -> {}", x.dir, y.dir));
        }
        if x.pm != y.pm {
            c.insert("payload_map");
            d.push(format!("transceiver[{i}].payload_map {:?} -> {:?}", x.pm, y.pm));
        }
        if x.ext != y.ext {
            c.insert("extmap");
            d.push(format!("transceiver[{i}].extmap {:?} -> {:?}", x.ext, y.ext));
        }
    }
    (c.into_iter().collect(), d.join("; "))
}

// ───────────────────────────── canonical state ─────────────────────────────

/// Replaces per-instance random tokens (ufrag, pwd, fingerprint, ports, ssrc, cname, msid,
/// SDES keys, o= ids) by their index of first appearance (alpha-renaming), so that two
/// executions on different PeerConnection instances compare equal iff they are isomorphic.
struct Alpha {
    table: HashMap<String, usize>,
}
impl Alpha {
    fn new() -> Self {
        Alpha { table: HashMap::new() }
    }
    fn r(&mut self, v: &str) -> String {
        let n = self.table.len();
        let i = *self.table.entry(v.to_string()).or_insert(n);
        format!("<{i}>")
    }
    fn tok(&mut self, t: &str) -> String {
        const KEEP: [&str; 8] = ["sha-256", "AES_CM_128_HMAC_SHA1_80", "AES_CM_128_HMAC_SHA1_32", "FID", "host", "typ", "generation", "udp"];
        if let Some((k, v)) = t.split_once(':') {
            if ["cname", "msid", "inline", "mslabel", "label"].contains(&k) {
                return format!("{k}:{}", self.r(v));
            }
        }
        if t.len() >= 4 && !KEEP.contains(&t) { self.r(t) } else { t.to_string() }
    }
    fn text(&mut self, s: &str) -> String {
        let mut out = String::new();
        for l in s.split("\r\n") {
            if l.is_empty() {
                continue;
            }
            let nl = if let Some(rest) = l.strip_prefix("o=") {
                let p: Vec<&str> = rest.split(' ').collect();
                // wall-clock seconds; never compared by the implementation
                let q: Vec<String> = p.iter().enumerate().map(|(i, t)| if i == 1 || i == 2 { "<t>".to_string() } else { t.to_string() }).collect();
                format!("o={}", q.join(" "))
            } else if let Some(rest) = l.strip_prefix("m=") {
                let p: Vec<&str> = rest.split(' ').collect();
                let q: Vec<String> = p
                    .iter()
                    .enumerate()
                    .map(|(i, t)| if i == 1 && *t != "9" && *t != "0" { self.r(t) } else { t.to_string() })
                    .collect();
                format!("m={}", q.join(" "))
            } else if let Some((k, v)) = l.split_once(':') {
                if ["a=ice-ufrag", "a=ice-pwd", "a=msid", "a=ssrc", "a=crypto", "a=fingerprint", "a=candidate", "a=rtcp", "a=ssrc-group"].contains(&k) {
                    let q: Vec<String> = v.split(' ').map(|t| self.tok(t)).collect();
                    format!("{k}:{}", q.join(" "))
                } else {
                    l.to_string()
                }
            } else {
                l.to_string()
            };
            out.push_str(&nl);
            out.push('\n');
        }
        out
    }
}

// ───────────────────────────── reference JSEP machine ─────────────────────────────

#[derive(Clone, Copy, PartialEq, Eq, Debug)]
enum Exp {
    /// The machine allows the call and the operand is the one the machine is about: must succeed.
    MustOk(SignalingState),
    /// The machine forbids the call (or the API documents it as refused): must fail.
    MustErr,
    /// Not determined by the machine (stale/changed/malformed operand, or a call JSEP permits
    /// but an implementation may restrict): judged by atomicity only; if it succeeds the
    /// state must be the given one.
    Either(SignalingState),
}

#[derive(Clone, Debug)]
struct Ref {
    st: SignalingState,
    /// slot O was produced by create_offer in the current Stable period
    o_fresh: bool,
    /// slot A was produced by create_answer in the current HaveRemoteOffer period
    a_fresh: bool,
    /// the pending local offer is exactly slot O (so ANS answers it)
    local_is_o: bool,
}

impl Ref {
    fn expect(&self, l: u8) -> Exp {
        use SignalingState::*;
        let s = self.st;
        if s == Closed {
            return if l == L_CLOSE { Exp::MustOk(Closed) } else { Exp::MustErr };
        }
        let ok_if = |c: bool, n: SignalingState| if c { Exp::MustOk(n) } else { Exp::Either(n) };
        match l {
            L_CLOSE => Exp::MustOk(Closed),
            L_CREATE_OFFER => {
                if s == Stable { Exp::MustOk(Stable) } else { Exp::Either(s) }
            }
            L_CREATE_ANSWER => {
                if s == HaveRemoteOffer { Exp::MustOk(s) } else { Exp::MustErr }
            }
            L_SL_O | L_SL_OC => match s {
                Stable => ok_if(l == L_SL_O && self.o_fresh, HaveLocalOffer),
                HaveLocalOffer => Exp::Either(HaveLocalOffer),
                _ => Exp::MustErr,
            },
            L_SL_A => match s {
                HaveRemoteOffer => ok_if(self.a_fresh, Stable),
                _ => Exp::MustErr,
            },
            L_SL_PRA => match s {
                HaveRemoteOffer => ok_if(self.a_fresh, HaveRemoteOffer),
                _ => Exp::MustErr,
            },
            L_SL_ROLLBACK | L_SR_ROLLBACK => Exp::MustErr,
            L_SR_P1 | L_SR_P2 => match s {
                Stable => Exp::MustOk(HaveRemoteOffer),
                HaveRemoteOffer => Exp::Either(HaveRemoteOffer),
                _ => Exp::MustErr,
            },
            L_SR_BAD1 | L_SR_BAD2 | L_SR_BAD3 => match s {
                Stable | HaveRemoteOffer => Exp::Either(HaveRemoteOffer),
                _ => Exp::MustErr,
            },
            L_SR_ANS => match s {
                HaveLocalOffer => ok_if(self.local_is_o, Stable),
                _ => Exp::MustErr,
            },
            L_SR_PRANS => match s {
                HaveLocalOffer => ok_if(self.local_is_o, HaveLocalOffer),
                _ => Exp::MustErr,
            },
            L_SR_FANS => match s {
                HaveLocalOffer => Exp::Either(Stable),
                _ => Exp::MustErr,
            },
            _ => Exp::MustErr,
        }
    }

    /// Bookkeeping after a call; `actual` is the implementation's state (the reference
    /// re-synchronises on it so that one defect is not reported again on every later step).
    fn advance(&mut self, l: u8, ok: bool, actual: SignalingState) {
        let before = self.st;
        if ok && l == L_CREATE_OFFER {
            self.o_fresh = before == SignalingState::Stable;
        }
        if ok && l == L_CREATE_ANSWER {
            self.a_fresh = before == SignalingState::HaveRemoteOffer;
        }
        if ok && (l == L_SL_O || l == L_SL_OC) {
            self.local_is_o = l == L_SL_O;
        }
        if ok && l == L_CREATE_OFFER {
            // slot O replaced: a pending local offer is no longer slot O
            if before == SignalingState::HaveLocalOffer {
                self.local_is_o = false;
            }
        }
        if actual != before {
            self.o_fresh = false;
            self.a_fresh = false;
            if actual != SignalingState::HaveLocalOffer {
                self.local_is_o = false;
            }
        }
        self.st = actual;
    }
}

// ───────────────────────────── the world ─────────────────────────────

#[derive(Default, Clone)]
struct Slots {
    o: Option<SessionDescription>,
    oc: Option<SessionDescription>,
    a: Option<SessionDescription>,
    p1: Option<SessionDescription>,
    p2: Option<SessionDescription>,
    ans: Option<SessionDescription>,
    fans: Option<SessionDescription>,
    bad: [Option<SessionDescription>; 3],
}

struct World {
    mode: Mode,
    start: Start,
    pc: PeerConnection,
    shadow: PeerConnection,
    slots: Slots,
    rf: Ref,
    shadow_errors: Vec<String>,
}

fn config(mode: Mode) -> RtcConfiguration {
    let mut c = RtcConfiguration::default();
    c.transport_mode = mode.transport();
    c.bind_ip = Some("127.0.0.1".into());
    c.disable_ipv6 = true;
    c.enable_upnp = false;
    c.ice_servers = vec![];
    c
}

#[derive(Clone, Debug)]
enum Res {
    Ok,
    Err { variant: &'static str, msg: String },
    Panic(String),
}
impl Res {
    fn is_ok(&self) -> bool {
        matches!(self, Res::Ok)
    }
    fn class(&self) -> String {
        match self {
            Res::Ok => "ok".into(),
            Res::Err { variant, msg } => format!("err:{variant}:{}", slug(msg)),
            Res::Panic(m) => format!("panic:{}", slug(m)),
        }
    }
}

fn slug(s: &str) -> String {
    let t: String = s
        .chars()
        .map(|c| if c.is_ascii_alphanumeric() { c.to_ascii_lowercase() } else { '-' })
        .collect();
    let mut o = String::new();
    for part in t.split('-').filter(|p| !p.is_empty()) {
        if !o.is_empty() {
            o.push('-');
        }
        o.push_str(part);
        if o.len() > 44 {
            break;
        }
    }
    o
}

fn err_res(e: RtcError) -> Res {
    let (variant, msg) = match &e {
        RtcError::InvalidConfiguration(m) => ("InvalidConfiguration", m.clone()),
        RtcError::InvalidState(m) => ("InvalidState", m.clone()),
        RtcError::NotImplemented(m) => ("NotImplemented", m.to_string()),
        RtcError::Protocol(m) => ("Protocol", m.clone()),
        RtcError::Transport(m) => ("Transport", m.clone()),
        RtcError::Internal(m) => ("Internal", m.clone()),
    };
    Res::Err { variant, msg }
}

async fn guarded<T>(f: impl std::future::Future<Output = Result<T, RtcError>>) -> Result<T, Res> {
    match AssertUnwindSafe(f).catch_unwind().await {
        Ok(Ok(v)) => Ok(v),
        Ok(Err(e)) => Err(err_res(e)),
        Err(p) => {
            let msg = if let Some(s) = p.downcast_ref::<&str>() {
                s.to_string()
            } else if let Some(s) = p.downcast_ref::<String>() {
                s.clone()
            } else {
                "panic".to_string()
            };
            let loc = vh::LAST_PANIC_LOC.with(|l| l.borrow().clone());
            // keep only file:line-less location (line numbers shift); file name is stable
            let file = loc.rsplit('/').next().unwrap_or("").split(':').next().unwrap_or("").to_string();
            Err(Res::Panic(format!("{msg} @ {file}")))
        }
    }
}

impl World {
    fn prep(&self, d: SessionDescription) -> SessionDescription {
        if self.start.connected() { d } else { strip_candidates(&d) }
    }

    /// Feed slot O to the shadow peer and take its genuine answer.
    async fn answer_from_shadow(&mut self) {
        self.slots.ans = None;
        self.slots.fans = None;
        let Some(o) = self.slots.o.clone() else { return };
        if self.shadow.signaling_state() != SignalingState::Stable {
            self.shadow_errors.push("shadow not stable".into());
            return;
        }
        if let Err(e) = guarded(self.shadow.set_remote_description(o)).await {
            self.shadow_errors.push(format!("shadow set_remote(O): {}", e.class()));
            return;
        }
        match guarded(self.shadow.create_answer()).await {
            Ok(a) => {
                let a = self.prep(a);
                if let Err(e) = guarded(async { self.shadow.set_local_description(a.clone()) }).await {
                    self.shadow_errors.push(format!("shadow set_local(ANS): {}", e.class()));
                    return;
                }
                self.slots.fans = if self.mode == Mode::WebRtc { with_foreign_fp(&a) } else { None };
                self.slots.ans = Some(a);
            }
            Err(e) => self.shadow_errors.push(format!("shadow create_answer: {}", e.class())),
        }
    }

    fn set_o(&mut self, o: SessionDescription) {
        self.slots.oc = changed(&o);
        self.slots.o = Some(o);
    }

    async fn peer_offers(&mut self) -> Result<(), String> {
        let p1 = guarded(self.shadow.create_offer()).await.map_err(|e| format!("shadow create_offer: {}", e.class()))?;
        let p1 = self.prep(p1);
        self.slots.p2 = changed(&p1);
        for k in 0..3u8 {
            self.slots.bad[k as usize] = malformed(self.mode, k + 1, &p1);
        }
        self.slots.p1 = Some(p1);
        Ok(())
    }

    async fn build(mode: Mode, start: Start) -> Result<World, RunErr> {
        let pc = PeerConnection::new(config(mode));
        pc.add_transceiver(MediaKind::Audio, TransceiverDirection::SendRecv);
        let shadow = PeerConnection::new(config(mode));
        shadow.add_transceiver(MediaKind::Audio, TransceiverDirection::SendRecv);
        let mut w = World {
            mode,
            start,
            pc,
            shadow,
            slots: Slots::default(),
            rf: Ref { st: SignalingState::Stable, o_fresh: false, a_fresh: false, local_is_o: false },
            shadow_errors: vec![],
        };
        let e = |what: &str, r: Res| {
            let msg = format!("start {}: {what}: {}", start.name(), r.class());
            RunErr {
                happy_path: Some(Found {
                    step: 0,
                    signature: format!("jsep;start-sequence({});{what};expected=ok;got={}", start.name(), r.class()),
                    detail: format!(
                        "mode={} start={}: the plain offer/answer exchange that sets up the start state was refused at `{what}`: {:?}",
                        mode.name(),
                        start.name(),
                        r
                    ),
                }),
                msg,
            }
        };
        let gather = |p: PeerConnection| async move {
            let _ = tokio::time::timeout(Duration::from_secs(3), p.wait_for_gathering_complete()).await;
        };
        match start {
            Start::Fresh => {}
            Start::Offerer | Start::ConnOfferer => {
                let mut o = guarded(w.pc.create_offer()).await.map_err(|r| e("create_offer", r))?;
                if start.connected() {
                    gather(w.pc.clone()).await;
                    o = guarded(w.pc.create_offer()).await.map_err(|r| e("create_offer", r))?;
                }
                let o = w.prep(o);
                guarded(async { w.pc.set_local_description(o.clone()) }).await.map_err(|r| e("set_local", r))?;
                guarded(w.shadow.set_remote_description(o.clone())).await.map_err(|r| e("shadow set_remote", r))?;
                let mut a = guarded(w.shadow.create_answer()).await.map_err(|r| e("shadow create_answer", r))?;
                if start.connected() {
                    gather(w.shadow.clone()).await;
                    a = guarded(w.shadow.create_answer()).await.map_err(|r| e("shadow create_answer", r))?;
                }
                let a = w.prep(a);
                guarded(async { w.shadow.set_local_description(a.clone()) }).await.map_err(|r| e("shadow set_local", r))?;
                guarded(w.pc.set_remote_description(a.clone())).await.map_err(|r| e("set_remote", r))?;
                w.set_o(o);
                w.slots.fans = if mode == Mode::WebRtc { with_foreign_fp(&a) } else { None };
                w.slots.ans = Some(a);
            }
            Start::Answerer | Start::ConnAnswerer => {
                let mut p = guarded(w.shadow.create_offer()).await.map_err(|r| e("shadow create_offer", r))?;
                if start.connected() {
                    gather(w.shadow.clone()).await;
                    p = guarded(w.shadow.create_offer()).await.map_err(|r| e("shadow create_offer", r))?;
                }
                let p = w.prep(p);
                guarded(async { w.shadow.set_local_description(p.clone()) }).await.map_err(|r| e("shadow set_local", r))?;
                guarded(w.pc.set_remote_description(p.clone())).await.map_err(|r| e("set_remote", r))?;
                let mut a = guarded(w.pc.create_answer()).await.map_err(|r| e("create_answer", r))?;
                if start.connected() {
                    gather(w.pc.clone()).await;
                    a = guarded(w.pc.create_answer()).await.map_err(|r| e("create_answer", r))?;
                }
                let a = w.prep(a);
                guarded(async { w.pc.set_local_description(a.clone()) }).await.map_err(|r| e("set_local", r))?;
                guarded(w.shadow.set_remote_description(a.clone())).await.map_err(|r| e("shadow set_remote", r))?;
                w.slots.a = Some(a);
            }
        }
        if start.connected() {
            for (n, p) in [("pc", w.pc.clone()), ("shadow", w.shadow.clone())] {
                match tokio::time::timeout(Duration::from_secs(8), p.wait_for_connected()).await {
                    Ok(Ok(())) => {}
                    Ok(Err(x)) => return Err(format!("start {}: {n} failed to connect: {x}", start.name()).into()),
                    Err(_) => return Err(format!("start {}: {n} connect timeout", start.name()).into()),
                }
            }
        }
        if w.pc.signaling_state() != SignalingState::Stable || w.shadow.signaling_state() != SignalingState::Stable {
            return Err(format!("start {}: not stable after setup", start.name()).into());
        }
        w.peer_offers().await.map_err(|m| {
            let r = Res::Err { variant: "start", msg: m.clone() };
            e("shadow create_offer (re-offer in Stable)", r)
        })?;
        Ok(w)
    }

    fn operand(&self, l: u8) -> Option<Option<SessionDescription>> {
        let s = &self.slots;
        let rb = || Some(SessionDescription::new(SdpType::Rollback));
        Some(match l {
            L_SL_O => s.o.clone(),
            L_SL_OC => s.oc.clone(),
            L_SL_A => s.a.clone(),
            L_SL_PRA => s.a.as_ref().map(|a| retype(a, SdpType::Pranswer)),
            L_SL_ROLLBACK | L_SR_ROLLBACK => rb(),
            L_SR_P1 => s.p1.clone(),
            L_SR_P2 => s.p2.clone(),
            L_SR_ANS => s.ans.clone(),
            L_SR_PRANS => s.ans.as_ref().map(|a| retype(a, SdpType::Pranswer)),
            L_SR_BAD1 => s.bad[0].clone(),
            L_SR_BAD2 => s.bad[1].clone(),
            L_SR_BAD3 => s.bad[2].clone(),
            L_SR_FANS => s.fans.clone(),
            _ => return None,
        })
    }

    fn applicable(&self, l: u8) -> bool {
        match self.operand(l) {
            None => true,
            Some(d) => d.is_some(),
        }
    }

    /// One real API call.  None = letter not applicable (operand slot empty).
    async fn call(&mut self, l: u8) -> Option<Res> {
        match l {
            L_CREATE_OFFER => Some(match guarded(self.pc.create_offer()).await {
                Ok(o) => {
                    let o = self.prep(o);
                    self.set_o(o);
                    self.answer_from_shadow().await;
                    Res::Ok
                }
                Err(r) => r,
            }),
            L_CREATE_ANSWER => Some(match guarded(self.pc.create_answer()).await {
                Ok(a) => {
                    self.slots.a = Some(self.prep(a));
                    Res::Ok
                }
                Err(r) => r,
            }),
            L_CLOSE => Some(match guarded(async { self.pc.close(); Ok::<(), RtcError>(()) }).await {
                Ok(()) => Res::Ok,
                Err(r) => r,
            }),
            L_SL_O | L_SL_OC | L_SL_A | L_SL_PRA | L_SL_ROLLBACK => {
                let d = self.operand(l)??;
                Some(match guarded(async { self.pc.set_local_description(d) }).await {
                    Ok(()) => Res::Ok,
                    Err(r) => r,
                })
            }
            _ => {
                let d = self.operand(l)??;
                Some(match guarded(self.pc.set_remote_description(d)).await {
                    Ok(()) => Res::Ok,
                    Err(r) => r,
                })
            }
        }
    }

    fn canon(&self) -> String {
        let mut al = Alpha::new();
        let mut s = String::new();
        let sn = snap(&self.pc);
        s.push_str(&format!(
            "sig={} ref={} of={} af={} lo={}\n",
            st_name(sn.sig),
            st_name(self.rf.st),
            self.rf.o_fresh as u8,
            self.rf.a_fresh as u8,
            self.rf.local_is_o as u8
        ));
        let mut put = |name: &str, d: Option<(SdpType, String)>, al: &mut Alpha| match d {
            None => s.push_str(&format!("[{name}] none\n")),
            Some((t, txt)) => {
                s.push_str(&format!("[{name}] {}\n", t.as_str()));
                s.push_str(&al.text(&txt));
            }
        };
        let f = |d: &Option<SessionDescription>| d.as_ref().map(|d| (d.sdp_type, d.to_sdp_string()));
        put("P1", f(&self.slots.p1), &mut al);
        put("O", f(&self.slots.o), &mut al);
        put("A", f(&self.slots.a), &mut al);
        put("ANS", f(&self.slots.ans), &mut al);
        put("local", sn.local.clone(), &mut al);
        put("remote", sn.remote.clone(), &mut al);
        for t in &sn.trs {
            s.push_str(&format!("tr {} {:?} {} {:?} {:?}\n", t.kind, t.mid, t.dir, t.pm, t.ext));
        }
        s
    }
}

// ───────────────────────────── running one history ─────────────────────────────

/// Why a history could not be run.  `happy_path` is set when a call of the start sequence (a
/// plain offer/answer exchange that the JSEP machine allows) was refused by the real code:
/// that is a verdict about the implementation, not harness trouble.
#[derive(Clone, Debug)]
struct RunErr {
    happy_path: Option<Found>,
    msg: String,
}
impl From<String> for RunErr {
    fn from(msg: String) -> Self {
        RunErr { happy_path: None, msg }
    }
}

#[derive(Clone, Debug)]
struct StepRec {
    letter: u8,
    pre: SignalingState,
    post: SignalingState,
    exp: Exp,
    res: Res,
    /// verdict class of this step: "" when fine, else the violation signatures joined
    verdict: String,
}

#[derive(Clone, Debug)]
struct Found {
    step: usize,
    signature: String,
    detail: String,
}

struct HistOut {
    steps: Vec<StepRec>,
    found: Vec<Found>,
    /// Some(i): letter i of the history was not applicable (history is not in the space)
    na_at: Option<usize>,
    canon: String,
    applicable: Vec<u8>,
    shadow_errors: Vec<String>,
    trace_digest: Vec<u64>,
    /// filled by the explorer when it compacts a result (canon text and early steps dropped)
    canon_h: u64,
    sample: Option<Value>,
}

async fn replay(mode: Mode, start: Start, hist: &[u8]) -> Result<HistOut, RunErr> {
    let mut w = World::build(mode, start).await?;
    let mut out = HistOut { steps: vec![], found: vec![], na_at: None, canon: String::new(), applicable: vec![], shadow_errors: vec![], trace_digest: vec![], canon_h: 0, sample: None };
    for (i, &l) in hist.iter().enumerate() {
        let pre = snap(&w.pc);
        let exp = w.rf.expect(l);
        let Some(res) = w.call(l).await else {
            out.na_at = Some(i);
            break;
        };
        let post = snap(&w.pc);
        let cs = call_sig(mode, l);
        let mut verdicts = vec![];
        let ctx = |what: &str| {
            format!(
                "mode={} start={} history={:?} step={} call={} pre={} result={} :: {what}",
                mode.name(),
                start.name(),
                hist_names(&hist[..=i]),
                i,
                LETTER_NAMES[l as usize],
                st_name(pre.sig),
                match &res {
                    Res::Ok => "Ok".to_string(),
                    Res::Err { variant, msg } => format!("Err({variant}: {msg})"),
                    Res::Panic(m) => format!("PANIC({m})"),
                }
            )
        };
        // oracle (1): conformance with the reference machine
        match (&exp, res.is_ok()) {
            (Exp::MustErr, true) => {
                let sig = format!("jsep;{cs};pre={};expected=err;got=ok->{}", st_name(pre.sig), st_name(post.sig));
                out.found.push(Found { step: i, signature: sig.clone(), detail: ctx("the JSEP machine forbids this call but it succeeded") });
                verdicts.push(sig);
            }
            (Exp::MustOk(n), false) => {
                let sig = format!("jsep;{cs};pre={};expected=ok->{};got={}", st_name(pre.sig), st_name(*n), res.class());
                out.found.push(Found { step: i, signature: sig.clone(), detail: ctx("the JSEP machine allows this call but it failed") });
                verdicts.push(sig);
            }
            (Exp::MustOk(n), true) | (Exp::Either(n), true) => {
                if post.sig != *n {
                    let sig = format!("jsep;{cs};pre={};expected=ok->{};got=ok->{}", st_name(pre.sig), st_name(*n), st_name(post.sig));
                    out.found.push(Found { step: i, signature: sig.clone(), detail: ctx("wrong signaling state after a successful call") });
                    verdicts.push(sig);
                }
            }
            _ => {}
        }
        // oracle (2): a call that returns an error changes nothing.  (A panic is not "returns an
        // error": panics are counted and listed in the evidence, not judged here.)
        if matches!(res, Res::Err { .. }) {
            let (comps, descr) = diff(&pre, &post);
            if !comps.is_empty() {
                let sig = format!("atomic;{cs};pre={};{};changed={}", st_name(pre.sig), res.class(), comps.join("+"));
                out.found.push(Found { step: i, signature: sig.clone(), detail: ctx(&format!("rejected call changed observable state: {descr}")) });
                verdicts.push(sig);
            }
        }
        w.rf.advance(l, res.is_ok(), post.sig);
        out.trace_digest.push(vh::fnv1a(format!("{}|{}|{:?}", res.class(), st_name(post.sig), verdicts).as_bytes()));
        out.steps.push(StepRec { letter: l, pre: pre.sig, post: post.sig, exp, res, verdict: verdicts.join(" & ") });
    }
    if out.na_at.is_none() {
        out.canon = w.canon();
        out.applicable = (0..NL).filter(|l| w.applicable(*l)).collect();
    }
    out.shadow_errors = std::mem::take(&mut w.shadow_errors);
    w.pc.close();
    w.shadow.close();
    Ok(out)
}

thread_local! {
    static RT: RefCell<Option<(tokio::runtime::Runtime, u32)>> = const { RefCell::new(None) };
}

/// Runs one history on this thread's current-thread runtime (rotated every 128 histories so
/// that tasks of finished PeerConnections cannot pile up).
fn run_history(mode: Mode, start: Start, hist: &[u8]) -> Result<HistOut, RunErr> {
    RT.with(|cell| {
        let mut g = cell.borrow_mut();
        let rotate = match g.as_ref() {
            None => true,
            Some((_, n)) => *n >= 128,
        };
        if rotate {
            if let Some((old, _)) = g.take() {
                old.shutdown_background();
            }
            let rt = tokio::runtime::Builder::new_current_thread()
                .enable_all()
                .build()
                .map_err(|e| RunErr::from(format!("runtime: {e}")))?;
            *g = Some((rt, 0));
        }
        let (rt, n) = g.as_mut().unwrap();
        *n += 1;
        let r = std::panic::catch_unwind(AssertUnwindSafe(|| {
            rt.block_on(async {
                match tokio::time::timeout(Duration::from_secs(60), replay(mode, start, hist)).await {
                    Ok(r) => r,
                    Err(_) => Err("history timed out (60 s)".to_string().into()),
                }
            })
        }));
        match r {
            Ok(r) => r,
            Err(_) => {
                *g = None;
                Err(format!("harness panic outside guarded call: {}", vh::LAST_PANIC_GLOBAL.lock().map(|g| g.clone()).unwrap_or_default()).into())
            }
        }
    })
}

// ───────────────────────────── search ─────────────────────────────

struct Combo {
    mode: Mode,
    start: Start,
    d1: usize,
    d2: usize,
}

#[derive(Default)]
struct ComboStats {
    histories: u64,
    transitions: u64,
    states: BTreeSet<u64>,
    outcome_classes: BTreeSet<String>,
    err_calls: u64,
    ok_calls: u64,
    panic_calls: u64,
    na_skipped: u64,
    merged_pairs_checked: u64,
    canon_unsound: Vec<String>,
    nondeterministic: Vec<String>,
    shadow_errors: BTreeSet<String>,
    build_errors: Vec<String>,
    level_sizes: Vec<(usize, usize, usize)>,
    samples: Vec<Value>,
    dedup_expanded: u64,
    start_refused: bool,
}

struct Node {
    hist: Vec<u8>,
    canon_h: u64,
    applicable: Vec<u8>,
    digest: Vec<u64>,
}

fn explore(c: &Combo, rep_found: &mut Vec<(Mode, Start, Vec<u8>, Found)>) -> ComboStats {
    let mut st = ComboStats::default();
    let root = match run_history(c.mode, c.start, &[]) {
        Ok(o) => o,
        Err(e) => {
            match e.happy_path {
                Some(f) => {
                    rep_found.push((c.mode, c.start, vec![], f));
                    st.start_refused = true;
                }
                None => st.build_errors.push(e.msg),
            }
            return st;
        }
    };
    st.histories += 1;
    let root_h = vh::fnv1a(root.canon.as_bytes());
    st.states.insert(root_h);
    let mut frontier = vec![Node { hist: vec![], canon_h: root_h, applicable: root.applicable.clone(), digest: vec![] }];
    // canon -> (successor map of the first history that reached it, that history)
    let mut succ_by_canon: HashMap<u64, (Vec<u8>, BTreeMap<u8, (u64, String)>)> = HashMap::new();
    for level in 1..=c.d2 {
        let mut cands: Vec<(usize, Vec<u8>)> = vec![];
        for (pi, n) in frontier.iter().enumerate() {
            for &l in &n.applicable {
                let mut h = n.hist.clone();
                h.push(l);
                cands.push((pi, h));
            }
        }
        let (mode, start) = (c.mode, c.start);
        let sample_len = c.d1.min(4);
        let results: Vec<(usize, Vec<u8>, Result<HistOut, RunErr>)> = cands
            .into_par_iter()
            .map(|(pi, h)| {
                // compact the result: hundreds of thousands of them are held per level
                let r = run_history(mode, start, &h).map(|mut o| {
                    o.canon_h = vh::fnv1a(o.canon.as_bytes());
                    o.canon = String::new();
                    let distinct_letters = h.iter().collect::<BTreeSet<_>>().len() == h.len();
                    let posts: BTreeSet<&str> = o.steps.iter().map(|s| st_name(s.post)).collect();
                    if h.len() == sample_len && distinct_letters && posts.len() >= 2 && o.steps.iter().filter(|s| s.res.is_ok()).count() >= 2 && o.steps.iter().any(|s| !s.res.is_ok()) && !h.contains(&L_CLOSE) {
                        o.sample = Some(json!({
                            "mode": mode.name(), "start": start.name(),
                            "history": hist_names(&h),
                            "steps": o.steps.iter().map(|s| json!({
                                "call": LETTER_NAMES[s.letter as usize], "pre": st_name(s.pre), "post": st_name(s.post),
                                "expected": format!("{:?}", s.exp), "result": s.res.class(), "verdict": s.verdict,
                            })).collect::<Vec<_>>(),
                        }));
                    }
                    if o.steps.len() > 1 {
                        let n = o.steps.len();
                        o.steps.drain(..n - 1);
                    }
                    o.found.retain(|f| f.step + 1 == h.len());
                    o
                });
                (pi, h, r)
            })
            .collect();
        let mut next: Vec<Node> = vec![];
        let mut succ_maps: HashMap<usize, BTreeMap<u8, (u64, String)>> = HashMap::new();
        let mut new_at_level: BTreeSet<u64> = BTreeSet::new();
        for (pi, h, r) in results {
            let o = match r {
                Ok(o) => o,
                Err(e) => {
                    if st.build_errors.len() < 20 {
                        st.build_errors.push(format!("{:?}: {}", hist_names(&h), e.msg));
                    }
                    continue;
                }
            };
            if o.na_at.is_some() {
                // parent said applicable but the replay disagreed: nondeterminism
                st.nondeterministic.push(format!("{:?}: applicability changed between runs", hist_names(&h)));
                st.na_skipped += 1;
                continue;
            }
            st.histories += 1;
            st.transitions += 1;
            for e in &o.shadow_errors {
                st.shadow_errors.insert(e.clone());
            }
            let parent = &frontier[pi];
            if o.trace_digest[..h.len() - 1] != parent.digest[..] {
                if st.nondeterministic.len() < 20 {
                    st.nondeterministic.push(format!("{:?}: prefix trace differs from the parent's run", hist_names(&h)));
                }
            }
            let last = o.steps.last().unwrap();
            match &last.res {
                Res::Ok => st.ok_calls += 1,
                Res::Err { .. } => st.err_calls += 1,
                Res::Panic(_) => st.panic_calls += 1,
            }
            st.outcome_classes.insert(format!("{};pre={};{};post={}", call_sig(mode, last.letter), st_name(last.pre), last.res.class(), st_name(last.post)));
            for f in &o.found {
                if f.step == h.len() - 1 {
                    rep_found.push((mode, start, h.clone(), f.clone()));
                }
            }
            let ch = o.canon_h;
            succ_maps.entry(pi).or_default().insert(*h.last().unwrap(), (ch, last.verdict.clone()));
            let is_new = !st.states.contains(&ch);
            if st.samples.is_empty() {
                if let Some(v) = o.sample.clone() {
                    st.samples.push(v);
                }
            }
            if level <= c.d1 {
                if level < c.d2 {
                    next.push(Node { hist: h, canon_h: ch, applicable: o.applicable, digest: o.trace_digest });
                }
                if is_new {
                    new_at_level.insert(ch);
                }
            } else if is_new && !new_at_level.contains(&ch) {
                new_at_level.insert(ch);
                if level < c.d2 {
                    next.push(Node { hist: h, canon_h: ch, applicable: o.applicable, digest: o.trace_digest });
                }
            }
        }
        // soundness cross-check of the abstraction (DESIGN 2.3) on the fully expanded levels
        if level <= c.d1 {
            for (pi, m) in succ_maps {
                let p = &frontier[pi];
                match succ_by_canon.get(&p.canon_h) {
                    None => {
                        succ_by_canon.insert(p.canon_h, (p.hist.clone(), m));
                    }
                    Some((h0, m0)) => {
                        st.merged_pairs_checked += 1;
                        if *m0 != m && st.canon_unsound.len() < 10 {
                            let dl: Vec<String> = (0..NL)
                                .filter(|l| m0.get(l) != m.get(l))
                                .map(|l| format!("{}: {:?} vs {:?}", LETTER_NAMES[l as usize], m0.get(&l), m.get(&l)))
                                .collect();
                            st.canon_unsound.push(format!("{:?} ~ {:?} differ on {}", hist_names(h0), hist_names(&p.hist), dl.join(", ")));
                        }
                    }
                }
            }
        } else {
            st.dedup_expanded += frontier.len() as u64;
        }
        for s in &new_at_level {
            st.states.insert(*s);
        }
        st.level_sizes.push((level, next.len(), new_at_level.len()));
        // deterministic order of representatives
        next.sort_by(|a, b| a.hist.cmp(&b.hist));
        if level >= c.d1 {
            // the next level is a dedup level: expand only states first seen at this level,
            // one representative each (lexicographically first history)
            let mut seen = BTreeSet::new();
            next.retain(|n| new_at_level.contains(&n.canon_h) && seen.insert(n.canon_h));
        }
        frontier = next;
        if frontier.is_empty() {
            break;
        }
    }
    st
}

// ───────────────────────────── main ─────────────────────────────

fn env_usize(k: &str) -> Option<usize> {
    std::env::var(k).ok().and_then(|s| s.parse().ok())
}

fn combos(tier: vh::Tier) -> Vec<Combo> {
    let mut v = vec![];
    for mode in [Mode::Rtp, Mode::Srtp, Mode::WebRtc] {
        for start in [Start::Fresh, Start::Offerer, Start::Answerer] {
            let (d1, d2) = match (tier, mode) {
                (vh::Tier::Quick, Mode::Rtp) => (4, 6),
                (vh::Tier::Quick, _) => (3, 6),
                (vh::Tier::Thorough, _) => (5, 8),
            };
            v.push(Combo { mode, start, d1: env_usize("C09_D1").unwrap_or(d1), d2: env_usize("C09_D2").unwrap_or(d2) });
        }
    }
    for start in [Start::ConnOfferer, Start::ConnAnswerer] {
        let (d1, d2) = tier.pick((2, 4), (3, 6));
        v.push(Combo { mode: Mode::WebRtc, start, d1: env_usize("C09_CD1").unwrap_or(d1), d2: env_usize("C09_CD2").unwrap_or(d2) });
    }
    if let Ok(f) = std::env::var("C09_ONLY") {
        v.retain(|c| format!("{}/{}", c.mode.name(), c.start.name()).contains(&f));
    }
    v
}

fn print_history(mode: Mode, start: Start, hist: &[u8]) -> Result<Vec<Found>, String> {
    let o = match run_history(mode, start, hist) {
        Ok(o) => o,
        Err(RunErr { happy_path: Some(f), .. }) => {
            println!("mode={} start={}: start sequence refused", mode.name(), start.name());
            println!("  VIOLATES: {}\n    {}", f.signature, f.detail);
            return Ok(vec![f]);
        }
        Err(e) => return Err(e.msg),
    };
    println!("mode={} start={} history={:?}", mode.name(), start.name(), hist_names(hist));
    if let Some(i) = o.na_at {
        println!("  letter {i} not applicable (operand slot empty)");
    }
    for (i, s) in o.steps.iter().enumerate() {
        println!(
            "  step {i}: {:<28} pre={:<15} expected={:<28} result={} post={}{}",
            LETTER_NAMES[s.letter as usize],
            st_name(s.pre),
            format!("{:?}", s.exp),
            s.res.class(),
            st_name(s.post),
            if s.verdict.is_empty() { String::new() } else { format!("   <== {}", s.verdict) }
        );
    }
    for f in &o.found {
        println!("  VIOLATES at step {}: {}\n    {}", f.step, f.signature, f.detail);
    }
    Ok(o.found)
}

fn main() {
    let cli = vh::cli();
    vh::install_quiet_panic_hook();
    if let Some(path) = &cli.replay {
        let txt = std::fs::read_to_string(path).unwrap_or_else(|e| vh::machinery_failure(&format!("cannot read {}: {e}", path.display())));
        let v: Value = serde_json::from_str(&txt).unwrap_or_else(|e| vh::machinery_failure(&format!("bad replay file: {e}")));
        let r = if v.get("replay").is_some() { v["replay"].clone() } else { v.clone() };
        let mode = r["mode"].as_str().and_then(Mode::from_name).unwrap_or_else(|| vh::machinery_failure("replay: bad mode"));
        let start = r["start"].as_str().and_then(Start::from_name).unwrap_or_else(|| vh::machinery_failure("replay: bad start"));
        let hist: Vec<u8> = r["history"]
            .as_array()
            .unwrap_or_else(|| vh::machinery_failure("replay: no history"))
            .iter()
            .map(|x| x.as_str().and_then(letter_from_name).unwrap_or_else(|| vh::machinery_failure("replay: bad letter")))
            .collect();
        let want = v["signature"].as_str().map(|s| s.to_string());
        let mut still = false;
        for run in 0..2 {
            println!("--- replay run {run}");
            match print_history(mode, start, &hist) {
                Ok(found) => {
                    still |= match &want {
                        Some(w) => found.iter().any(|f| f.signature == *w),
                        None => !found.is_empty(),
                    }
                }
                Err(e) => vh::machinery_failure(&format!("replay failed to run: {e}")),
            }
        }
        println!("{}", if still { "replay: still violates" } else { "replay: no violation" });
        std::process::exit(if still { 1 } else { 0 });
    }

    let mut rep = vh::Report::new("C09", &cli, "model_checking");
    let cs = combos(cli.tier);
    let mut all_found: Vec<(Mode, Start, Vec<u8>, Found)> = vec![];
    let mut tot = ComboStats::default();
    let mut per_combo = vec![];
    let mut states_total = 0u64;
    let mut combos_refused: Vec<String> = vec![];
    for c in &cs {
        let t0 = std::time::Instant::now();
        let st = explore(c, &mut all_found);
        eprintln!(
            "C09 {}/{} d1={} d2={}: histories={} states={} levels={:?} err={} ok={} panic={} merged_checked={} in {:.1}s",
            c.mode.name(), c.start.name(), c.d1, c.d2, st.histories, st.states.len(), st.level_sizes, st.err_calls, st.ok_calls, st.panic_calls, st.merged_pairs_checked, t0.elapsed().as_secs_f64()
        );
        per_combo.push(json!({
            "mode": c.mode.name(), "start": c.start.name(), "no_dedup_depth": c.d1, "dedup_depth": c.d2,
            "histories": st.histories, "canonical_states": st.states.len(),
            "levels_(depth,frontier,new_states)": st.level_sizes,
            "ok_calls": st.ok_calls, "err_calls": st.err_calls, "panic_calls": st.panic_calls,
            "merged_pairs_cross_checked": st.merged_pairs_checked,
            "wall_s": t0.elapsed().as_secs_f64(),
        }));
        states_total += st.states.len() as u64;
        if st.start_refused {
            combos_refused.push(format!("{}/{}", c.mode.name(), c.start.name()));
        }
        tot.histories += st.histories;
        tot.transitions += st.transitions;
        tot.ok_calls += st.ok_calls;
        tot.err_calls += st.err_calls;
        tot.panic_calls += st.panic_calls;
        tot.merged_pairs_checked += st.merged_pairs_checked;
        tot.outcome_classes.extend(st.outcome_classes);
        tot.canon_unsound.extend(st.canon_unsound.into_iter().map(|s| format!("{}/{}: {s}", c.mode.name(), c.start.name())));
        tot.nondeterministic.extend(st.nondeterministic.into_iter().map(|s| format!("{}/{}: {s}", c.mode.name(), c.start.name())));
        tot.build_errors.extend(st.build_errors.into_iter().map(|s| format!("{}/{}: {s}", c.mode.name(), c.start.name())));
        tot.shadow_errors.extend(st.shadow_errors);
        for s in st.samples {
            if tot.samples.len() < 11 {
                tot.samples.push(s);
            }
        }
    }

    if !tot.build_errors.is_empty() {
        vh::machinery_failure(&format!("{} histories could not be executed, first: {}", tot.build_errors.len(), tot.build_errors[0]));
    }
    // The abstraction cross-check guards COMPLETENESS of the deduplicated search (a missing field
    // could hide states); it says nothing against violations that complete executions already
    // produced. A change that makes a forbidden call mutate hidden state trips both at once: then
    // the violations are the verdict (they are reported below and the divergence is kept in the
    // evidence); without any violation a divergence is a defect of the machinery.
    let canon_divergence = tot.canon_unsound.first().cloned();
    if let Some(d) = &canon_divergence {
        if all_found.is_empty() {
            vh::machinery_failure(&format!("canonical state is missing a field (merged histories diverge): {d}"));
        }
    }
    if all_found.is_empty() && (tot.outcome_classes.len() < 8 || tot.ok_calls == 0 || tot.err_calls == 0) {
        vh::machinery_failure("vacuous run: too few distinct call outcomes");
    }

    // smallest history first for each signature; confirm it by a second execution
    all_found.sort_by(|a, b| (a.2.len(), &a.2, a.0, a.1).cmp(&(b.2.len(), &b.2, b.0, b.1)));
    let mut by_sig: BTreeMap<String, (u64, (Mode, Start, Vec<u8>, Found))> = BTreeMap::new();
    for f in all_found {
        by_sig.entry(f.3.signature.clone()).and_modify(|e| e.0 += 1).or_insert((1, f));
    }
    let mut unreproduced = vec![];
    let mut ordered: Vec<_> = by_sig.into_iter().collect();
    ordered.sort_by(|a, b| (a.1.1.2.len(), &a.1.1.2).cmp(&(b.1.1.2.len(), &b.1.1.2)));
    for (sig, (count, (mode, start, hist, f))) in ordered {
        let again = match run_history(mode, start, &hist) {
            Ok(o) => o.found.iter().any(|g| g.signature == sig),
            Err(e) => e.happy_path.map(|g| g.signature == sig).unwrap_or(false),
        };
        if !again {
            unreproduced.push(sig.clone());
        }
        rep.violation(vh::Violation {
            signature: sig,
            detail: format!("{} [occurrences={count}, reproduced_on_second_run={again}]", f.detail),
            replay: json!({"mode": mode.name(), "start": start.name(), "history": hist_names(&hist)}),
        });
    }

    rep.set("states", states_total);
    rep.set("transitions", tot.transitions);
    rep.set("traces_validated_against_impl", tot.histories);
    rep.set("evaluations", tot.histories);
    rep.set("distinct_nontrivial", tot.outcome_classes.len() as u64);
    rep.set("rule", "distinct (call, state before, result class, state after) tuples observed on the real PeerConnection");
    rep.set("ok_calls", tot.ok_calls);
    rep.set("err_calls_checked_for_atomicity", tot.err_calls + tot.panic_calls);
    rep.set("panicking_calls", tot.panic_calls);
    rep.set("panic_classes_(not_judged)", json!(tot.outcome_classes.iter().filter(|c| c.contains(";panic:")).collect::<Vec<_>>()));
    rep.set("merged_history_pairs_cross_checked", tot.merged_pairs_checked);
    if let Some(d) = &canon_divergence {
        rep.set("canonical_state_divergence_alongside_violations", json!(d));
    }
    rep.set("alphabet", json!(LETTER_NAMES));
    rep.set("combos", json!(per_combo));
    rep.set("outcome_classes", json!(tot.outcome_classes));
    rep.set("nondeterministic_histories", json!(tot.nondeterministic));
    rep.set("violations_not_reproduced_on_second_run", json!(unreproduced));
    rep.set("shadow_peer_errors", json!(tot.shadow_errors));
    rep.set("start_states_refused_by_impl_(reported_as_violations)", json!(combos_refused));
    rep.set("exhaustive", combos_refused.is_empty());
    rep.set("caps_hit", json!([]));
    for s in tot.samples {
        rep.sample(s);
    }
    rep.assume("descriptions are genuine create_offer/create_answer outputs of real PeerConnections (one audio transceiver, default codecs); 'changed' = other payload types, extmap ids and direction; malformed variants are derived from the peer offer P1 only (plus the peer answer with a foreign fingerprint in WebRtc mode)");
    rep.assume("calls are sequential (one task); concurrent calls on the &self API are not explored");
    rep.assume("except in the two connected-* starts no ICE candidate is ever signalled, so no transport connects during a history; canonical-state dedup beyond the no-dedup depth relies on the public observers + slot contents (cross-checked on all merged pairs below that depth)");
    rep.assume("calls JSEP permits but an implementation may restrict (create_offer outside Stable, re-applying an offer in have-*-offer, stale or modified operands) are not judged for Ok/Err, only for atomicity and the resulting state");
    rep.assume("the internal mid counter (not a transceiver parameter, not publicly observable) is not part of the compared state");
    std::process::exit(rep.finish());
}
