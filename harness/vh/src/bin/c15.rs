//! C15 — RTP and RTCP encode/decode are mutually inverse and standards-conformant.
//!
//! Engine E4: complete enumeration of stated boundary-value products; every case runs the real
//! rustrtc codec and is judged by inverse laws, a small RFC model, and the independent
//! `rtp`/`rtcp` 0.17 crates.  No sampling anywhere; see `rule` in the evidence for the space.
use rayon::prelude::*;
use serde_json::json;
use vh::c15::nackx::window;
use vh::c15::rtcpx::{Mutn, Spec, Text};
use vh::c15::rtpx::{ExtAlgCase, ExtShape, RtpCase, RtxCase};
use vh::c15::{Acc, Case, run_case};
use vh::{Tier, Violation};

fn run_section(name: &str, cases: Vec<Case>, total: &mut Acc, sections: &mut Vec<serde_json::Value>, samples: &mut Vec<serde_json::Value>) {
    let t = std::time::Instant::now();
    let n = cases.len();
    let acc = cases
        .par_iter()
        .enumerate()
        .fold(Acc::default, |mut a, (i, c)| {
            let out = run_case(c);
            a.push(i as u64, c, out);
            a
        })
        .reduce(Acc::default, Acc::merge);
    if acc.accepted == 0 {
        vh::machinery_failure(&format!("section {name}: the codec accepted none of {n} inputs (vacuous)"));
    }
    // one sample per section: first case and its result class
    if let Some(c) = cases.first() {
        let o = run_case(c);
        samples.push(json!({"section": name, "case": c, "result_class": o.class, "failures": o.fails.iter().map(|f| f.sig.clone()).collect::<Vec<_>>()}));
    }
    if let Some(c) = cases.last() {
        let o = run_case(c);
        samples.push(json!({"section": name, "case": c, "result_class": o.class, "failures": o.fails.iter().map(|f| f.sig.clone()).collect::<Vec<_>>()}));
    }
    sections.push(json!({
        "section": name, "cases": n, "accepted_by_marshaller_or_parser": acc.accepted,
        "reference_comparisons": acc.ref_checks, "distinct_classes": acc.classes.len(),
        "violating_signatures": acc.viols.len(), "wall_s": t.elapsed().as_secs_f64(),
    }));
    let prev = std::mem::take(total);
    *total = prev.merge(acc);
}

/// every sequence of `alphabet` of length 0..=depth
fn sequences<T: Clone>(alphabet: &[T], depth: usize) -> Vec<Vec<T>> {
    let mut all = vec![vec![]];
    let mut frontier = vec![vec![]];
    for _ in 0..depth {
        let mut next = vec![];
        for s in &frontier {
            for a in alphabet {
                let mut t: Vec<T> = s.clone();
                t.push(a.clone());
                next.push(t);
            }
        }
        all.extend(next.iter().cloned());
        frontier = next;
    }
    all
}

fn ext_shapes(tier: Tier) -> Vec<ExtShape> {
    let one_lens: Vec<u8> = tier.pick(vec![1, 2, 16], vec![1, 2, 3, 4, 15, 16]);
    let two_lens: Vec<u8> = tier.pick(vec![0, 1, 17], vec![0, 1, 2, 16, 17, 255]);
    let mut v = vec![ExtShape::None, ExtShape::OneByteEmpty, ExtShape::OneByteTerm, ExtShape::OneBytePadMid];
    for s in sequences(&one_lens, 3).into_iter().filter(|s| !s.is_empty()) {
        v.push(ExtShape::OneByte(s));
    }
    for s in sequences(&two_lens, tier.pick(3, 2)).into_iter().filter(|s| !s.is_empty()) {
        v.push(ExtShape::TwoByte(s));
    }
    v.push(ExtShape::Raw(0xABCD, 0));
    v.push(ExtShape::Raw(0xABCD, 1));
    v.push(ExtShape::Raw(0x0000, 2));
    v.push(ExtShape::Raw(0xFFFF, 3));
    v
}

fn rtp_cases(tier: Tier) -> Vec<Case> {
    let csrcs: Vec<usize> = tier.pick(vec![0, 1, 15, 16], (0..=16).collect());
    let pads: Vec<u8> = tier.pick(vec![0, 1, 255], vec![0, 1, 2, 3, 4, 5, 127, 128, 254, 255]);
    let pls: Vec<usize> = tier.pick(vec![0, 1, 1200], vec![0, 1, 2, 3, 4, 5, 255, 256, 1200, 1460]);
    let pts: Vec<u8> = tier.pick(vec![0, 127], vec![0, 1, 96, 126, 127]);
    let mut v = vec![];
    for ext in ext_shapes(tier) {
        for &csrc in &csrcs {
            for &pad in &pads {
                for &payload in &pls {
                    for marker in [false, true] {
                        for &pt in &pts {
                            for fill in 0..3u8 {
                                v.push(Case::Rtp(RtpCase { csrc, ext: ext.clone(), pad, payload, marker, pt, fill }));
                            }
                        }
                    }
                }
            }
        }
    }
    v
}

fn ext_alg_cases(tier: Tier) -> Vec<Case> {
    let ids: Vec<u8> = tier.pick(vec![1, 2, 14], vec![1, 2, 7, 14]);
    let lens: Vec<u8> = tier.pick(vec![1, 3, 16], vec![1, 2, 3, 4, 16]);
    let mut alpha = vec![];
    for i in &ids {
        for l in &lens {
            alpha.push((*i, *l));
        }
    }
    let seqs: Vec<Vec<(u8, u8)>> = sequences(&alpha, 3).into_iter().filter(|s| !s.is_empty()).collect();
    let mut v = vec![];
    // seeds: every extension shape of the quick RTP product (also in thorough: the alphabet grows instead)
    for seed in ext_shapes(Tier::Quick) {
        for csrc in [0usize, 15] {
            for ops in &seqs {
                v.push(Case::ExtAlg(ExtAlgCase { seed: seed.clone(), csrc, ops: ops.clone() }));
            }
        }
    }
    // invalid arguments must be refused without touching the header
    for seed in [ExtShape::None, ExtShape::OneByte(vec![2])] {
        for op in [(0u8, 1u8), (15, 1), (16, 1), (1, 0), (1, 17), (255, 255)] {
            v.push(Case::ExtAlg(ExtAlgCase { seed: seed.clone(), csrc: 0, ops: vec![op] }));
        }
    }
    v
}

const LOSTS: [i32; 9] = [-(1 << 23), -1, 0, (1 << 23) - 1, (1 << 23) + 1, -(1 << 23) - 1, 1 << 23, i32::MAX, i32::MIN];

fn texts(tier: Tier) -> Vec<Text> {
    match tier {
        Tier::Quick => vec![
            Text { len: 0, kind: 0 },
            Text { len: 1, kind: 0 },
            Text { len: 2, kind: 0 },
            Text { len: 3, kind: 0 },
            Text { len: 255, kind: 0 },
            Text { len: 255, kind: 1 },
            Text { len: 255, kind: 2 },
            Text { len: 256, kind: 0 },
            Text { len: 256, kind: 1 },
            Text { len: 257, kind: 2 },
            Text { len: 300, kind: 0 },
        ],
        Tier::Thorough => {
            let mut v = vec![];
            for len in 0..=300usize {
                for kind in 0..3u8 {
                    if (kind == 1 && len < 2) || (kind == 2 && len < 3) {
                        continue;
                    }
                    v.push(Text { len, kind });
                }
            }
            for len in [511, 512, 513, 1000, 65535, 65536] {
                v.push(Text { len, kind: 0 });
            }
            v
        }
    }
}

fn rtcp_single_specs(tier: Tier) -> Vec<Spec> {
    let mut v = vec![];
    let blocks: Vec<usize> = tier.pick(vec![0, 1, 2, 31, 32], (0..=40).chain([63, 64, 255, 256]).collect());
    for &b in &blocks {
        for lost in LOSTS {
            for fill in 0..3u8 {
                v.push(Spec::Sr { blocks: b, lost, fill });
                v.push(Spec::Rr { blocks: b, lost, fill });
            }
        }
    }
    let chunks: Vec<usize> = tier.pick(vec![0, 1, 2, 31, 32], vec![0, 1, 2, 3, 30, 31, 32, 33, 64, 256]);
    for &c in &chunks {
        for items in 0..=2usize {
            for ty in [1u8, 8] {
                for text in texts(tier) {
                    if (c == 0 || items == 0) && (text.len != 0 || ty != 1) {
                        continue; // text/type are not part of the packet then
                    }
                    v.push(Spec::Sdes { chunks: c, items, ty, text });
                }
            }
        }
    }
    let sources: Vec<usize> = tier.pick(vec![0, 1, 31, 32], vec![0, 1, 2, 30, 31, 32, 33, 64, 256]);
    for &s in &sources {
        v.push(Spec::Bye { sources: s, reason: None });
        for t in texts(tier) {
            v.push(Spec::Bye { sources: s, reason: Some(t) });
        }
    }
    for fill in 0..3u8 {
        v.push(Spec::Pli { fill });
        for entries in tier.pick(vec![0usize, 1, 2, 31, 32], (0..=40).chain([255, 256, 1000]).collect()) {
            v.push(Spec::Fir { entries, fill });
        }
        for kind in tier.pick(vec![0u8, 1, 2, 3, 10, 11, 13, 14], (0..=3).chain(10..=22).collect()) {
            v.push(Spec::Twcc { kind, fill });
        }
        for lost in [vec![], vec![0u16], vec![65535, 0], vec![100, 102, 116, 117], vec![5, 5, 5], vec![1000, 10]] {
            v.push(Spec::Nack { lost, fill });
        }
    }
    let mut rates: Vec<u64> = vec![0, 1, (1 << 18) - 1, 1 << 18, (1 << 18) + 1, 750_000, 1 << 63, u64::MAX, ((1u64 << 18) - 1) << 46, (((1u64 << 18) - 1) << 46) + 1];
    if tier == Tier::Thorough {
        for k in 0..64 {
            rates.extend([1u64 << k, (1u64 << k).wrapping_sub(1), (1u64 << k) + 1, 0x3FFFFu64.checked_shl(k).filter(|v| v >> k == 0x3FFFF).unwrap_or(3)]);
        }
        rates.sort_unstable();
        rates.dedup();
    }
    for &bitrate in &rates {
        for ssrcs in [0usize, 1, 255, 256] {
            for fill in [0u8, 2] {
                v.push(Spec::Remb { bitrate, ssrcs, fill });
            }
        }
    }
    v
}

/// Representatives of every packet type for compounds (each passes on its own — checked).
fn compound_reps() -> Vec<Spec> {
    vec![
        Spec::Sr { blocks: 0, lost: 0, fill: 2 },
        Spec::Sr { blocks: 2, lost: -1, fill: 2 },
        Spec::Rr { blocks: 0, lost: 0, fill: 2 },
        Spec::Rr { blocks: 31, lost: (1 << 23) - 1, fill: 1 },
        Spec::Sdes { chunks: 1, items: 1, ty: 1, text: Text { len: 9, kind: 0 } },
        Spec::Sdes { chunks: 2, items: 2, ty: 8, text: Text { len: 255, kind: 1 } },
        Spec::Bye { sources: 1, reason: None },
        Spec::Bye { sources: 2, reason: Some(Text { len: 1, kind: 0 }) },
        Spec::Bye { sources: 0, reason: Some(Text { len: 6, kind: 2 }) },
        Spec::Pli { fill: 2 },
        Spec::Fir { entries: 0, fill: 2 },
        Spec::Fir { entries: 3, fill: 2 },
        Spec::Nack { lost: vec![65535, 0, 17, 40], fill: 2 },
        Spec::Remb { bitrate: 750_000, ssrcs: 2, fill: 2 },
        Spec::Remb { bitrate: 1 << 40, ssrcs: 0, fill: 1 },
        Spec::Twcc { kind: 0, fill: 2 },
        Spec::Twcc { kind: 3, fill: 2 },
    ]
}

fn subsets(win: &[u16], max: usize) -> Vec<Case> {
    fn rec(win: &[u16], start: usize, max: usize, cur: &mut Vec<u16>, out: &mut Vec<Case>) {
        if !cur.is_empty() {
            out.push(Case::NackSet { seqs: cur.clone() });
        }
        if cur.len() == max {
            return;
        }
        for i in start..win.len() {
            cur.push(win[i]);
            rec(win, i + 1, max, cur, out);
            cur.pop();
        }
    }
    let mut out = vec![];
    rec(win, 0, max, &mut vec![], &mut out);
    out.sort_by_key(|c| match c {
        Case::NackSet { seqs } => seqs.len(),
        _ => 0,
    });
    out
}

// =============================================================================================
// Thorough-tier deep blocks: streamed (index -> case), never materialised.

/// Mixed-radix index decoder.
struct Ix(u64);
impl Ix {
    fn take(&mut self, n: u64) -> u64 {
        let r = self.0 % n;
        self.0 /= n;
        r
    }
    fn pick<T: Copy>(&mut self, v: &[T]) -> T {
        v[self.take(v.len() as u64) as usize]
    }
}

/// Coarse result class of a deep-block case (keeps the class table small: the per-case bucket
/// strings of the original sections would need gigabytes here).
fn coarse_class(name: &str, c: &Case, o: &vh::c15::Out) -> String {
    let res = if !o.fails.is_empty() {
        "violation"
    } else if o.accepted {
        "ok"
    } else {
        "rejected"
    };
    match c {
        Case::Rtp(r) => format!(
            "{name}:ext={},cc={},pad={},pl={},pt={},m={}:{res}",
            r.ext.bucket(),
            match r.csrc { 0 => "0", 1..=14 => "1..14", 15 => "15", _ => ">15" },
            match r.pad { 0 => "0", 1..=254 => "1..254", _ => "255" },
            match r.payload { 0 => "0", 1..=3 => "1..3", _ => ">3" },
            match r.pt { 0..=63 => "0..63", 64..=95 => "64..95", _ => "96..127" },
            r.marker as u8
        ),
        Case::ExtAlg(e) => format!("{name}:seed={},ops={}:{res}", e.seed.bucket(), e.ops.len()),
        Case::RembWire { exp, mantissa, .. } => {
            let fits = ((*mantissa as u128) << exp) <= u64::MAX as u128;
            format!("{name}:exp={exp},m={},fits={}:{res}", match mantissa { 0 => "0", 1..=0x1FFFF => "<2^17", _ => ">=2^17" }, fits as u8)
        }
        Case::Rtcp(v) if v.len() >= 2 => {
            let feat = v.iter().map(|s| s.feature()).find(|f| *f != "in-range").unwrap_or("in-range");
            format!("{name}:{}:{feat}:{res}", v.iter().map(|s| s.kind()).collect::<Vec<_>>().join("+"))
        }
        _ => o.class.clone(),
    }
}

#[allow(clippy::too_many_arguments)]
fn run_stream<F>(name: &str, n: u64, generate: F, total: &mut Acc, sections: &mut Vec<serde_json::Value>, samples: &mut Vec<serde_json::Value>, space: &str)
where
    F: Fn(u64) -> Option<Case> + Sync,
{
    let t = std::time::Instant::now();
    let acc = (0..n)
        .into_par_iter()
        .fold(Acc::default, |mut a, i| {
            if let Some(c) = generate(i) {
                let mut out = run_case(&c);
                out.class = coarse_class(name, &c, &out);
                a.push(i, &c, out);
            }
            a
        })
        .reduce(Acc::default, Acc::merge);
    if acc.accepted == 0 {
        vh::machinery_failure(&format!("deep block {name}: the codec accepted none of its inputs (vacuous)"));
    }
    if let Some(c) = (0..n).find_map(&generate) {
        let o = run_case(&c);
        samples.push(json!({"section": name, "case": c, "result_class": coarse_class(name, &c, &o), "failures": o.fails.iter().map(|f| f.sig.clone()).collect::<Vec<_>>()}));
    }
    sections.push(json!({
        "section": name, "tier_block": "deep", "space": space, "index_space": n, "cases": acc.evals, "accepted_by_marshaller_or_parser": acc.accepted,
        "reference_comparisons": acc.ref_checks, "distinct_classes": acc.classes.len(),
        "violating_signatures": acc.viols.len(), "wall_s": t.elapsed().as_secs_f64(), "exhaustive": true,
    }));
    let prev = std::mem::take(total);
    *total = prev.merge(acc);
}

const LOSTS_X: [i32; 41] = [
    0, 1, -1, 2, -2, 127, 128, -128, -129, 255, 256, -256, -257, 32767, 32768, -32768, -32769, 65535, 65536, -65536, -65537,
    (1 << 22) - 1, 1 << 22, -(1 << 22), -(1 << 22) - 1, (1 << 23) - 2, (1 << 23) - 1, 1 << 23, (1 << 23) + 1, -(1 << 23) + 1, -(1 << 23),
    -(1 << 23) - 1, -(1 << 23) - 2, (1 << 24) - 1, 1 << 24, -(1 << 24), i32::MAX, i32::MIN, 0x55_5555, -0x2A_AAAB, 0x00_FF00,
];

fn text_ok(len: usize, kind: u8) -> bool {
    !((kind == 1 && len < 2) || (kind == 2 && len < 3))
}

/// Single-packet specs used as atoms of the large compound / mutation blocks.
fn atoms_large() -> Vec<Spec> {
    let mut v = vec![];
    for blocks in 0..=31usize {
        for lost in [0i32, -1, (1 << 23) - 1] {
            for fill in [1u8, 2] {
                v.push(Spec::Sr { blocks, lost, fill });
                v.push(Spec::Rr { blocks, lost, fill });
            }
        }
    }
    let lens: Vec<usize> = (0..=17).chain(250..=255).collect();
    let lens = &lens[..];
    for chunks in [1usize, 2, 3, 31] {
        v.push(Spec::Sdes { chunks, items: 0, ty: 1, text: Text { len: 0, kind: 0 } });
        for items in [1usize, 2] {
            for &len in lens {
                v.push(Spec::Sdes { chunks, items, ty: if len % 2 == 0 { 1 } else { 8 }, text: Text { len, kind: 0 } });
            }
        }
    }
    for sources in [0usize, 1, 2, 3, 4, 30, 31] {
        v.push(Spec::Bye { sources, reason: None });
        for &len in lens {
            v.push(Spec::Bye { sources, reason: Some(Text { len, kind: if len >= 3 { 2 } else { 0 } }) });
        }
    }
    for fill in 0..3u8 {
        v.push(Spec::Pli { fill });
    }
    for entries in 0..=40usize {
        for fill in [1u8, 2] {
            v.push(Spec::Fir { entries, fill });
        }
    }
    for lost in [vec![0u16], vec![65535, 0], vec![65535, 0, 17, 40], vec![100, 117, 134, 151, 168], vec![5, 5, 5], (0..40u16).map(|i| i.wrapping_mul(3).wrapping_sub(20)).collect()] {
        for fill in [1u8, 2] {
            v.push(Spec::Nack { lost: lost.clone(), fill });
        }
    }
    for bitrate in [0u64, 1, 750_000, (1 << 18) - 1, 1 << 18, 1 << 40, 0x3FFFF << 46] {
        for ssrcs in [0usize, 1, 2, 3, 4, 5, 127, 128, 254, 255] {
            v.push(Spec::Remb { bitrate, ssrcs, fill: 2 });
        }
    }
    for kind in (0..=3u8).chain(10..=22) {
        v.push(Spec::Twcc { kind, fill: 2 });
    }
    for plen in (1usize..=40).chain([253, 254, 255, 256, 1497, 1498, 1499, 1500]) {
        v.push(Spec::TwccX { base: 65535, count: 3, ref_time: 0x80_0000, fb: 255, plen });
    }
    v
}

/// A smaller atom list (every packet type, alignment-sensitive variants) for triples.
fn atoms_small() -> Vec<Spec> {
    let mut v = compound_reps();
    for len in [0usize, 1, 2, 3] {
        v.push(Spec::Sdes { chunks: 2, items: 1, ty: 1, text: Text { len, kind: 0 } });
        v.push(Spec::Bye { sources: 1, reason: Some(Text { len, kind: 0 }) });
    }
    for plen in [1usize, 2, 3, 5] {
        v.push(Spec::TwccX { base: 1, count: 1, ref_time: 1, fb: 1, plen });
    }
    v.push(Spec::Sdes { chunks: 1, items: 0, ty: 1, text: Text { len: 0, kind: 0 } });
    v.push(Spec::Nack { lost: vec![100, 117, 134, 151], fill: 1 });
    v.push(Spec::Remb { bitrate: 0, ssrcs: 255, fill: 1 });
    v.push(Spec::Fir { entries: 31, fill: 1 });
    v
}

fn passing_alone(v: Vec<Spec>) -> Vec<Spec> {
    v.into_par_iter()
        .filter(|r| {
            let o = run_case(&Case::Rtcp(vec![r.clone()]));
            o.fails.is_empty() && o.accepted
        })
        .collect()
}

fn mutations() -> Vec<Mutn> {
    let mut v = vec![];
    for d in [-4i8, -3, -2, -1, 1, 2, 3, 4] {
        v.push(Mutn::Len(d));
    }
    for n in 1..=8u8 {
        v.push(Mutn::Cut(n));
    }
    for n in 1..=8u8 {
        v.push(Mutn::Add(n, 0));
        v.push(Mutn::Add(n, 0xFF));
        v.push(Mutn::Add(n, 0x81));
    }
    for d in [-2i8, -1, 1, 2] {
        v.push(Mutn::Count(d));
    }
    v.push(Mutn::PadBit);
    for ver in [0u8, 1, 3] {
        v.push(Mutn::Ver(ver));
    }
    for pt in 192..=208u8 {
        v.push(Mutn::Pt(pt));
    }
    v
}

fn deep_blocks(total: &mut Acc, sections: &mut Vec<serde_json::Value>, samples: &mut Vec<serde_json::Value>, rep: &mut vh::Report) {
    macro_rules! block {
        ($name:expr, $n:expr, $space:expr, $gen:expr) => {
            run_stream($name, $n, $gen, total, sections, samples, $space)
        };
    }
    // ---- RTP -------------------------------------------------------------------------------
    block!("rtp_header_full_product", 128 * 2 * 256 * 9 * 16 * 6 * 3, "full product PT 0..=127 x marker x padding 0..=255 x payload 0..=8 x CSRC 0..=15 x extension {none, one-byte 1 elem, one-byte 3 elems, two-byte, empty one-byte block, raw} x 3 field fills (seq/ts/ssrc/CSRC all-zero, all-ones, mixed)", |i| {
        let mut x = Ix(i);
        let pt = x.take(128) as u8;
        let marker = x.take(2) == 1;
        let pad = x.take(256) as u8;
        let payload = x.take(9) as usize;
        let csrc = x.take(16) as usize;
        let ext = match x.take(6) {
            0 => ExtShape::None,
            1 => ExtShape::OneByte(vec![3]),
            2 => ExtShape::OneByte(vec![1, 16, 2]),
            3 => ExtShape::TwoByte(vec![0, 17]),
            4 => ExtShape::OneByteEmpty,
            _ => ExtShape::Raw(0xABCD, 2),
        };
        let fill = x.take(3) as u8;
        Some(Case::Rtp(RtpCase { csrc, ext, pad, payload, marker, pt, fill }))
    });
    block!("rtp_pad_payload_grid", 256 * 301 * 2 * 4, "padding 0..=255 x payload 0..=300 x CSRC {0,15} x ext {none, one-byte, two-byte, raw}", |i| {
        let mut x = Ix(i);
        let pad = x.take(256) as u8;
        let payload = x.take(301) as usize;
        let csrc = x.pick(&[0usize, 15]);
        let ext = match x.take(4) {
            0 => ExtShape::None,
            1 => ExtShape::OneByte(vec![1, 16]),
            2 => ExtShape::TwoByte(vec![0, 255]),
            _ => ExtShape::Raw(0xABCD, 1),
        };
        Some(Case::Rtp(RtpCase { csrc, ext, pad, payload, marker: true, pt: 96, fill: 2 }))
    });
    block!("rtp_ext_1b_single", 14 * 16 * 8 * 2 * 2, "one-byte form: id 1..=14 x len 1..=16 x 8 padding placements x CSRC {0,15} x padding {0,5}", |i| {
        let mut x = Ix(i);
        let id = 1 + x.take(14) as u8;
        let len = 1 + x.take(16) as u8;
        let pm = x.take(8) as u8;
        let csrc = x.pick(&[0usize, 15]);
        let pad = x.pick(&[0u8, 5]);
        Some(Case::Rtp(RtpCase { csrc, ext: ExtShape::OneByteX(vec![(id, len)], pm), pad, payload: 7, marker: false, pt: 111, fill: 2 }))
    });
    block!("rtp_ext_1b_pair", 224 * 224 * 8 * 2, "one-byte form: every ordered pair of (id 1..=14, len 1..=16) elements with distinct ids x 8 padding placements x CSRC {0,15}", |i| {
        let mut x = Ix(i);
        let a = x.take(224);
        let b = x.take(224);
        let pm = x.take(8) as u8;
        let csrc = x.pick(&[0usize, 15]);
        let e = |k: u64| (1 + (k / 16) as u8, 1 + (k % 16) as u8);
        if e(a).0 == e(b).0 {
            return None;
        }
        Some(Case::Rtp(RtpCase { csrc, ext: ExtShape::OneByteX(vec![e(a), e(b)], pm), pad: 0, payload: 3, marker: true, pt: 100, fill: 2 }))
    });
    block!("rtp_ext_1b_triple", 224 * 224 * 224 * 2, "one-byte form: every ordered triple of (id 1..=14, len 1..=16) elements with distinct ids x padding placements {none, all}", |i| {
        let mut x = Ix(i);
        let e = |k: u64| (1 + (k / 16) as u8, 1 + (k % 16) as u8);
        let (a, b, c) = (e(x.take(224)), e(x.take(224)), e(x.take(224)));
        let pm = x.pick(&[0u8, 7]);
        if a.0 == b.0 || a.0 == c.0 || b.0 == c.0 {
            return None;
        }
        Some(Case::Rtp(RtpCase { csrc: 1, ext: ExtShape::OneByteX(vec![a, b, c], pm), pad: 0, payload: 2, marker: false, pt: 96, fill: 2 }))
    });
    block!("rtp_ext_2b_single", 255 * 256 * 4 * 2, "two-byte form: id 1..=255 x len 0..=255 x 4 padding placements x CSRC {0,15}", |i| {
        let mut x = Ix(i);
        let id = 1 + x.take(255) as u8;
        let len = x.take(256) as u8;
        let pm = x.pick(&[0u8, 1, 4, 5]);
        let csrc = x.pick(&[0usize, 15]);
        Some(Case::Rtp(RtpCase { csrc, ext: ExtShape::TwoByteX(vec![(id, len)], pm), pad: 0, payload: 4, marker: false, pt: 97, fill: 2 }))
    });
    block!("rtp_ext_2b_pair", 255 * 255 * 12 * 12 * 3, "two-byte form: every ordered pair of distinct ids 1..=255 x both lengths over {0,1,2,3,4,5,15,16,17,253,254,255} x 3 padding placements", |i| {
        let mut x = Ix(i);
        let ls = [0u8, 1, 2, 3, 4, 5, 15, 16, 17, 253, 254, 255];
        let a = 1 + x.take(255) as u8;
        let b = 1 + x.take(255) as u8;
        let (l1, l2) = (x.pick(&ls), x.pick(&ls));
        let pm = x.pick(&[0u8, 2, 7]);
        if a == b {
            return None;
        }
        Some(Case::Rtp(RtpCase { csrc: 0, ext: ExtShape::TwoByteX(vec![(a, l1), (b, l2)], pm), pad: 1, payload: 1, marker: true, pt: 98, fill: 2 }))
    });
    block!("rtp_ext_2b_len_pair", 20 * 256 * 256, "two-byte form: every ordered pair of distinct ids from {1,15,16,128,255} x len 0..=255 x len 0..=255", |i| {
        let mut x = Ix(i);
        let ids = [1u8, 15, 16, 128, 255];
        let k = x.take(20);
        let a = ids[(k / 4) as usize];
        let b = ids.iter().copied().filter(|v| *v != a).nth((k % 4) as usize).unwrap();
        let (l1, l2) = (x.take(256) as u8, x.take(256) as u8);
        Some(Case::Rtp(RtpCase { csrc: 0, ext: ExtShape::TwoByteX(vec![(a, l1), (b, l2)], 0), pad: 0, payload: 1, marker: true, pt: 98, fill: 2 }))
    });
    let words: Vec<u32> = (0..=1100u32).chain([16383, 16384, 65535, 65536]).collect();
    let nw = words.len() as u64;
    block!("rtp_ext_raw_words", nw * 5 * 2 * 2, "raw profile extension: words 0..=1100, 16383, 16384, 65535 and 65536 (over the 16-bit length field) x 5 profiles x CSRC {0,15} x padding {0,1}", |i| {
        let mut x = Ix(i);
        let w = words[x.take(nw) as usize];
        let profile = x.pick(&[0xABCDu16, 0x0000, 0xFFFF, 0xBEDF, 0x0FFF]);
        let csrc = x.pick(&[0usize, 15]);
        let pad = x.pick(&[0u8, 1]);
        Some(Case::Rtp(RtpCase { csrc, ext: ExtShape::RawW(profile, w), pad, payload: 2, marker: false, pt: 96, fill: 2 }))
    });
    // ---- extension algebra: the full (id, len) alphabet, sequences of length <= 2
    let mut seeds = ext_shapes(Tier::Quick);
    for pm in [1u8, 2, 4, 7] {
        seeds.push(ExtShape::OneByteX(vec![(3, 2), (9, 5)], pm));
    }
    let ns = seeds.len() as u64;
    block!("ext_algebra_full", ns * (224 + 224 * 224), "every set_extension sequence of length 1..=2 over the full alphabet id 1..=14 x len 1..=16 on every seed extension shape (quick shapes + 4 padded ones), then get of every id", |i| {
        let mut x = Ix(i);
        let seed = seeds[x.take(ns) as usize].clone();
        let k = x.take(224 + 224 * 224);
        let e = |k: u64| (1 + (k / 16) as u8, 1 + (k % 16) as u8);
        let ops = if k < 224 { vec![e(k)] } else { vec![e((k - 224) / 224), e((k - 224) % 224)] };
        Some(Case::ExtAlg(ExtAlgCase { seed, csrc: 0, ops }))
    });
    let alpha3: Vec<(u8, u8)> = [1u8, 2, 7, 13, 14].iter().flat_map(|id| [1u8, 2, 3, 4, 5, 8, 15, 16].map(|l| (*id, l))).collect();
    let na = alpha3.len() as u64;
    block!("ext_algebra_depth3", ns * na * na * na * 2, "every set_extension sequence of length 3 over ids {1,2,7,13,14} x lens {1,2,3,4,5,8,15,16} on every seed shape x CSRC {0,15}", |i| {
        let mut x = Ix(i);
        let seed = seeds[x.take(ns) as usize].clone();
        let ops = vec![alpha3[x.take(na) as usize], alpha3[x.take(na) as usize], alpha3[x.take(na) as usize]];
        let csrc = x.pick(&[0usize, 15]);
        Some(Case::ExtAlg(ExtAlgCase { seed, csrc, ops }))
    });
    // ---- RTX
    block!("rtx_full", 65536 * 256 * 2 * 2, "all 65536 sequence numbers x payload 0..=255 x marker x 2 original shapes", |i| {
        let mut x = Ix(i);
        let seq = x.take(65536) as u16;
        let payload = x.take(256) as usize;
        let marker = x.take(2) == 1;
        let shape = x.take(2) as u8;
        Some(Case::Rtx(RtxCase { seq, payload, marker, shape }))
    });
    block!("rtx_payload_types", 128 * 128 * 7 * 2, "primary PT 0..=127 x RTX PT 0..=127 x 7 boundary sequence numbers x marker", |i| {
        let mut x = Ix(i);
        let pt = x.take(128) as u8;
        let rtx_pt = x.take(128) as u8;
        let seq = x.pick(&[0u16, 1, 0x7FFF, 0x8000, 0xFFFE, 0xFFFF, 0x1234]);
        let marker = x.take(2) == 1;
        Some(Case::RtxPt { seq, pt, rtx_pt, marker })
    });
    // ---- RTCP single packets
    block!("rtcp_report_full", 2 * 32 * 41 * 256 * 2, "SR and RR x report blocks 0..=31 x 41 cumulative-loss values (24-bit signed edges, both signs, out-of-range) x fraction lost 0..=255 x 2 fills", |i| {
        let mut x = Ix(i);
        let sr = x.take(2) == 0;
        let blocks = x.take(32) as usize;
        let lost = x.pick(&LOSTS_X);
        let fraction = x.take(256) as u8;
        let fill = x.pick(&[0u8, 2]);
        Some(Case::Rtcp(vec![if sr { Spec::SrX { blocks, lost, fraction, fill } } else { Spec::RrX { blocks, lost, fraction, fill } }]))
    });
    block!("rtcp_sdes_item_full", 256 * 256 * 3 * 2, "SDES: item type 0..=255 x text length 0..=255 x 3 text kinds x chunks {1,2}", |i| {
        let mut x = Ix(i);
        let ty = x.take(256) as u8;
        let len = x.take(256) as usize;
        let kind = x.take(3) as u8;
        let chunks = 1 + x.take(2) as usize;
        if !text_ok(len, kind) {
            return None;
        }
        Some(Case::Rtcp(vec![Spec::SdesX { chunks, items: vec![(ty, Text { len, kind })] }]))
    });
    block!("rtcp_sdes_item_pairs", 36 * 256 * 256, "SDES: two items per chunk, types from {1,2,7,8,9,255}^2 x text lengths 0..=255 x 0..=255, two chunks", |i| {
        let mut x = Ix(i);
        let t = [1u8, 2, 7, 8, 9, 255];
        let (t1, t2) = (x.pick(&t), x.pick(&t));
        let (l1, l2) = (x.take(256) as usize, x.take(256) as usize);
        Some(Case::Rtcp(vec![Spec::SdesX { chunks: 2, items: vec![(t1, Text { len: l1, kind: 0 }), (t2, Text { len: l2, kind: if l2 >= 3 { 2 } else { 0 } })] }]))
    });
    block!("rtcp_bye_full", 32 * (1 + 256 * 3), "BYE: sources 0..=31 x reason {absent, length 0..=255 x 3 text kinds}", |i| {
        let mut x = Ix(i);
        let sources = x.take(32) as usize;
        let k = x.take(1 + 256 * 3);
        if k == 0 {
            return Some(Case::Rtcp(vec![Spec::Bye { sources, reason: None }]));
        }
        let (len, kind) = (((k - 1) / 3) as usize, ((k - 1) % 3) as u8);
        if !text_ok(len, kind) {
            return None;
        }
        Some(Case::Rtcp(vec![Spec::Bye { sources, reason: Some(Text { len, kind }) }]))
    });
    block!("rtcp_fir_full", 41 * 256 * 3, "FIR: entries 0..=40 x command sequence number 0..=255 x 3 fills", |i| {
        let mut x = Ix(i);
        let entries = x.take(41) as usize;
        let seq = x.take(256) as u8;
        let fill = x.take(3) as u8;
        Some(Case::Rtcp(vec![Spec::FirX { entries, seq, fill }]))
    });
    block!("remb_wire_full", 64 * (1 << 18) * 3, "hand-built REMB images: all 64 exponents x all 2^18 mantissas x SSRC count {0,1,2}", |i| {
        let mut x = Ix(i);
        let mantissa = x.take(1 << 18) as u32;
        let exp = x.take(64) as u8;
        let ssrcs = x.take(3) as usize;
        Some(Case::RembWire { exp, mantissa, ssrcs })
    });
    block!("remb_wire_ssrcs", 256 * 7 * 64, "hand-built REMB images: SSRC count 0..=255 x 7 mantissa edge values x all 64 exponents", |i| {
        let mut x = Ix(i);
        let ssrcs = x.take(256) as usize;
        let mantissa = x.pick(&[0u32, 1, 2, 0x1FFFF, 0x20000, 0x3FFFE, 0x3FFFF]);
        let exp = x.take(64) as u8;
        Some(Case::RembWire { exp, mantissa, ssrcs })
    });
    let mut rates: Vec<u64> = vec![0, 750_000, u64::MAX];
    for k in 0..64 {
        rates.extend([1u64 << k, (1u64 << k).wrapping_sub(1), (1u64 << k) + 1, 0x3FFFFu64.checked_shl(k).filter(|v| v >> k == 0x3FFFF).unwrap_or(3), 0x20001u64.checked_shl(k).filter(|v| v >> k == 0x20001).unwrap_or(5)]);
    }
    rates.sort_unstable();
    rates.dedup();
    let nr = rates.len() as u64;
    block!("rtcp_remb_full", nr * 257 * 2, "REMB: bitrate lattice (2^k, 2^k+-1, 0x3FFFF<<k, 0x20001<<k for every k) x SSRC count 0..=256 x 2 fills", |i| {
        let mut x = Ix(i);
        let bitrate = rates[x.take(nr) as usize];
        let ssrcs = x.take(257) as usize;
        let fill = x.pick(&[0u8, 2]);
        Some(Case::Rtcp(vec![Spec::Remb { bitrate, ssrcs, fill }]))
    });
    block!("rtcp_twcc_payload_len", 1501 * 3, "TWCC: opaque payload length 0..=1500 x 3 header fills (P-bit padding 1..3 whenever the length is not a multiple of four)", |i| {
        let mut x = Ix(i);
        let plen = x.take(1501) as usize;
        let (base, count, ref_time, fb) = x.pick(&[(0u16, 0u16, 0u32, 0u8), (65535, 65535, 0xFF_FFFF, 255), (0x1234, 7, 0x80_0000, 0x5A)]);
        Some(Case::Rtcp(vec![Spec::TwccX { base, count, ref_time, fb, plen }]))
    });
    let l16: [u16; 16] = [0, 1, 2, 127, 128, 255, 256, 257, 32767, 32768, 32769, 65279, 65280, 65534, 65535, 0x1234];
    let lrt: [u32; 12] = [0, 1, 0xFF, 0x100, 0xFFFF, 0x1_0000, 0x7F_FFFF, 0x80_0000, 0x80_0001, 0xFF_FFFE, 0xFF_FFFF, 0x12_3456];
    block!("rtcp_twcc_header", 16 * 8 * 12 * 256 * 2, "TWCC header: base sequence (16 edge values) x status count (8) x 24-bit reference time (12, incl. the sign bit) x feedback count 0..=255 x payload {0,4} bytes", |i| {
        let mut x = Ix(i);
        let base = x.pick(&l16);
        let count = x.pick(&[0u16, 1, 2, 255, 256, 32768, 65534, 65535]);
        let ref_time = x.pick(&lrt);
        let fb = x.take(256) as u8;
        let plen = x.pick(&[0usize, 4]);
        Some(Case::Rtcp(vec![Spec::TwccX { base, count, ref_time, fb, plen }]))
    });
    // ---- NACK
    let pids: Vec<u16> = (0..1024u16).chain(31744..33792).chain(64512..=65535).collect();
    let np = pids.len() as u64;
    block!("nack_wire_full", np * 65536, "generic NACK FCI: 4096 packet ids (0..=1023, 31744..=33791, 64512..=65535) x all 65536 bitmasks", |i| {
        let mut x = Ix(i);
        let blp = x.take(65536) as u16;
        let pid = pids[x.take(np) as usize];
        Some(Case::NackWire { pid, blp })
    });
    let mut masks: Vec<u16> = vec![0];
    for a in 0..16 {
        masks.push(1 << a);
        for b in (a + 1)..16 {
            masks.push((1 << a) | (1 << b));
        }
    }
    let inv: Vec<u16> = masks.iter().map(|m| !m).collect();
    masks.extend(inv);
    let nm = masks.len() as u64;
    block!("nack_wire_two_fci", 4 * nm * 41 * nm, "generic NACK with two FCI entries: pid1 in {65520,65535,0,100} x pid2 = pid1-20..=pid1+20 x both bitmasks over every mask with <=2 or >=14 bits set (274 each); overlapping and repeated ranges", |i| {
        let mut x = Ix(i);
        let b2 = masks[x.take(nm) as usize];
        let b1 = masks[x.take(nm) as usize];
        let d = x.take(41) as u16;
        let p1 = x.pick(&[65520u16, 65535, 0, 100]);
        Some(Case::NackWireN { pairs: vec![(p1, b1), (p1.wrapping_sub(20).wrapping_add(d), b2)] })
    });
    let win26 = window(26);
    block!("nack_set_powerset", (1 << 26) - 1, "every non-empty subset of the 26-value window centred on the 65535/0 wrap", |i| {
        let m = i + 1;
        Some(Case::NackSet { seqs: (0..26).filter(|b| m >> b & 1 == 1).map(|b| win26[b]).collect() })
    });
    block!("nack_set_comb", 3 * 65535, "every non-empty subset of a 16-point comb with stride 16, 17 and 18 straddling the wrap (up to 16 FCI entries per packet)", |i| {
        let mut x = Ix(i);
        let m = 1 + x.take(65535);
        let stride = x.pick(&[16u16, 17, 18]);
        Some(Case::NackSet { seqs: (0..16u16).filter(|b| m >> b & 1 == 1).map(|b| 0u16.wrapping_sub(8 * stride).wrapping_add(b * stride)).collect() })
    });
    // ---- compounds and mutations
    let listed = atoms_large().len();
    let big = passing_alone(atoms_large());
    let small = passing_alone(atoms_small());
    rep.set("deep_compound_atoms", json!({"large_listed": listed, "large_passing_alone": big.len(), "small_passing_alone": small.len()}));
    let (nb, nsm) = (big.len() as u64, small.len() as u64);
    block!("rtcp_compound_pairs_large", nb * nb, "every ordered pair of the large atom list (every packet type over count / text-length / alignment edge values, P-bit padded TWCC) as a compound", |i| {
        Some(Case::Rtcp(vec![big[(i / nb) as usize].clone(), big[(i % nb) as usize].clone()]))
    });
    let medium: Vec<Spec> = { let step = (big.len() / 96).max(1); small.iter().cloned().chain(big.iter().step_by(step).cloned()).collect() };
    let nmd = medium.len() as u64;
    block!("rtcp_compound_triples_medium", nmd * nmd * nmd, "every ordered triple of the medium atom list (small list + every k-th large atom) as a compound", |i| {
        Some(Case::Rtcp(vec![medium[(i / nmd / nmd) as usize].clone(), medium[(i / nmd % nmd) as usize].clone(), medium[(i % nmd) as usize].clone()]))
    });
    block!("rtcp_compound_triples", nsm * nsm * nsm, "every ordered triple of the small atom list as a compound", |i| {
        Some(Case::Rtcp(vec![small[(i / nsm / nsm) as usize].clone(), small[(i / nsm % nsm) as usize].clone(), small[(i % nsm) as usize].clone()]))
    });
    let reps17 = passing_alone(compound_reps());
    let n17 = reps17.len() as u64;
    block!("rtcp_compound_quadruples", n17 * n17 * n17 * n17, "every ordered quadruple of the 17 packet-type representatives as a compound", |i| {
        let mut x = Ix(i);
        Some(Case::Rtcp((0..4).map(|_| reps17[x.take(n17) as usize].clone()).collect()))
    });
    let muts = mutations();
    let nmu = muts.len() as u64;
    block!("rtcp_wire_mutation_single", nb * nmu, "canonical image of every large atom x every structural mutation (length field +-1..4 words, truncation 1..8 bytes, 1..8 trailing bytes of 3 values, count +-1..2, P bit, version, packet type 192..=208)", |i| {
        Some(Case::WireMut { specs: vec![big[(i / nmu) as usize].clone()], which: 0, m: muts[(i % nmu) as usize].clone() })
    });
    block!("rtcp_wire_mutation_pair", nsm * nsm * 2 * nmu, "canonical image of every ordered pair of small atoms x mutated packet (first, second) x every structural mutation", |i| {
        let mut x = Ix(i);
        let m = muts[x.take(nmu) as usize].clone();
        let which = x.take(2) as usize;
        let b = small[x.take(nsm) as usize].clone();
        let a = small[x.take(nsm) as usize].clone();
        Some(Case::WireMut { specs: vec![a, b], which, m })
    });
}

fn replay(path: &std::path::Path) -> i32 {
    let txt = std::fs::read_to_string(path).unwrap_or_else(|e| vh::machinery_failure(&format!("cannot read {}: {e}", path.display())));
    let v: serde_json::Value = serde_json::from_str(&txt).unwrap_or_else(|e| vh::machinery_failure(&format!("bad replay json: {e}")));
    let cj = if v.get("replay").is_some() { v["replay"]["case"].clone() } else { v["case"].clone() };
    let case: Case = serde_json::from_value(cj).unwrap_or_else(|e| vh::machinery_failure(&format!("replay file has no case: {e}")));
    println!("replaying {case:?}");
    let mut bad = false;
    for round in 0..2 {
        let o = run_case(&case);
        println!("run {round}: class={} failures={}", o.class, o.fails.len());
        for f in &o.fails {
            println!("  signature: {}\n  detail: {}", f.sig, vh::truncate(&f.detail, 800));
        }
        bad |= !o.fails.is_empty();
    }
    if bad {
        println!("VIOLATION property=C15 replay={}", path.display());
        1
    } else {
        println!("C15 replay: no violation");
        0
    }
}

fn main() {
    let cli = vh::cli();
    vh::install_quiet_panic_hook();
    if let Some(p) = &cli.replay {
        std::process::exit(replay(p));
    }
    let tier = cli.tier;
    let mut rep = vh::Report::new("C15", &cli, "exploration");
    let mut total = Acc::default();
    let mut sections = vec![];
    let mut samples = vec![];

    run_section("rtp", rtp_cases(tier), &mut total, &mut sections, &mut samples);
    run_section("ext_algebra", ext_alg_cases(tier), &mut total, &mut sections, &mut samples);

    let singles = rtcp_single_specs(tier);
    run_section("rtcp", singles.iter().map(|s| Case::Rtcp(vec![s.clone()])).collect(), &mut total, &mut sections, &mut samples);

    // compounds: every ordered pair (thorough: also every ordered triple) of representatives
    let reps = compound_reps();
    for r in &reps {
        let o = run_case(&Case::Rtcp(vec![r.clone()]));
        if !o.fails.is_empty() || !o.accepted {
            // a representative that fails alone is already reported by the single-packet section;
            // compounds built from it would only repeat that finding
            println!("note: compound representative {:?} fails on its own: {:?}", r, o.fails.iter().map(|f| &f.sig).collect::<Vec<_>>());
        }
    }
    let good: Vec<Spec> = reps.iter().filter(|r| { let o = run_case(&Case::Rtcp(vec![(*r).clone()])); o.fails.is_empty() && o.accepted }).cloned().collect();
    rep.set("compound_representatives", json!({"listed": reps.len(), "passing_alone": good.len()}));
    let mut comp = vec![];
    for a in &good {
        for b in &good {
            comp.push(Case::Rtcp(vec![a.clone(), b.clone()]));
        }
    }
    if tier == Tier::Thorough {
        for a in &good {
            for b in &good {
                for c in &good {
                    comp.push(Case::Rtcp(vec![a.clone(), b.clone(), c.clone()]));
                }
            }
        }
    }
    run_section("rtcp_compound", comp, &mut total, &mut sections, &mut samples);

    // hand-built REMB images: all 64 exponents × mantissa boundary values × ssrc counts
    let mut rw = vec![];
    for exp in 0..64u8 {
        for mantissa in [0u32, 1, 2, 0x1FFFF, 0x20000, 0x3FFFE, 0x3FFFF] {
            for ssrcs in tier.pick(vec![0usize, 1], vec![0usize, 1, 2, 255]) {
                rw.push(Case::RembWire { exp, mantissa, ssrcs });
            }
        }
    }
    run_section("remb_wire", rw, &mut total, &mut sections, &mut samples);

    // 24-bit loss field: all 2^24 wire values
    let lw: Vec<Case> = (0..(1u32 << 24)).map(|v24| Case::LostWire { v24 }).collect();
    run_section("lost_wire", lw, &mut total, &mut sections, &mut samples);

    // NACK (pid, blp): 16 boundary pids × all 65 536 bitmasks
    let pids: [u16; 16] = [0, 1, 15, 16, 17, 255, 256, 32767, 32768, 65518, 65519, 65520, 65533, 65534, 65535, 0x1234];
    let mut nw = Vec::with_capacity(16 << 16);
    for pid in pids {
        for blp in 0..=u16::MAX {
            nw.push(Case::NackWire { pid, blp });
        }
    }
    run_section("nack_wire", nw, &mut total, &mut sections, &mut samples);

    // NACK sets: every subset of size <=4 (thorough: <=5) of the 40-value wrap window
    let win = window(40);
    run_section("nack_set", subsets(&win, tier.pick(4, 5)), &mut total, &mut sections, &mut samples);

    // receiver gap detection / sender buffer over every ordered pair of the window
    let mut ng = vec![];
    for &l in &win {
        for &s in &win {
            ng.push(Case::NackGap { last: l, seq: s });
        }
    }
    run_section("nack_gap", ng, &mut total, &mut sections, &mut samples);

    // RTX: all 65 536 original sequence numbers × payload sizes × marker × original shape
    let mut rx = vec![];
    for shape in 0..2u8 {
        for payload in tier.pick(vec![0usize, 1, 1200], vec![0usize, 1, 2, 3, 1200, 1460]) {
            for marker in [false, true] {
                for seq in 0..=u16::MAX {
                    rx.push(Case::Rtx(RtxCase { seq, payload, marker, shape }));
                }
            }
        }
    }
    run_section("rtx", rx, &mut total, &mut sections, &mut samples);

    if tier == Tier::Thorough {
        deep_blocks(&mut total, &mut sections, &mut samples, &mut rep);
    }

    // ---- verdict & evidence
    let ok_classes = total.classes.keys().filter(|k| k.ends_with(":ok")).count();
    let rejected_classes = total.classes.keys().filter(|k| k.contains(":rejected")).count();
    if total.classes.len() < 2 || ok_classes == 0 || total.ref_checks == 0 {
        vh::machinery_failure("vacuous run: fewer than 2 result classes, no passing class, or no reference comparison");
    }
    rep.add("evaluations", total.evals);
    rep.set("distinct_nontrivial", total.classes.len() as u64);
    rep.set("distinct_ok_classes", ok_classes as u64);
    rep.set("distinct_rejected_classes", rejected_classes as u64);
    rep.set("accepted_inputs", total.accepted);
    rep.set("reference_comparisons", total.ref_checks);
    rep.set("exhaustive", true);
    rep.set("caps_hit", json!([]));
    rep.set("sections", json!(sections));
    rep.set(
        "rule",
        "Complete enumeration (no sampling, no cap) of the boundary-value products listed under `sections`: RTP header shapes (CSRC count x extension shape x padding x payload size x marker x PT x field fill) in both directions with the rtp crate; every set_extension sequence of length <=3 over ids x lengths on every extension-shape seed; every supported RTCP packet type over its boundary values (counts 0/1/31/32, loss-count extremes, text lengths around 255, REMB limits, FIR, TWCC) and every ordered pair (thorough: triple) of packet-type representatives as a compound, both directions with the rtcp crate; hand-built REMB (all 64 exponents x 7 mantissas) and 24-bit loss-field wire images; NACK (16 boundary pids x all 65536 bitmasks), every subset of size <=4 (thorough <=5) of the 40-value 65535/0 wrap window, every ordered (last, seq) pair of that window through the receiver gap detector and the sender buffer; RTX wrap/unwrap for all 65536 sequence numbers x payload sizes x marker x 2 original shapes. A case is counted as distinct/non-trivial once per distinct (packet kind, boundary-bucket vector of the input, result class) triple, result class being ok / rejected-by-marshaller / violation kind; repeats of a triple (e.g. the 65536 RTX sequence numbers inside one bucket) are not counted.",
    );
    for s in samples.into_iter().take(tier.pick(12, 64)) {
        rep.sample(s);
    }
    rep.assume("Reference = webrtc-rs rtp/rtcp 0.17.2 (webrtc-util Marshal/Unmarshal); where rustrtc and the reference may legitimately differ, decoded fields are compared, never bytes: RTP padding fill bytes, BYE 'no reason' vs empty reason (the reference cannot tell them apart), FIR media-SSRC (must be 0, RFC 5104), 24-bit loss count held unsigned by the reference (compared modulo 2^24), TWCC trailing zero bytes after the last delta.");
    rep.assume("Known reference defects avoided: its one-byte-extension parser desynchronises after an id-15 terminator (that shape is judged by the RFC 8285 model only); it decodes a REMB zero mantissa as 2^(exp+23) (value compared only when non-zero); REMB bitrates are compared only where its f32 is exact.");
    rep.assume("Where the wire format itself saturates or rounds, the expected decode is the saturated/rounded value: loss counts outside the signed 24-bit range are clamped (RFC 3550 A.3), REMB bitrates are floored to an 18-bit mantissa with the minimal exponent. Everything else must come back exactly, or the marshaller must refuse (Err).");
    rep.assume("NACK packets are compared as sets of lost sequence numbers (the statement speaks of the set); SDES/BYE text is valid UTF-8 (rustrtc models text as String); SDES item types 1..=8 (the reference knows no others); PT<=127, reference_time<2^24 (wider values are outside the field ranges).");
    rep.assume("Field values other than the stated boundary dimensions are seeded (three fills: all-zero, all-ones, one mixed pattern), not enumerated.");
    if tier == Tier::Thorough {
        rep.set("deep_blocks_note", "thorough tier: in addition to the sections of the rule, every block listed under `sections` with tier_block=deep is a complete enumeration of the product stated in its `space` (streamed index -> case; `cases` is the number of generated cases, `index_space` minus `cases` are index combinations that do not denote a case, e.g. two elements with the same id)");
        rep.assume("Deep blocks: result classes are coarse (boundary buckets of the enumerated dimensions x result), not one per case. The reverse direction (reference serialises, rustrtc parses) is taken only where the reference reads its own serialisation back unchanged (it mis-sizes raw extension blocks of 65536 bytes and more). SDES item types 9..=255 and TWCC packets with an opaque payload or a status count without chunks are judged by the inverse laws only (the reference knows neither). Duplicate extension ids within one block are not enumerated (RFC 8285 does not define their meaning).");
        rep.assume("rtcp_wire_mutation blocks: the property speaks of canonical encodings, so whether a mutated image (declared length / count / padding / version / type differing from the actual bytes) is accepted is not judged; judged is only that nothing panics and that, whenever rustrtc parses it and its marshaller accepts the parsed packets again, parse(marshal(P)) == P and the reference reads marshal(P) to the same fields.");
    }

    let mut v: Vec<_> = total.viols.into_iter().collect();
    v.sort_by(|a, b| a.0.cmp(&b.0));
    for (sig, (_rank, hits, detail, case)) in v {
        rep.violation(Violation { signature: sig, detail: format!("{detail} [{hits} cases with this signature]"), replay: json!({"case": case}) });
    }
    std::process::exit(rep.finish());
}
