//! C15 — RTP and RTCP encode/decode are mutually inverse and standards-conformant.
//!
//! Engine E4: complete enumeration of stated boundary-value products; every case runs the real
//! rustrtc codec and is judged by inverse laws, a small RFC model, and the independent
//! `rtp`/`rtcp` 0.17 crates.  No sampling anywhere; see `rule` in the evidence for the space.
use rayon::prelude::*;
use serde_json::json;
use vh::c15::nackx::window;
use vh::c15::rtcpx::{Spec, Text};
use vh::c15::rtpx::{ExtAlgCase, ExtShape, RtpCase, RtxCase};
use vh::c15::{Acc, Case, run_case};
use vh::{Tier, Violation};

fn run_section(name: &str, cases: Vec<Case>, total: &mut Acc, sections: &mut Vec<serde_json::Value>, samples: &mut Vec<serde_json::Value>) {
    let t = std::time::Instant::now();
    let n = cases.len();
    let acc = cases
        .par_iter()
        .enumerate()
        .fold(Acc::default, |mut a, (i, c)| {
            let out = run_case(c);
            a.push(i as u64, c, out);
            a
        })
        .reduce(Acc::default, Acc::merge);
    if acc.accepted == 0 {
        vh::machinery_failure(&format!("section {name}: the codec accepted none of {n} inputs (vacuous)"));
    }
    // one sample per section: first case and its result class
    if let Some(c) = cases.first() {
        let o = run_case(c);
        samples.push(json!({"section": name, "case": c, "result_class": o.class, "failures": o.fails.iter().map(|f| f.sig.clone()).collect::<Vec<_>>()}));
    }
    if let Some(c) = cases.last() {
        let o = run_case(c);
        samples.push(json!({"section": name, "case": c, "result_class": o.class, "failures": o.fails.iter().map(|f| f.sig.clone()).collect::<Vec<_>>()}));
    }
    sections.push(json!({
        "section": name, "cases": n, "accepted_by_marshaller_or_parser": acc.accepted,
        "reference_comparisons": acc.ref_checks, "distinct_classes": acc.classes.len(),
        "violating_signatures": acc.viols.len(), "wall_s": t.elapsed().as_secs_f64(),
    }));
    let prev = std::mem::take(total);
    *total = prev.merge(acc);
}

/// every sequence of `alphabet` of length 0..=depth
fn sequences<T: Clone>(alphabet: &[T], depth: usize) -> Vec<Vec<T>> {
    let mut all = vec![vec![]];
    let mut frontier = vec![vec![]];
    for _ in 0..depth {
        let mut next = vec![];
        for s in &frontier {
            for a in alphabet {
                let mut t: Vec<T> = s.clone();
                t.push(a.clone());
                next.push(t);
            }
        }
        all.extend(next.iter().cloned());
        frontier = next;
    }
    all
}

fn ext_shapes(tier: Tier) -> Vec<ExtShape> {
    let one_lens: Vec<u8> = tier.pick(vec![1, 2, 16], vec![1, 2, 3, 4, 15, 16]);
    let two_lens: Vec<u8> = tier.pick(vec![0, 1, 17], vec![0, 1, 2, 16, 17, 255]);
    let mut v = vec![ExtShape::None, ExtShape::OneByteEmpty, ExtShape::OneByteTerm, ExtShape::OneBytePadMid];
    for s in sequences(&one_lens, 3).into_iter().filter(|s| !s.is_empty()) {
        v.push(ExtShape::OneByte(s));
    }
    for s in sequences(&two_lens, tier.pick(3, 2)).into_iter().filter(|s| !s.is_empty()) {
        v.push(ExtShape::TwoByte(s));
    }
    v.push(ExtShape::Raw(0xABCD, 0));
    v.push(ExtShape::Raw(0xABCD, 1));
    v.push(ExtShape::Raw(0x0000, 2));
    v.push(ExtShape::Raw(0xFFFF, 3));
    v
}

fn rtp_cases(tier: Tier) -> Vec<Case> {
    let csrcs: Vec<usize> = tier.pick(vec![0, 1, 15, 16], (0..=16).collect());
    let pads: Vec<u8> = tier.pick(vec![0, 1, 255], vec![0, 1, 2, 3, 4, 5, 127, 128, 254, 255]);
    let pls: Vec<usize> = tier.pick(vec![0, 1, 1200], vec![0, 1, 2, 3, 4, 5, 255, 256, 1200, 1460]);
    let pts: Vec<u8> = tier.pick(vec![0, 127], vec![0, 1, 96, 126, 127]);
    let mut v = vec![];
    for ext in ext_shapes(tier) {
        for &csrc in &csrcs {
            for &pad in &pads {
                for &payload in &pls {
                    for marker in [false, true] {
                        for &pt in &pts {
                            for fill in 0..3u8 {
                                v.push(Case::Rtp(RtpCase { csrc, ext: ext.clone(), pad, payload, marker, pt, fill }));
                            }
                        }
                    }
                }
            }
        }
    }
    v
}

fn ext_alg_cases(tier: Tier) -> Vec<Case> {
    let ids: Vec<u8> = tier.pick(vec![1, 2, 14], vec![1, 2, 7, 14]);
    let lens: Vec<u8> = tier.pick(vec![1, 3, 16], vec![1, 2, 3, 4, 16]);
    let mut alpha = vec![];
    for i in &ids {
        for l in &lens {
            alpha.push((*i, *l));
        }
    }
    let seqs: Vec<Vec<(u8, u8)>> = sequences(&alpha, 3).into_iter().filter(|s| !s.is_empty()).collect();
    let mut v = vec![];
    // seeds: every extension shape of the quick RTP product (also in thorough: the alphabet grows instead)
    for seed in ext_shapes(Tier::Quick) {
        for csrc in [0usize, 15] {
            for ops in &seqs {
                v.push(Case::ExtAlg(ExtAlgCase { seed: seed.clone(), csrc, ops: ops.clone() }));
            }
        }
    }
    // invalid arguments must be refused without touching the header
    for seed in [ExtShape::None, ExtShape::OneByte(vec![2])] {
        for op in [(0u8, 1u8), (15, 1), (16, 1), (1, 0), (1, 17), (255, 255)] {
            v.push(Case::ExtAlg(ExtAlgCase { seed: seed.clone(), csrc: 0, ops: vec![op] }));
        }
    }
    v
}

const LOSTS: [i32; 9] = [-(1 << 23), -1, 0, (1 << 23) - 1, (1 << 23) + 1, -(1 << 23) - 1, 1 << 23, i32::MAX, i32::MIN];

fn texts(tier: Tier) -> Vec<Text> {
    match tier {
        Tier::Quick => vec![
            Text { len: 0, kind: 0 },
            Text { len: 1, kind: 0 },
            Text { len: 2, kind: 0 },
            Text { len: 3, kind: 0 },
            Text { len: 255, kind: 0 },
            Text { len: 255, kind: 1 },
            Text { len: 255, kind: 2 },
            Text { len: 256, kind: 0 },
            Text { len: 256, kind: 1 },
            Text { len: 257, kind: 2 },
            Text { len: 300, kind: 0 },
        ],
        Tier::Thorough => {
            let mut v = vec![];
            for len in 0..=300usize {
                for kind in 0..3u8 {
                    if (kind == 1 && len < 2) || (kind == 2 && len < 3) {
                        continue;
                    }
                    v.push(Text { len, kind });
                }
            }
            for len in [511, 512, 513, 1000, 65535, 65536] {
                v.push(Text { len, kind: 0 });
            }
            v
        }
    }
}

fn rtcp_single_specs(tier: Tier) -> Vec<Spec> {
    let mut v = vec![];
    let blocks: Vec<usize> = tier.pick(vec![0, 1, 2, 31, 32], (0..=40).chain([63, 64, 255, 256]).collect());
    for &b in &blocks {
        for lost in LOSTS {
            for fill in 0..3u8 {
                v.push(Spec::Sr { blocks: b, lost, fill });
                v.push(Spec::Rr { blocks: b, lost, fill });
            }
        }
    }
    let chunks: Vec<usize> = tier.pick(vec![0, 1, 2, 31, 32], vec![0, 1, 2, 3, 30, 31, 32, 33, 64, 256]);
    for &c in &chunks {
        for items in 0..=2usize {
            for ty in [1u8, 8] {
                for text in texts(tier) {
                    if (c == 0 || items == 0) && (text.len != 0 || ty != 1) {
                        continue; // text/type are not part of the packet then
                    }
                    v.push(Spec::Sdes { chunks: c, items, ty, text });
                }
            }
        }
    }
    let sources: Vec<usize> = tier.pick(vec![0, 1, 31, 32], vec![0, 1, 2, 30, 31, 32, 33, 64, 256]);
    for &s in &sources {
        v.push(Spec::Bye { sources: s, reason: None });
        for t in texts(tier) {
            v.push(Spec::Bye { sources: s, reason: Some(t) });
        }
    }
    for fill in 0..3u8 {
        v.push(Spec::Pli { fill });
        for entries in tier.pick(vec![0usize, 1, 2, 31, 32], (0..=40).chain([255, 256, 1000]).collect()) {
            v.push(Spec::Fir { entries, fill });
        }
        for kind in tier.pick(vec![0u8, 1, 2, 3, 10, 11, 13, 14], (0..=3).chain(10..=22).collect()) {
            v.push(Spec::Twcc { kind, fill });
        }
        for lost in [vec![], vec![0u16], vec![65535, 0], vec![100, 102, 116, 117], vec![5, 5, 5], vec![1000, 10]] {
            v.push(Spec::Nack { lost, fill });
        }
    }
    let mut rates: Vec<u64> = vec![0, 1, (1 << 18) - 1, 1 << 18, (1 << 18) + 1, 750_000, 1 << 63, u64::MAX, ((1u64 << 18) - 1) << 46, (((1u64 << 18) - 1) << 46) + 1];
    if tier == Tier::Thorough {
        for k in 0..64 {
            rates.extend([1u64 << k, (1u64 << k).wrapping_sub(1), (1u64 << k) + 1, 0x3FFFFu64.checked_shl(k).filter(|v| v >> k == 0x3FFFF).unwrap_or(3)]);
        }
        rates.sort_unstable();
        rates.dedup();
    }
    for &bitrate in &rates {
        for ssrcs in [0usize, 1, 255, 256] {
            for fill in [0u8, 2] {
                v.push(Spec::Remb { bitrate, ssrcs, fill });
            }
        }
    }
    v
}

/// Representatives of every packet type for compounds (each passes on its own — checked).
fn compound_reps() -> Vec<Spec> {
    vec![
        Spec::Sr { blocks: 0, lost: 0, fill: 2 },
        Spec::Sr { blocks: 2, lost: -1, fill: 2 },
        Spec::Rr { blocks: 0, lost: 0, fill: 2 },
        Spec::Rr { blocks: 31, lost: (1 << 23) - 1, fill: 1 },
        Spec::Sdes { chunks: 1, items: 1, ty: 1, text: Text { len: 9, kind: 0 } },
        Spec::Sdes { chunks: 2, items: 2, ty: 8, text: Text { len: 255, kind: 1 } },
        Spec::Bye { sources: 1, reason: None },
        Spec::Bye { sources: 2, reason: Some(Text { len: 1, kind: 0 }) },
        Spec::Bye { sources: 0, reason: Some(Text { len: 6, kind: 2 }) },
        Spec::Pli { fill: 2 },
        Spec::Fir { entries: 0, fill: 2 },
        Spec::Fir { entries: 3, fill: 2 },
        Spec::Nack { lost: vec![65535, 0, 17, 40], fill: 2 },
        Spec::Remb { bitrate: 750_000, ssrcs: 2, fill: 2 },
        Spec::Remb { bitrate: 1 << 40, ssrcs: 0, fill: 1 },
        Spec::Twcc { kind: 0, fill: 2 },
        Spec::Twcc { kind: 3, fill: 2 },
    ]
}

fn subsets(win: &[u16], max: usize) -> Vec<Case> {
    fn rec(win: &[u16], start: usize, max: usize, cur: &mut Vec<u16>, out: &mut Vec<Case>) {
        if !cur.is_empty() {
            out.push(Case::NackSet { seqs: cur.clone() });
        }
        if cur.len() == max {
            return;
        }
        for i in start..win.len() {
            cur.push(win[i]);
            rec(win, i + 1, max, cur, out);
            cur.pop();
        }
    }
    let mut out = vec![];
    rec(win, 0, max, &mut vec![], &mut out);
    out.sort_by_key(|c| match c {
        Case::NackSet { seqs } => seqs.len(),
        _ => 0,
    });
    out
}

fn replay(path: &std::path::Path) -> i32 {
    let txt = std::fs::read_to_string(path).unwrap_or_else(|e| vh::machinery_failure(&format!("cannot read {}: {e}", path.display())));
    let v: serde_json::Value = serde_json::from_str(&txt).unwrap_or_else(|e| vh::machinery_failure(&format!("bad replay json: {e}")));
    let cj = if v.get("replay").is_some() { v["replay"]["case"].clone() } else { v["case"].clone() };
    let case: Case = serde_json::from_value(cj).unwrap_or_else(|e| vh::machinery_failure(&format!("replay file has no case: {e}")));
    println!("replaying {case:?}");
    let mut bad = false;
    for round in 0..2 {
        let o = run_case(&case);
        println!("run {round}: class={} failures={}", o.class, o.fails.len());
        for f in &o.fails {
            println!("  signature: {}\n  detail: {}", f.sig, vh::truncate(&f.detail, 800));
        }
        bad |= !o.fails.is_empty();
    }
    if bad {
        println!("VIOLATION property=C15 replay={}", path.display());
        1
    } else {
        println!("C15 replay: no violation");
        0
    }
}

fn main() {
    let cli = vh::cli();
    vh::install_quiet_panic_hook();
    if let Some(p) = &cli.replay {
        std::process::exit(replay(p));
    }
    let tier = cli.tier;
    let mut rep = vh::Report::new("C15", &cli, "exploration");
    let mut total = Acc::default();
    let mut sections = vec![];
    let mut samples = vec![];

    run_section("rtp", rtp_cases(tier), &mut total, &mut sections, &mut samples);
    run_section("ext_algebra", ext_alg_cases(tier), &mut total, &mut sections, &mut samples);

    let singles = rtcp_single_specs(tier);
    run_section("rtcp", singles.iter().map(|s| Case::Rtcp(vec![s.clone()])).collect(), &mut total, &mut sections, &mut samples);

    // compounds: every ordered pair (thorough: also every ordered triple) of representatives
    let reps = compound_reps();
    for r in &reps {
        let o = run_case(&Case::Rtcp(vec![r.clone()]));
        if !o.fails.is_empty() || !o.accepted {
            // a representative that fails alone is already reported by the single-packet section;
            // compounds built from it would only repeat that finding
            println!("note: compound representative {:?} fails on its own: {:?}", r, o.fails.iter().map(|f| &f.sig).collect::<Vec<_>>());
        }
    }
    let good: Vec<Spec> = reps.iter().filter(|r| { let o = run_case(&Case::Rtcp(vec![(*r).clone()])); o.fails.is_empty() && o.accepted }).cloned().collect();
    rep.set("compound_representatives", json!({"listed": reps.len(), "passing_alone": good.len()}));
    let mut comp = vec![];
    for a in &good {
        for b in &good {
            comp.push(Case::Rtcp(vec![a.clone(), b.clone()]));
        }
    }
    if tier == Tier::Thorough {
        for a in &good {
            for b in &good {
                for c in &good {
                    comp.push(Case::Rtcp(vec![a.clone(), b.clone(), c.clone()]));
                }
            }
        }
    }
    run_section("rtcp_compound", comp, &mut total, &mut sections, &mut samples);

    // hand-built REMB images: all 64 exponents × mantissa boundary values × ssrc counts
    let mut rw = vec![];
    for exp in 0..64u8 {
        for mantissa in [0u32, 1, 2, 0x1FFFF, 0x20000, 0x3FFFE, 0x3FFFF] {
            for ssrcs in tier.pick(vec![0usize, 1], vec![0usize, 1, 2, 255]) {
                rw.push(Case::RembWire { exp, mantissa, ssrcs });
            }
        }
    }
    run_section("remb_wire", rw, &mut total, &mut sections, &mut samples);

    // 24-bit loss field: all 2^24 wire values
    let lw: Vec<Case> = (0..(1u32 << 24)).map(|v24| Case::LostWire { v24 }).collect();
    run_section("lost_wire", lw, &mut total, &mut sections, &mut samples);

    // NACK (pid, blp): 16 boundary pids × all 65 536 bitmasks
    let pids: [u16; 16] = [0, 1, 15, 16, 17, 255, 256, 32767, 32768, 65518, 65519, 65520, 65533, 65534, 65535, 0x1234];
    let mut nw = Vec::with_capacity(16 << 16);
    for pid in pids {
        for blp in 0..=u16::MAX {
            nw.push(Case::NackWire { pid, blp });
        }
    }
    run_section("nack_wire", nw, &mut total, &mut sections, &mut samples);

    // NACK sets: every subset of size <=4 (thorough: <=5) of the 40-value wrap window
    let win = window(40);
    run_section("nack_set", subsets(&win, tier.pick(4, 5)), &mut total, &mut sections, &mut samples);

    // receiver gap detection / sender buffer over every ordered pair of the window
    let mut ng = vec![];
    for &l in &win {
        for &s in &win {
            ng.push(Case::NackGap { last: l, seq: s });
        }
    }
    run_section("nack_gap", ng, &mut total, &mut sections, &mut samples);

    // RTX: all 65 536 original sequence numbers × payload sizes × marker × original shape
    let mut rx = vec![];
    for shape in 0..2u8 {
        for payload in tier.pick(vec![0usize, 1, 1200], vec![0usize, 1, 2, 3, 1200, 1460]) {
            for marker in [false, true] {
                for seq in 0..=u16::MAX {
                    rx.push(Case::Rtx(RtxCase { seq, payload, marker, shape }));
                }
            }
        }
    }
    run_section("rtx", rx, &mut total, &mut sections, &mut samples);

    // ---- verdict & evidence
    let ok_classes = total.classes.keys().filter(|k| k.ends_with(":ok")).count();
    let rejected_classes = total.classes.keys().filter(|k| k.contains(":rejected")).count();
    if total.classes.len() < 2 || ok_classes == 0 || total.ref_checks == 0 {
        vh::machinery_failure("vacuous run: fewer than 2 result classes, no passing class, or no reference comparison");
    }
    rep.add("evaluations", total.evals);
    rep.set("distinct_nontrivial", total.classes.len() as u64);
    rep.set("distinct_ok_classes", ok_classes as u64);
    rep.set("distinct_rejected_classes", rejected_classes as u64);
    rep.set("accepted_inputs", total.accepted);
    rep.set("reference_comparisons", total.ref_checks);
    rep.set("exhaustive", true);
    rep.set("caps_hit", json!([]));
    rep.set("sections", json!(sections));
    rep.set(
        "rule",
        "Complete enumeration (no sampling, no cap) of the boundary-value products listed under `sections`: RTP header shapes (CSRC count x extension shape x padding x payload size x marker x PT x field fill) in both directions with the rtp crate; every set_extension sequence of length <=3 over ids x lengths on every extension-shape seed; every supported RTCP packet type over its boundary values (counts 0/1/31/32, loss-count extremes, text lengths around 255, REMB limits, FIR, TWCC) and every ordered pair (thorough: triple) of packet-type representatives as a compound, both directions with the rtcp crate; hand-built REMB (all 64 exponents x 7 mantissas) and 24-bit loss-field wire images; NACK (16 boundary pids x all 65536 bitmasks), every subset of size <=4 (thorough <=5) of the 40-value 65535/0 wrap window, every ordered (last, seq) pair of that window through the receiver gap detector and the sender buffer; RTX wrap/unwrap for all 65536 sequence numbers x payload sizes x marker x 2 original shapes. A case is counted as distinct/non-trivial once per distinct (packet kind, boundary-bucket vector of the input, result class) triple, result class being ok / rejected-by-marshaller / violation kind; repeats of a triple (e.g. the 65536 RTX sequence numbers inside one bucket) are not counted.",
    );
    for s in samples.into_iter().take(12) {
        rep.sample(s);
    }
    rep.assume("Reference = webrtc-rs rtp/rtcp 0.17.2 (webrtc-util Marshal/Unmarshal); where rustrtc and the reference may legitimately differ, decoded fields are compared, never bytes: RTP padding fill bytes, BYE 'no reason' vs empty reason (the reference cannot tell them apart), FIR media-SSRC (must be 0, RFC 5104), 24-bit loss count held unsigned by the reference (compared modulo 2^24), TWCC trailing zero bytes after the last delta.");
    rep.assume("Known reference defects avoided: its one-byte-extension parser desynchronises after an id-15 terminator (that shape is judged by the RFC 8285 model only); it decodes a REMB zero mantissa as 2^(exp+23) (value compared only when non-zero); REMB bitrates are compared only where its f32 is exact.");
    rep.assume("Where the wire format itself saturates or rounds, the expected decode is the saturated/rounded value: loss counts outside the signed 24-bit range are clamped (RFC 3550 A.3), REMB bitrates are floored to an 18-bit mantissa with the minimal exponent. Everything else must come back exactly, or the marshaller must refuse (Err).");
    rep.assume("NACK packets are compared as sets of lost sequence numbers (the statement speaks of the set); SDES/BYE text is valid UTF-8 (rustrtc models text as String); SDES item types 1..=8 (the reference knows no others); PT<=127, reference_time<2^24 (wider values are outside the field ranges).");
    rep.assume("Field values other than the stated boundary dimensions are seeded (three fills: all-zero, all-ones, one mixed pattern), not enumerated.");

    let mut v: Vec<_> = total.viols.into_iter().collect();
    v.sort_by(|a, b| a.0.cmp(&b.0));
    for (sig, (_rank, hits, detail, case)) in v {
        rep.violation(Violation { signature: sig, detail: format!("{detail} [{hits} cases with this signature]"), replay: json!({"case": case}) });
    }
    std::process::exit(rep.finish());
}
