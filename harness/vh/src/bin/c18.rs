//! C18 — RTP latching locks onto a legitimate source and then stays put.
//!
//! Engine E3 (history replay): the state of the search is the event list that reaches it.
//! `run(cfg, hist)` builds a fresh real `IceConn` (no socket: `watch::channel(None)`), applies
//! the configuration through the public setters and replays `hist` through
//! `PacketReceiver::receive`, `reset_latch` and the two cfg(rustrtc_verif) wrappers.
//!
//! Two passes per configuration (72 = probation 0..8 x SSRC known/unknown x remote set/unset x
//! RTCP address unset/set), both reported:
//!   * no-dedup: every sequence of length <= d1 over the 21-letter alphabet;
//!   * dedup BFS to depth d2 > d1 on a canonical state (impl observables + probation snapshot +
//!     harness sequence bookkeeping + oracle state); the merge is cross-checked mechanically
//!     against the no-dedup pass (DESIGN 2.3): histories of length < d1 with equal canon must
//!     have identical successor canons and verdicts for all 21 letters, and the dedup pass must
//!     reproduce the no-dedup digests.
//! Tiers: quick d1=4, d2=6 (about 110 CPU-seconds; a real IceConn step incl. harness costs
//! ~0.4 us, so all 21^5 x 72 sequences would need ~40 s on 16 idle cores — too close to the
//! 60 s budget); thorough d1=5, d2=8.  Override with C18_D1 / C18_D2.
//!
//! Oracle: invariants I1..I4 on the last step of every history (so every step of every
//! history is judged exactly once) and a reference implementation of the *documented*
//! decision rules (conn.rs doc comment: marker flush -> consecutive dominance -> timeout
//! fallback, "evaluated in order on every new RTP packet").
use bytes::Bytes;
use rayon::prelude::*;
use rustrtc::transports::PacketReceiver;
use rustrtc::transports::ice::IceSocketWrapper;
use rustrtc::transports::ice::conn::IceConn;
use serde_json::{Value, json};
use std::collections::{BTreeMap, HashMap, HashSet};
use std::net::SocketAddr;
use std::sync::Arc;
use std::sync::atomic::Ordering;
use std::task::{Context, Poll};
use tokio::sync::watch;

/// Abstraction / determinism guards of the search. They protect the COMPLETENESS of the deduplicated
/// pass; a change in the code under test that adds hidden state trips them together with real
/// violations, so they are collected and only become a machinery failure when the run produced no
/// violation at all (otherwise the violations are the verdict and the guard text goes into the
/// evidence).
static GUARD_TRIPS: std::sync::Mutex<Vec<String>> = std::sync::Mutex::new(Vec::new());
fn guard_trip(msg: String) {
    let mut g = GUARD_TRIPS.lock().unwrap();
    if g.len() < 8 {
        g.push(msg);
    }
}

// ───────────────────────────── alphabet ─────────────────────────────

const NL: usize = 21;
const K_MP: u8 = 0; // RTP expected SSRC, marker, seq = last+1
const K_MO: u8 = 1; // RTP expected SSRC, marker, seq = last-3 ("other")
const K_NP: u8 = 2; // RTP expected SSRC, no marker, seq = last+1
const K_NO: u8 = 3; // RTP expected SSRC, no marker, seq = last-3
const K_X: u8 = 4; // RTP other SSRC (seq 7, no marker)
const K_R: u8 = 5; // RTCP (SR header)
const L_RESET: u8 = 18;
const L_SIG: u8 = 19;
const L_SEL: u8 = 20;

const KIND_NAMES: [&str; 6] = ["M+", "Mo", "N+", "No", "X", "R"];
const SRC_NAMES: [&str; 3] = ["A", "B", "C"];

fn letter_name(l: u8) -> String {
    match l {
        0..=17 => format!("{}:{}", SRC_NAMES[(l / 6) as usize], KIND_NAMES[(l % 6) as usize]),
        L_RESET => "reset".into(),
        L_SIG => "sigD".into(),
        L_SEL => "selE".into(),
        _ => format!("?{l}"),
    }
}

fn letter_from_name(s: &str) -> Option<u8> {
    (0..NL as u8).find(|l| letter_name(*l) == s)
}

fn hist_names(h: &[u8]) -> Vec<String> {
    h.iter().map(|l| letter_name(*l)).collect()
}

// address indices
const AI_D: u8 = 3;
const AI_E: u8 = 4;
const AI_INIT: u8 = 5;
const AI_UNSET: u8 = 6;
const AI_RTCP0: u8 = 7;
const AI_NONE: u8 = 254;
const AI_OTHER: u8 = 255;
const ADDR_STR: [&str; 8] = [
    "10.0.0.1:5000", // A
    "10.0.0.2:5002", // B
    "10.0.0.1:5004", // C (same host as A, other port: the "port glitch" case)
    "10.0.1.1:6000", // D  signaling retarget
    "10.0.2.1:7000", // E  selected pair
    "10.0.9.9:4000", // initial remote from SDP
    "0.0.0.0:0",     // unset
    "10.0.9.9:4001", // initial RTCP destination (non-mux)
];
const ADDR_NAMES: [&str; 8] = ["A", "B", "C", "D", "E", "INIT", "UNSET", "RTCP0"];

fn addr_name(i: u8) -> String {
    match i {
        0..=7 => ADDR_NAMES[i as usize].to_string(),
        AI_NONE => "none".into(),
        _ => "other".into(),
    }
}

struct Addrs {
    a: [SocketAddr; 8],
}
const fn sa(a: u8, b: u8, c: u8, d: u8, port: u16) -> SocketAddr {
    SocketAddr::new(std::net::IpAddr::V4(std::net::Ipv4Addr::new(a, b, c, d)), port)
}
static ADDRS_S: Addrs = Addrs {
    a: [
        sa(10, 0, 0, 1, 5000),
        sa(10, 0, 0, 2, 5002),
        sa(10, 0, 0, 1, 5004),
        sa(10, 0, 1, 1, 6000),
        sa(10, 0, 2, 1, 7000),
        sa(10, 0, 9, 9, 4000),
        sa(0, 0, 0, 0, 0),
        sa(10, 0, 9, 9, 4001),
    ],
};
struct AddrsKey;
static ADDRS: AddrsKey = AddrsKey;
impl AddrsKey {
    #[inline(always)]
    fn with<R>(&self, f: impl FnOnce(&Addrs) -> R) -> R {
        f(&ADDRS_S)
    }
}
impl Addrs {
    fn idx(&self, s: &SocketAddr) -> u8 {
        let i = match s.port() {
            5000 => 0,
            5002 => 1,
            5004 => 2,
            6000 => 3,
            7000 => 4,
            4000 => 5,
            0 => 6,
            4001 => 7,
            _ => return AI_OTHER,
        };
        if self.a[i] == *s { i as u8 } else { AI_OTHER }
    }
}

const EXPECTED_SSRC: u32 = 0x1122_3344;
const OTHER_SSRC: u32 = 0x0BAD_0BAD;
const SEQ_BASE: u16 = 1000;
const RTCP_SR: [u8; 28] = [
    0x80, 200, 0x00, 0x06, 0x11, 0x22, 0x33, 0x44, 0, 0, 0, 0, 0, 0, 0, 0, 0, 0, 0, 0, 0, 0, 0, 0, 0, 0, 0, 0,
];
const OTHER_SSRC_SEQ: u16 = 7;

// ───────────────────────────── configuration ─────────────────────────────

#[derive(Clone, Copy, Debug, PartialEq, Eq)]
struct Cfg {
    prob: u8,
    ssrc_known: bool,
    remote_set: bool,
    rtcp_set: bool,
    /// sequence number every source starts from ('+1' letters count up from it): 1000, or 65534
    /// so that the second '+1' of a source crosses the 16-bit wrap
    seq_base: u16,
    /// which second octets the packets carry (the RTP / RTCP classification looks at that octet):
    /// 0 = RTP payload type 0, RTCP packet type 200 (SR); 1 = RTP payload type 71 (octet 199 with the
    /// marker: just below the RTCP range), RTCP type 211 (top of the range); 2 = RTP payload type 84
    /// (octet 212 with the marker: just above), RTCP type 209
    wire: u8,
}
impl Cfg {
    fn json(&self) -> Value {
        json!({"probation": self.prob, "ssrc_known": self.ssrc_known,
               "remote_set": self.remote_set, "rtcp_set": self.rtcp_set, "seq_base": self.seq_base, "wire": self.wire})
    }
    fn from_json(v: &Value) -> Option<Cfg> {
        Some(Cfg {
            prob: v["probation"].as_u64()? as u8,
            ssrc_known: v["ssrc_known"].as_bool()?,
            remote_set: v["remote_set"].as_bool()?,
            rtcp_set: v["rtcp_set"].as_bool()?,
            seq_base: v["seq_base"].as_u64().unwrap_or(SEQ_BASE as u64) as u16,
            wire: v["wire"].as_u64().unwrap_or(0) as u8,
        })
    }
}

fn all_cfgs(thorough: bool) -> Vec<Cfg> {
    let mut v = vec![];
    for prob in 0..=8u8 {
        for ssrc_known in [true, false] {
            for remote_set in [true, false] {
                for rtcp_set in [false, true] {
                    v.push(Cfg { prob, ssrc_known, remote_set, rtcp_set, seq_base: SEQ_BASE, wire: 0 });
                    // the classification-boundary dimension: all configurations in thorough; in quick
                    // immediate commit and two probation lengths with the remote address set
                    if thorough || (remote_set && matches!(prob, 0 | 2 | 6)) {
                        v.push(Cfg { prob, ssrc_known, remote_set, rtcp_set, seq_base: SEQ_BASE, wire: 1 });
                        v.push(Cfg { prob, ssrc_known, remote_set, rtcp_set, seq_base: SEQ_BASE, wire: 2 });
                    }
                    // the wrap dimension: all configurations in thorough, the SSRC-filtered ones
                    // without a separate RTCP address in quick
                    if thorough || (ssrc_known && !rtcp_set) {
                        v.push(Cfg { prob, ssrc_known, remote_set, rtcp_set, seq_base: 65534, wire: 0 });
                    }
                }
            }
        }
    }
    v
}

// ───────────────────────────── system under test ─────────────────────────────

struct Noop;
#[async_trait::async_trait]
impl PacketReceiver for Noop {
    async fn receive(&self, _p: Bytes, _a: SocketAddr, _b: &mut Vec<u8>) {}
}

thread_local! {
    static SOCK: (watch::Sender<Option<IceSocketWrapper>>, watch::Receiver<Option<IceSocketWrapper>>) =
        watch::channel(None);
    static NOOP: Arc<Noop> = Arc::new(Noop);
}

type SnapCand = (u8, u16, u16, u8, u8, bool);
#[derive(Clone, Copy, Debug, PartialEq, Eq, Default)]
struct Snap {
    n: u8,
    total: u8,
    /// (addr idx, first_seq, last_seq, packet_count, consecutive_count, has_marker), in table order
    c: [SnapCand; 3],
}
#[derive(Clone, Copy, Debug, PartialEq, Eq, Default)]
struct Obs {
    remote: u8,
    rtcp: u8,
    latched: bool,
    rtcp_latched: bool,
    snap: Option<Snap>,
}

#[derive(Clone, Copy, Debug)]
struct Pkt {
    src: u8,
    kind: u8,
    seq: u16,
    marker: bool,
    wire: u8,
}

struct Sys {
    conn: Arc<IceConn>,
    _keep: Arc<Noop>,
    last: [u16; 3],
    buf: Vec<u8>,
    wire: u8,
}

impl Sys {
    fn new(cfg: Cfg) -> Sys {
        let rx = SOCK.with(|s| s.1.clone());
        let init = ADDRS.with(|a| a.a[if cfg.remote_set { AI_INIT } else { AI_UNSET } as usize]);
        let conn = IceConn::new(rx, init, None);
        conn.set_probation_max_packets(if cfg.prob == 0 { None } else { Some(cfg.prob) });
        conn.enable_latch_on_rtp();
        if cfg.ssrc_known {
            conn.set_expected_ssrc(EXPECTED_SSRC);
        }
        if cfg.rtcp_set {
            conn.set_remote_rtcp_addr(Some(ADDRS.with(|a| a.a[AI_RTCP0 as usize])));
        }
        let keep = NOOP.with(|n| n.clone());
        conn.set_rtp_receiver(keep.clone());
        Sys { conn, _keep: keep, last: [cfg.seq_base; 3], buf: Vec::new(), wire: cfg.wire }
    }

    /// What the harness will send for a packet letter (pure; does not advance bookkeeping).
    fn plan(&self, l: u8) -> Option<Pkt> {
        if l >= 18 {
            return None;
        }
        let src = l / 6;
        let kind = l % 6;
        let last = self.last[src as usize];
        let (seq, marker) = match kind {
            K_MP => (last.wrapping_add(1), true),
            K_MO => (last.wrapping_sub(3), true),
            K_NP => (last.wrapping_add(1), false),
            K_NO => (last.wrapping_sub(3), false),
            K_X => (OTHER_SSRC_SEQ, false),
            _ => (0, false),
        };
        Some(Pkt { src, kind, seq, marker, wire: self.wire })
    }

    fn apply(&mut self, l: u8) -> Option<Pkt> {
        match l {
            L_RESET => {
                self.conn.reset_latch();
                None
            }
            L_SIG => {
                let d = ADDRS.with(|a| a.a[AI_D as usize]);
                self.conn.verif_set_remote_addr_from_signaling(d);
                None
            }
            L_SEL => {
                let e = ADDRS.with(|a| a.a[AI_E as usize]);
                self.conn.verif_set_remote_addr_from_selected_pair(e);
                None
            }
            _ => {
                let p = self.plan(l).unwrap();
                let bytes: Bytes = if p.kind == K_R && p.wire == 0 {
                    // RTCP SR: V=2, PT=200, length 6 words, sender SSRC = expected SSRC
                    Bytes::from_static(&RTCP_SR)
                } else if p.kind == K_R {
                    // RTCP of type 211 / 209: sender SSRC and the word an RTP reader would take for the
                    // SSRC both equal the expected SSRC (as the summarised SSRC of an RSI packet does)
                    let mut v = RTCP_SR.to_vec();
                    v[1] = if p.wire == 1 { 211 } else { 209 };
                    v[4..8].copy_from_slice(&EXPECTED_SSRC.to_be_bytes());
                    v[8..12].copy_from_slice(&EXPECTED_SSRC.to_be_bytes());
                    Bytes::from(v)
                } else {
                    rtp_packet(p)
                };
                if p.kind <= K_NO {
                    self.last[p.src as usize] = p.seq;
                }
                let from = ADDRS.with(|a| a.a[p.src as usize]);
                let conn = self.conn.clone();
                let mut fut = conn.receive(bytes, from, &mut self.buf);
                let mut cx = Context::from_waker(futures::task::noop_waker_ref());
                match fut.as_mut().poll(&mut cx) {
                    Poll::Ready(()) => {}
                    Poll::Pending => panic!("IceConn::receive returned Pending without a socket"),
                }
                Some(p)
            }
        }
    }

    /// `full` additionally takes the probation snapshot (needed only for the canonical state;
    /// the oracle never looks at it).
    fn observe(&self, full: bool) -> Obs {
        ADDRS.with(|a| {
            let remote = a.idx(&self.conn.remote_addr.read());
            let rtcp = match *self.conn.remote_rtcp_addr.read() {
                None => AI_NONE,
                Some(x) => a.idx(&x),
            };
            let snap = if full {
                self.conn.verif_latch_snapshot().map(|(c, t)| {
                    if c.len() > 3 {
                        panic!("probation table has {} candidates for 3 sources", c.len());
                    }
                    let mut sn = Snap { n: c.len() as u8, total: t, c: Default::default() };
                    for (k, (ad, f, l, n, r, m)) in c.iter().enumerate() {
                        sn.c[k] = (a.idx(ad), *f, *l, *n, *r, *m);
                    }
                    sn
                })
            } else {
                None
            };
            Obs {
                remote,
                rtcp,
                latched: self.conn.rtp_latched.load(Ordering::Relaxed),
                rtcp_latched: self.conn.rtcp_latched.load(Ordering::Relaxed),
                snap,
            }
        })
    }
}

fn build_rtp(p: Pkt) -> Vec<u8> {
    let ssrc = if p.kind == K_X { OTHER_SSRC } else { EXPECTED_SSRC };
    let mut v = vec![0xAAu8; 16];
    v[0] = 0x80;
    v[1] = (if p.marker { 0x80 } else { 0x00 }) | [0u8, 71, 84][p.wire as usize % 3];
    v[2..4].copy_from_slice(&p.seq.to_be_bytes());
    v[4..8].copy_from_slice(&(p.seq as u32).wrapping_mul(160).to_be_bytes());
    v[8..12].copy_from_slice(&ssrc.to_be_bytes());
    v
}

const PKT_CACHE_LO: u16 = SEQ_BASE - 64;
const PKT_CACHE_N: usize = 128;
thread_local! {
    /// Per-thread cache of immutable packet buffers (a `Bytes` clone is a refcount bump), so
    /// the enumeration does not allocate a fresh datagram for every step.
    static PKT_CACHE: std::cell::RefCell<Vec<Option<Bytes>>> = std::cell::RefCell::new(vec![None; PKT_CACHE_N * 2 + 1]);
}

fn rtp_packet(p: Pkt) -> Bytes {
    let slot = if p.wire != 0 {
        None
    } else if p.kind == K_X {
        Some(PKT_CACHE_N * 2)
    } else if p.seq >= PKT_CACHE_LO && ((p.seq - PKT_CACHE_LO) as usize) < PKT_CACHE_N {
        Some((p.seq - PKT_CACHE_LO) as usize * 2 + p.marker as usize)
    } else {
        None
    };
    match slot {
        None => Bytes::from(build_rtp(p)),
        Some(i) => PKT_CACHE.with(|c| {
            let mut c = c.borrow_mut();
            match &c[i] {
                Some(b) => b.clone(),
                None => {
                    let b = Bytes::from(build_rtp(p));
                    c[i] = Some(b.clone());
                    b
                }
            }
        }),
    }
}

// ───────────────────────────── oracle ─────────────────────────────

#[derive(Clone, Copy, Debug, Default, PartialEq, Eq)]
struct Cand {
    present: bool,
    marker: bool,
    first_arr: u16,
    min_seq: u16,
    last: u16,
    count: u8,
    run: u8, // current run of seq == last+1 (reset on a gap)
    cum: u8, // cumulative number of packets with seq == last+1
    ord: u8, // arrival order
}

#[derive(Clone, Debug, Default, PartialEq, Eq)]
struct Oracle {
    legit: [bool; 3], // sources that sent eligible RTP since the last reset
    m: u8,            // eligible RTP packets since the last reset while not committed (saturating 15)
    committed: Option<u8>,
    rtcp_changes: u8,
    cands: [Cand; 3],
    ncand: u8,
    total: u8,
}

#[derive(Clone, Debug, PartialEq, Eq)]
struct Viol {
    sig: String,
    detail: String,
}

#[derive(Clone, Copy, Debug, PartialEq, Eq)]
enum Dec {
    None,
    Commit(u8, &'static str), // bit mask of acceptable winners (sources 0..3), rule
}

/// Outcome class of a step (for vacuity / distinct-outcome accounting).
#[derive(Clone, Copy, Debug, PartialEq, Eq, PartialOrd, Ord, Hash)]
enum Outcome {
    CommitImmediate,
    CommitMarker,
    CommitConsecutive,
    CommitMajority,
    ProbationContinues,
    IgnoredWrongSsrc,
    StickyRtp,
    StickyWrongSsrc,
    RtcpSetsRtcpDest,
    RtcpNoChange,
    Reset,
    Signaling,
    SelPairApplied,
    SelPairPreserved,
    Violation,
}

const ALL_OUTCOMES: [Outcome; 15] = [
    Outcome::CommitImmediate,
    Outcome::CommitMarker,
    Outcome::CommitConsecutive,
    Outcome::CommitMajority,
    Outcome::ProbationContinues,
    Outcome::IgnoredWrongSsrc,
    Outcome::StickyRtp,
    Outcome::StickyWrongSsrc,
    Outcome::RtcpSetsRtcpDest,
    Outcome::RtcpNoChange,
    Outcome::Reset,
    Outcome::Signaling,
    Outcome::SelPairApplied,
    Outcome::SelPairPreserved,
    Outcome::Violation,
];

impl Oracle {
    fn reset(&mut self) {
        *self = Oracle::default();
    }

    /// Decision of the documented rules under one reading of the two ambiguous terms.
    fn decide(&self, cfg: Cfg, first_is_min: bool, consec_is_run: bool) -> Dec {
        let fs = |c: &Cand| if first_is_min { c.min_seq } else { c.first_arr };
        // Rule 1: marker flush — lowest first_seq among candidates with a marker.
        let mut lo: Option<u16> = None;
        for c in self.cands.iter().filter(|c| c.present && c.marker) {
            lo = Some(lo.map_or(fs(c), |x| x.min(fs(c))));
        }
        if let Some(lo) = lo {
            let mut w = 0u8;
            for (i, c) in self.cands.iter().enumerate() {
                if c.present && c.marker && fs(c) == lo {
                    w |= 1 << i;
                }
            }
            return Dec::Commit(w, "marker");
        }
        // Rule 2: consecutive dominance — consecutive_count >= 2 and >= 3 packets in total.
        if self.total >= 3 {
            let mut w = 0u8;
            for (i, c) in self.cands.iter().enumerate() {
                if c.present && (if consec_is_run { c.run } else { c.cum }) >= 2 {
                    w |= 1 << i;
                }
            }
            if w != 0 {
                return Dec::Commit(w, "consecutive");
            }
        }
        // Rule 3: timeout fallback — highest packet_count, ties by lowest first_seq.
        if self.total >= cfg.prob {
            return Dec::Commit(self.majority(first_is_min), "majority");
        }
        Dec::None
    }

    fn majority(&self, first_is_min: bool) -> u8 {
        let fs = |c: &Cand| if first_is_min { c.min_seq } else { c.first_arr };
        let hi = self.cands.iter().filter(|c| c.present).map(|c| c.count).max().unwrap_or(0);
        let lo = self.cands.iter().filter(|c| c.present && c.count == hi).map(fs).min().unwrap_or(0);
        let mut w = 0u8;
        for (i, c) in self.cands.iter().enumerate() {
            if c.present && c.count == hi && fs(c) == lo {
                w |= 1 << i;
            }
        }
        w
    }

    /// Judge one step. `before`/`after` are observations of the real IceConn around the step.
    /// With `judge == false` only the oracle's bookkeeping is advanced (used for the non-final
    /// steps of a replay, which are judged by the replay of their own prefix).
    fn step(&mut self, cfg: Cfg, l: u8, pkt: Option<Pkt>, before: &Obs, after: &Obs, judge: bool) -> (Vec<Viol>, Outcome) {
        let mut v: Vec<Viol> = vec![];
        let moved = after.remote != before.remote;
        let pre = if before.remote == AI_UNSET {
            "remote-unset"
        } else if self.committed.is_some() {
            "latched"
        } else if cfg.prob > 0 {
            "probation"
        } else {
            "unlatched"
        };
        let mv = || format!("remote_addr {} -> {}", addr_name(before.remote), addr_name(after.remote));
        let mut outcome;
        match (l, pkt) {
            (L_RESET, _) => {
                if moved {
                    v.push(Viol { sig: "ctl;reset-moved-rtp-remote".into(), detail: mv() });
                }
                self.reset();
                outcome = Outcome::Reset;
            }
            (L_SIG, _) => {
                if after.remote != AI_D {
                    v.push(Viol { sig: "ctl;signaling-retarget-not-applied".into(), detail: mv() });
                }
                self.reset();
                outcome = Outcome::Signaling;
            }
            (L_SEL, _) => {
                // documented guard: a latched remote is preserved against a different
                // selected-pair address; otherwise the selected pair is applied.
                if self.committed.is_some() && before.latched {
                    if moved {
                        v.push(Viol { sig: "I3;selected-pair-moved-latched-remote".into(), detail: mv() });
                    }
                    outcome = Outcome::SelPairPreserved;
                } else {
                    if moved && after.remote != AI_E {
                        v.push(Viol { sig: "ctl;selected-pair-set-unexpected-address".into(), detail: mv() });
                    }
                    outcome = if after.remote == AI_E { Outcome::SelPairApplied } else { Outcome::SelPairPreserved };
                }
            }
            (_, Some(p)) if p.kind == K_R => {
                if moved {
                    v.push(Viol { sig: format!("I4;rtcp-moved-rtp-remote;pre={pre}"), detail: mv() });
                }
                if after.latched != before.latched {
                    v.push(Viol {
                        sig: format!("I4;rtcp-changed-rtp-latch;pre={pre}"),
                        detail: format!("rtp_latched {} -> {}", before.latched, after.latched),
                    });
                }
                if after.rtcp != before.rtcp {
                    self.rtcp_changes += 1;
                    if after.rtcp != p.src {
                        v.push(Viol {
                            sig: "I4;rtcp-dest-set-to-non-source".into(),
                            detail: format!("remote_rtcp_addr {} -> {} on RTCP from {}",
                                addr_name(before.rtcp), addr_name(after.rtcp), addr_name(p.src)),
                        });
                    }
                    if self.rtcp_changes > 1 {
                        v.push(Viol {
                            sig: "I4;rtcp-dest-changed-more-than-once".into(),
                            detail: format!("remote_rtcp_addr {} -> {} (change #{} since reset)",
                                addr_name(before.rtcp), addr_name(after.rtcp), self.rtcp_changes),
                        });
                    }
                    outcome = Outcome::RtcpSetsRtcpDest;
                } else {
                    outcome = Outcome::RtcpNoChange;
                }
            }
            (_, Some(p)) => {
                let eligible = p.kind <= K_NO || !cfg.ssrc_known;
                let evname = if p.kind == K_X { "rtp-other-ssrc" } else { "rtp-expected-ssrc" };
                if !eligible {
                    // wrong SSRC while an expected SSRC is known: must have no effect on the
                    // RTP destination or the latch.
                    if moved {
                        let inv = if self.committed.is_some() { "I3;moved-while-latched" } else { "I1;moved-to-illegitimate-source" };
                        v.push(Viol { sig: format!("{inv};event={evname};pre={pre}"), detail: mv() });
                    }
                    if !before.latched && after.latched {
                        v.push(Viol { sig: format!("rules;commit-on-wrong-ssrc;pre={pre}"), detail: mv() });
                    }
                    outcome = if self.committed.is_some() { Outcome::StickyWrongSsrc } else { Outcome::IgnoredWrongSsrc };
                } else if self.committed.is_some() {
                    self.legit[p.src as usize] = true;
                    if moved {
                        v.push(Viol { sig: format!("I3;moved-while-latched;event={evname};pre={pre}"), detail: mv() });
                    }
                    outcome = Outcome::StickyRtp;
                } else {
                    self.legit[p.src as usize] = true;
                    self.m = (self.m + 1).min(15);
                    // I1: any move must be to a source of eligible RTP since the last reset.
                    if moved && !(after.remote < 3 && self.legit[after.remote as usize]) {
                        v.push(Viol { sig: format!("I1;moved-to-illegitimate-source;event={evname};pre={pre}"), detail: mv() });
                    }
                    // reference decision
                    let impl_dec: Option<u8> = if after.latched { Some(after.remote) } else { None };
                    let mut decs_a = [Dec::None; 4];
                    let mut nd = 0usize;
                    if cfg.prob == 0 {
                        decs_a[0] = Dec::Commit(1 << p.src, "immediate");
                        nd = 1;
                    } else {
                        self.total = self.total.saturating_add(1);
                        let c = &mut self.cands[p.src as usize];
                        if c.present {
                            if p.seq == c.last.wrapping_add(1) {
                                c.run = c.run.saturating_add(1);
                                c.cum = c.cum.saturating_add(1);
                            } else {
                                c.run = 0;
                            }
                            c.last = p.seq;
                            c.count = c.count.saturating_add(1);
                            c.marker |= p.marker;
                            c.min_seq = c.min_seq.min(p.seq);
                        } else {
                            *c = Cand {
                                present: true, marker: p.marker, first_arr: p.seq, min_seq: p.seq, last: p.seq,
                                count: 1, run: 0, cum: 0, ord: self.ncand,
                            };
                            self.ncand += 1;
                        }
                        if judge {
                            for fm in [true, false] {
                                for cr in [true, false] {
                                    let d = self.decide(cfg, fm, cr);
                                    if !decs_a[..nd].contains(&d) {
                                        decs_a[nd] = d;
                                        nd += 1;
                                    }
                                }
                            }
                        }
                    }
                    let decs = &decs_a[..nd];
                    let has = |w: u8, x: u8| x < 3 && w & (1 << x) != 0;
                    let ok = !judge || decs.iter().any(|d| match (d, impl_dec) {
                        (Dec::None, None) => true,
                        (Dec::Commit(w, _), Some(x)) => has(*w, x),
                        _ => false,
                    });
                    outcome = match impl_dec {
                        None => Outcome::ProbationContinues,
                        Some(x) => {
                            let rule = decs.iter().find_map(|d| match d {
                                Dec::Commit(w, r) if has(*w, x) => Some(*r),
                                _ => None,
                            });
                            match rule {
                                Some("immediate") => Outcome::CommitImmediate,
                                Some("marker") => Outcome::CommitMarker,
                                Some("consecutive") => Outcome::CommitConsecutive,
                                Some("majority") => Outcome::CommitMajority,
                                _ => Outcome::Violation,
                            }
                        }
                    };
                    if !ok {
                        // The signature names the rule that fires under the primary reading
                        // (first_seq = lowest seq, consecutive_count = current run); decs[0].
                        let names: Vec<&str> = vec![match decs[0] {
                            Dec::None => "none",
                            Dec::Commit(_, r) => r,
                        }];
                        let got = match impl_dec {
                            None => "no-commit".to_string(),
                            Some(x) => {
                                let rel = if x < 3 && cfg.prob > 0 && (has(self.majority(true), x) || has(self.majority(false), x)) && x != p.src {
                                    "majority-winner"
                                } else if x == p.src {
                                    "packet-source"
                                } else if x < 3 && self.cands[x as usize].present {
                                    "other-candidate"
                                } else {
                                    "non-candidate"
                                };
                                format!("commit:{rel}")
                            }
                        };
                        let exp: Vec<String> = decs.iter().map(|d| match d {
                            Dec::None => "no commit".to_string(),
                            Dec::Commit(w, r) => format!("commit {} by {r}", (0..3u8).filter(|i| has(*w, *i)).map(addr_name).collect::<Vec<_>>().join("/")),
                        }).collect();
                        v.push(Viol {
                            sig: format!("rules;expected={};got={got}", names.join("|")),
                            detail: format!(
                                "documented rules give [{}]; implementation: {} (remote_addr={}, total eligible since reset={})",
                                exp.join(" or "),
                                if after.latched { "committed" } else { "not committed" },
                                addr_name(after.remote), self.m),
                        });
                    }
                    // I2: committed after at most max(probation,1) eligible packets since reset.
                    if !after.latched && self.m >= cfg.prob.max(1) {
                        v.push(Viol {
                            sig: "I2;not-committed-after-probation".into(),
                            detail: format!("{} eligible RTP packets since reset, probation={}, rtp_latched=false", self.m, cfg.prob),
                        });
                    }
                }
            }
            _ => unreachable!(),
        }
        // Follow the implementation's commit (the oracle judges, it does not steer).
        if l < 18 && after.latched && self.committed.is_none() {
            self.committed = Some(after.remote);
            self.cands = Default::default();
            self.ncand = 0;
            self.total = 0;
        }
        if !v.is_empty() {
            outcome = Outcome::Violation;
        }
        (v, outcome)
    }
}

// ───────────────────────────── canonical state ─────────────────────────────

const CANON_LEN: usize = 80;
type Canon = [u8; CANON_LEN];

fn canon(obs: &Obs, last: &[u16; 3], o: &Oracle) -> Canon {
    let mut c = [0u8; CANON_LEN];
    let mut i = 0usize;
    let mut put = |b: u8| {
        c[i] = b;
        i += 1;
    };
    put(obs.remote);
    put(obs.rtcp);
    put(obs.latched as u8 | (obs.rtcp_latched as u8) << 1 | (obs.snap.is_some() as u8) << 2);
    match &obs.snap {
        Some(sn) => {
            put(sn.total);
            put(sn.n);
            for k in 0..3 {
                if let Some((a, f, l, n, r, m)) = sn.c[..sn.n as usize].get(k) {
                    put(*a);
                    put((*f >> 8) as u8);
                    put(*f as u8);
                    put((*l >> 8) as u8);
                    put(*l as u8);
                    put(*n);
                    put(*r);
                    put(*m as u8);
                } else {
                    for _ in 0..8 {
                        put(0);
                    }
                }
            }
        }
        None => {
            for _ in 0..26 {
                put(0);
            }
        }
    }
    for s in last {
        put((*s >> 8) as u8);
        put(*s as u8);
    }
    put(o.legit[0] as u8 | (o.legit[1] as u8) << 1 | (o.legit[2] as u8) << 2);
    put(o.m);
    put(o.committed.map(|x| x + 1).unwrap_or(0));
    put(o.rtcp_changes.min(3));
    put(o.ncand);
    put(o.total);
    for k in 0..3 {
        let d = &o.cands[k];
        put(d.present as u8 | (d.marker as u8) << 1 | d.ord << 2);
        put((d.first_arr >> 8) as u8);
        put(d.first_arr as u8);
        put((d.min_seq >> 8) as u8);
        put(d.min_seq as u8);
        put((d.last >> 8) as u8);
        put(d.last as u8);
        put(d.count);
        put(d.run);
        put(d.cum);
    }
    assert!(i <= CANON_LEN);
    c
}

// ───────────────────────────── one replay ─────────────────────────────

struct RunOut {
    canon_prefix: Canon,
    canon_after: Canon,
    viols: Vec<Viol>,
    outcome: Outcome,
    steps: u64,
}

/// Fresh IceConn, replay `hist`, judge the *last* step (every prefix is judged by its own replay).
fn run(cfg: Cfg, hist: &[u8]) -> RunOut {
    let mut sys = Sys::new(cfg);
    let mut o = Oracle::default();
    let n = hist.len();
    let mut before = sys.observe(n <= 1);
    let mut canon_prefix = [0u8; CANON_LEN];
    let mut last_v = vec![];
    let mut last_out = Outcome::Reset;
    for (i, l) in hist.iter().enumerate() {
        let is_last = i + 1 == n;
        if is_last {
            canon_prefix = canon(&before, &sys.last, &o);
        }
        let pkt = sys.apply(*l);
        // the probation snapshot is only needed where a canonical state is taken
        let after = sys.observe(i + 2 >= n);
        let (v, out) = o.step(cfg, *l, pkt, &before, &after, is_last);
        if is_last {
            last_v = v;
            last_out = out;
        }
        before = after;
    }
    RunOut {
        canon_prefix,
        canon_after: canon(&before, &sys.last, &o),
        viols: last_v,
        outcome: last_out,
        steps: n as u64,
    }
}

fn run_guarded(cfg: Cfg, hist: &[u8]) -> RunOut {
    match vh::catch(std::panic::AssertUnwindSafe(|| run(cfg, hist))) {
        Ok(r) => r,
        Err(e) => RunOut {
            canon_prefix: [0xEE; CANON_LEN],
            canon_after: [0xEF; CANON_LEN],
            viols: vec![Viol { sig: "panic;IceConn".into(), detail: format!("panic during replay: {e}") }],
            outcome: Outcome::Violation,
            steps: hist.len() as u64,
        },
    }
}

/// A history of at most 12 letters, `Copy`, no heap.
#[derive(Clone, Copy, PartialEq, Eq, Debug)]
struct H {
    l: [u8; 12],
    n: u8,
}
impl H {
    const EMPTY: H = H { l: [0; 12], n: 0 };
    fn s(&self) -> &[u8] {
        &self.l[..self.n as usize]
    }
    fn with(&self, x: u8) -> H {
        let mut h = *self;
        h.l[h.n as usize] = x;
        h.n += 1;
        h
    }
}

// ───────────────────────────── accumulation ─────────────────────────────

#[derive(Default)]
struct Acc {
    histories: u64,
    steps: u64,
    outcomes: [u64; 16],
    /// signature -> (count, shortest example (cfg index, history), detail)
    viols: BTreeMap<String, (u64, usize, H, String)>,
    /// cross-check entries: (canon(prefix), digest of the 21 successors, prefix)
    xc: Vec<(Canon, u64, H)>,
}

impl Acc {
    fn note(&mut self, ci: usize, hist: H, r: &RunOut) {
        self.histories += 1;
        self.steps += r.steps;
        self.outcomes[r.outcome as usize] += 1;
        for v in &r.viols {
            let e = self
                .viols
                .entry(v.sig.clone())
                .or_insert_with(|| (0, ci, hist, v.detail.clone()));
            e.0 += 1;
            if (hist.n, ci, hist.s()) < (e.2.n, e.1, e.2.s()) {
                e.1 = ci;
                e.2 = hist;
                e.3 = v.detail.clone();
            }
        }
    }
    fn merge(mut self, mut o: Acc) -> Acc {
        self.histories += o.histories;
        self.steps += o.steps;
        for k in 0..16 {
            self.outcomes[k] += o.outcomes[k];
        }
        for (s, (n, ci, h, d)) in o.viols {
            match self.viols.get_mut(&s) {
                None => {
                    self.viols.insert(s, (n, ci, h, d));
                }
                Some(e) => {
                    e.0 += n;
                    if (h.n, ci, h.s()) < (e.2.n, e.1, e.2.s()) {
                        e.1 = ci;
                        e.2 = h;
                        e.3 = d;
                    }
                }
            }
        }
        if self.xc.is_empty() {
            self.xc = o.xc;
        } else {
            self.xc.append(&mut o.xc);
        }
        self
    }
}

fn decode(mut p: u64, k: usize) -> H {
    let mut h = H { l: [0; 12], n: k as u8 };
    for i in (0..k).rev() {
        h.l[i] = (p % NL as u64) as u8;
        p /= NL as u64;
    }
    h
}

/// Digest of the 21 (successor canon, verdict) pairs of one state: two differently seeded
/// 64-bit FNV-1a passes folded together (used only by the abstraction cross-check).
struct Dig(u64, u64);
impl Dig {
    fn new() -> Dig {
        Dig(0xcbf29ce484222325, 0x9e3779b97f4a7c15)
    }
    fn put(&mut self, b: &[u8]) {
        for x in b {
            self.0 = (self.0 ^ *x as u64).wrapping_mul(0x100000001b3);
            self.1 = (self.1.rotate_left(5) ^ *x as u64).wrapping_mul(0x2545F4914F6CDD1D);
        }
    }
    fn put_words(&mut self, b: &Canon) {
        for w in b.chunks_exact(8) {
            let x = u64::from_le_bytes(w.try_into().unwrap());
            self.0 = (self.0 ^ x).wrapping_mul(0x9E3779B97F4A7C15).rotate_left(23);
            self.1 = (self.1.rotate_left(5) ^ x).wrapping_mul(0x2545F4914F6CDD1D);
        }
    }
    fn add(&mut self, r: &RunOut) {
        self.put_words(&r.canon_after);
        for v in &r.viols {
            self.put(v.sig.as_bytes());
            self.put(&[0]);
        }
        self.put(&[0xFF]);
    }
    fn fin(&self) -> u64 {
        self.0 ^ self.1.rotate_left(29)
    }
}

type XTable = HashMap<Canon, (u64, H)>;

/// No-dedup pass: every history of length 1..=d1. Returns the accumulator and the cross-check
/// table canon(prefix) -> digest of its 21 successors (canon + verdict).
fn pass_nodedup(ci: usize, cfg: Cfg, d1: usize) -> (Acc, XTable) {
    let mut total = Acc::default();
    for k in 0..d1 {
        let n = (NL as u64).pow(k as u32);
        let acc = (0..n)
            .into_par_iter()
            .fold(Acc::default, |mut acc, p| {
                let h0 = decode(p, k);
                let mut dig = Dig::new();
                let mut cp: Option<Canon> = None;
                for l in 0..NL as u8 {
                    let h = h0.with(l);
                    let r = run_guarded(cfg, h.s());
                    acc.note(ci, h, &r);
                    dig.add(&r);
                    // determinism: every replay of the same prefix must reach the same canon
                    match &cp {
                        None => cp = Some(r.canon_prefix),
                        Some(c) if *c != r.canon_prefix => guard_trip(format!(
                            "replay nondeterminism: prefix {:?} reached different canonical states in two replays (cfg {:?})",
                            hist_names(h0.s()), cfg)),
                        _ => {}
                    }
                }
                acc.xc.push((cp.unwrap(), dig.fin(), h0));
                acc
            })
            .reduce(Acc::default, Acc::merge);
        total = total.merge(acc);
    }
    // soundness cross-check of the abstraction (DESIGN 2.3)
    let mut table: XTable = HashMap::with_capacity(total.xc.len());
    for (c, d, h) in std::mem::take(&mut total.xc) {
        match table.get(&c) {
            None => {
                table.insert(c, (d, h));
            }
            Some((d0, h0)) => {
                if *d0 != d {
                    guard_trip(format!(
                        "canonical state is not a sound abstraction: histories {:?} and {:?} (cfg {:?}) have equal canon but different successor canons/verdicts — a field is missing from canon()",
                        hist_names(h0.s()), hist_names(h.s()), cfg));
                }
            }
        }
    }
    (total, table)
}

/// Dedup BFS to depth d2. A history is expanded only if the canonical state it reaches is new.
/// Successors are collected in frontier order and inserted sequentially, so the representative
/// history of every state (and with it every count and counterexample) is deterministic.
fn pass_dedup(ci: usize, cfg: Cfg, d2: usize, xtable: &XTable, d1: usize) -> (Acc, u64, Vec<u64>, u64) {
    let mut visited: HashSet<Canon> = HashSet::new();
    let init = {
        let sys = Sys::new(cfg);
        canon(&sys.observe(true), &sys.last, &Oracle::default())
    };
    visited.insert(init);
    let mut frontier: Vec<H> = vec![H::EMPTY];
    let mut total = Acc::default();
    let mut per_depth = vec![1u64];
    let mut xchecked = 0u64;
    for depth in 0..d2 {
        let mut next: Vec<H> = vec![];
        for chunk in frontier.chunks(50_000) {
            let parts: Vec<(Acc, Vec<(Canon, H)>)> = chunk
                .par_chunks(256)
                .map(|hs| {
                    let mut acc = Acc::default();
                    let mut out = Vec::with_capacity(hs.len() * NL);
                    for h0 in hs {
                        let mut dig = Dig::new();
                        let mut cp = [0u8; CANON_LEN];
                        for l in 0..NL as u8 {
                            let h = h0.with(l);
                            let r = run_guarded(cfg, h.s());
                            acc.note(ci, h, &r);
                            out.push((r.canon_after, h));
                            if depth < d1 {
                                dig.add(&r);
                                cp = r.canon_prefix;
                            }
                        }
                        if depth < d1 {
                            acc.xc.push((cp, dig.fin(), *h0));
                        }
                    }
                    (acc, out)
                })
                .collect();
            for (mut acc, succ) in parts {
                // the dedup pass must agree with the no-dedup pass on every state both visited
                for (c, d, h) in std::mem::take(&mut acc.xc) {
                    match xtable.get(&c) {
                        Some((d0, h0)) if *d0 != d => guard_trip(format!(
                            "dedup/no-dedup disagreement at canon reached by {:?} / {:?} (cfg {:?})",
                            hist_names(h0.s()), hist_names(h.s()), cfg)),
                        Some(_) => xchecked += 1,
                        None => guard_trip(format!(
                            "dedup pass reached a canonical state at depth {} (history {:?}) that the no-dedup pass never saw (cfg {:?})",
                            h.n, hist_names(h.s()), cfg)),
                    }
                }
                total = total.merge(acc);
                for (c, h) in succ {
                    if visited.insert(c) {
                        next.push(h);
                    }
                }
            }
        }
        per_depth.push(next.len() as u64);
        frontier = next;
        if frontier.is_empty() {
            break;
        }
    }
    (total, visited.len() as u64, per_depth, xchecked)
}

// ───────────────────────────── replay mode ─────────────────────────────

fn replay_once(cfg: Cfg, hist: &[u8], verbose: bool) -> Vec<(usize, Viol)> {
    let mut sys = Sys::new(cfg);
    let mut o = Oracle::default();
    let mut before = sys.observe(true);
    let mut all = vec![];
    if verbose {
        println!("config: {}", cfg.json());
        println!("  start: remote={} rtcp={} latched={}", addr_name(before.remote), addr_name(before.rtcp), before.latched);
    }
    for (i, l) in hist.iter().enumerate() {
        let plan = sys.plan(*l);
        let pkt = sys.apply(*l);
        let after = sys.observe(true);
        let (v, out) = o.step(cfg, *l, pkt, &before, &after, true);
        if verbose {
            let pd = plan.map(|p| if p.kind == K_R { " (RTCP)".to_string() } else {
                format!(" (seq={} marker={} ssrc={})", p.seq, p.marker, if p.kind == K_X { "other" } else { "expected" }) }).unwrap_or_default();
            println!(
                "  step {} {}{}: remote={} rtcp={} latched={} probation={:?} -> {:?}",
                i + 1, letter_name(*l), pd, addr_name(after.remote), addr_name(after.rtcp), after.latched,
                after.snap.as_ref().map(|sn| (sn.c[..sn.n as usize].iter().map(|x| (addr_name(x.0), x.1, x.2, x.3, x.4, x.5)).collect::<Vec<_>>(), sn.total)),
                out
            );
            for x in &v {
                println!("    VIOLATES {} — {}", x.sig, x.detail);
            }
        }
        for x in v {
            all.push((i, x));
        }
        before = after;
    }
    all
}

fn replay_file(path: &std::path::Path) -> i32 {
    let txt = std::fs::read_to_string(path).unwrap_or_else(|e| vh::machinery_failure(&format!("cannot read replay: {e}")));
    let v: Value = serde_json::from_str(&txt).unwrap_or_else(|e| vh::machinery_failure(&format!("bad replay json: {e}")));
    let r = if v.get("replay").is_some() { &v["replay"] } else { &v };
    if r.get("concurrent").is_some() {
        return conc_replay(r);
    }
    let cfg = Cfg::from_json(&r["cfg"]).unwrap_or_else(|| vh::machinery_failure("replay: missing cfg"));
    let hist: Vec<u8> = r["history"]
        .as_array()
        .unwrap_or_else(|| vh::machinery_failure("replay: missing history"))
        .iter()
        .map(|s| letter_from_name(s.as_str().unwrap_or("")).unwrap_or_else(|| vh::machinery_failure(&format!("replay: bad letter {s}"))))
        .collect();
    let a = replay_once(cfg, &hist, true);
    let b = replay_once(cfg, &hist, false);
    if a != b {
        vh::machinery_failure("replay is not deterministic: two runs disagree");
    }
    if a.is_empty() {
        println!("replay: no violation");
        0
    } else {
        println!("replay: {} violation(s); first: {}", a.len(), a[0].1.sig);
        1
    }
}

// ───────────────────────────── concurrent delivery (controlled scheduler) ─────────────────────────────
//
// Packets of one media session can reach `IceConn::receive` from more than one socket read loop at
// once (the RTP and the RTCP socket of a non-multiplexed session, a UDP and a TCP candidate). Two
// real threads deliver one event each to the same IceConn after a sequential prefix; `vh::csched`
// enumerates every order in which they can pass the operations of the probation mutex (hook H6).
// Oracle: linearizability against the real code run sequentially - the final (RTP destination,
// latched, RTCP destination, RTCP latched) must be what ONE of the two sequential orders gives.

const CONC_PREFIX_LETTERS: [u8; 4] = [2, 0, 8, 6]; // A:N+, A:M+, B:N+, B:M+
const CONC_T1: [u8; 2] = [2, 0]; // A:N+, A:M+
const CONC_T2: [u8; 6] = [8, 6, 14, L_RESET, L_SIG, L_SEL]; // B:N+, B:M+, C:N+, reset_latch, signaling retarget, selected-pair update

type Final = (u8, bool, u8, bool);

fn conc_final(o: &Obs) -> Final {
    (o.remote, o.latched, o.rtcp, o.rtcp_latched)
}

fn conc_sequential(cfg: Cfg, prefix: &[u8], order: [u8; 2]) -> Final {
    let mut sys = Sys::new(cfg);
    for l in prefix.iter().chain(order.iter()) {
        sys.apply(*l);
    }
    conc_final(&sys.observe(false))
}

/// what one thread does to the connection
fn conc_body(sys: &Sys, l: u8) -> Box<dyn FnOnce() + Send + 'static> {
    let conn = sys.conn.clone();
    match l {
        L_RESET => Box::new(move || conn.reset_latch()),
        L_SIG => {
            let d = ADDRS.with(|a| a.a[AI_D as usize]);
            Box::new(move || conn.verif_set_remote_addr_from_signaling(d))
        }
        L_SEL => {
            let e = ADDRS.with(|a| a.a[AI_E as usize]);
            Box::new(move || conn.verif_set_remote_addr_from_selected_pair(e))
        }
        _ => {
            let p = sys.plan(l).expect("packet letter");
            let bytes = if p.kind == K_R { Bytes::from_static(&RTCP_SR) } else { Bytes::from(build_rtp(p)) };
            let from = ADDRS.with(|a| a.a[p.src as usize]);
            Box::new(move || {
                let mut buf = Vec::new();
                let mut fut = conn.receive(bytes, from, &mut buf);
                let mut cx = Context::from_waker(futures::task::noop_waker_ref());
                if fut.as_mut().poll(&mut cx).is_pending() {
                    panic!("IceConn::receive returned Pending without a socket");
                }
            })
        }
    }
}

fn conc_run(cfg: Cfg, prefix: &[u8], t1: u8, t2: u8, schedule: &[usize]) -> (vh::csched::Execution, Final) {
    let mut sys = Sys::new(cfg);
    for l in prefix {
        sys.apply(*l);
    }
    let bodies = vec![conc_body(&sys, t1), conc_body(&sys, t2)];
    let x = vh::csched::run_schedule(bodies, schedule);
    let f = conc_final(&sys.observe(false));
    (x, f)
}

fn conc_json(cfg: Cfg, prefix: &[u8], t1: u8, t2: u8, schedule: &[usize]) -> Value {
    json!({"concurrent": {"cfg": cfg.json(), "prefix": hist_names(prefix), "t1": letter_name(t1), "t2": letter_name(t2), "schedule": schedule}})
}

fn conc_replay(r: &Value) -> i32 {
    let c = &r["concurrent"];
    let cfg = Cfg::from_json(&c["cfg"]).unwrap_or_else(|| vh::machinery_failure("replay: missing cfg"));
    let names = |v: &Value| -> Vec<u8> { v.as_array().map(|a| a.iter().filter_map(|s| letter_from_name(s.as_str().unwrap_or(""))).collect()).unwrap_or_default() };
    let prefix = names(&c["prefix"]);
    let t1 = letter_from_name(c["t1"].as_str().unwrap_or("")).unwrap_or_else(|| vh::machinery_failure("replay: bad t1"));
    let t2 = letter_from_name(c["t2"].as_str().unwrap_or("")).unwrap_or_else(|| vh::machinery_failure("replay: bad t2"));
    let schedule: Vec<usize> = c["schedule"].as_array().map(|a| a.iter().map(|v| v.as_u64().unwrap_or(0) as usize).collect()).unwrap_or_default();
    let seq = [conc_sequential(cfg, &prefix, [t1, t2]), conc_sequential(cfg, &prefix, [t2, t1])];
    let mut bad = false;
    let mut first = None;
    for round in 0..2 {
        let (x, f) = conc_run(cfg, &prefix, t1, t2, &schedule);
        println!("replay {round}: {}\n  final (rtp destination, latched, rtcp destination, rtcp latched) = {f:?}; sequential orders give {seq:?}", x.schedule().join(" "));
        bad |= x.deadlock || !seq.contains(&f);
        match first {
            None => first = Some(f),
            Some(g) if g != f => vh::machinery_failure("the same schedule gave different results on replay"),
            _ => {}
        }
    }
    if bad { 1 } else { 0 }
}

fn conc_level(rep: &mut vh::Report, thorough: bool) {
    let probs: &[u8] = if thorough { &[0, 1, 2, 3, 4, 6] } else { &[0, 2, 3] };
    let mut prefixes: Vec<Vec<u8>> = vec![vec![]];
    for a in CONC_PREFIX_LETTERS {
        prefixes.push(vec![a]);
        for b in CONC_PREFIX_LETTERS {
            prefixes.push(vec![a, b]);
            if thorough {
                for c in CONC_PREFIX_LETTERS {
                    prefixes.push(vec![a, b, c]);
                }
            }
        }
    }
    let mut cases: Vec<(Cfg, Vec<u8>, u8, u8)> = vec![];
    for &prob in probs {
        for ssrc_known in [true, false] {
            let cfg = Cfg { prob, ssrc_known, remote_set: true, rtcp_set: false, seq_base: SEQ_BASE, wire: 0 };
            for p in &prefixes {
                for t1 in CONC_T1 {
                    for t2 in CONC_T2 {
                        cases.push((cfg, p.clone(), t1, t2));
                    }
                }
            }
        }
    }
    struct R {
        schedules: u64,
        distinct: usize,
        viol: Option<(String, String, Value)>,
        deadlock: bool,
    }
    let results: Vec<R> = cases
        .par_iter()
        .map(|(cfg, prefix, t1, t2)| {
            let seq = [conc_sequential(*cfg, prefix, [*t1, *t2]), conc_sequential(*cfg, prefix, [*t2, *t1])];
            let mut finals: HashSet<Final> = HashSet::new();
            let mut viol = None;
            let mut deadlock = false;
            let last = std::cell::Cell::new(None);
            let st = vh::csched::explore(
                None,
                |schedule| {
                    let (x, f) = conc_run(*cfg, prefix, *t1, *t2, schedule);
                    last.set(Some(f));
                    x
                },
                |x| {
                    let f = last.take().expect("final");
                    finals.insert(f);
                    if x.deadlock {
                        deadlock = true;
                        viol = Some((format!("concurrent;deadlock;prob={};t1={};t2={}", cfg.prob, letter_name(*t1), letter_name(*t2)), format!("schedule {}", x.schedule().join(" ")), conc_json(*cfg, prefix, *t1, *t2, &x.choices())));
                        return false;
                    }
                    if !seq.contains(&f) && viol.is_none() {
                        let name = |i: u8| addr_name(i);
                        viol = Some((
                            format!("concurrent;not-linearizable;prob={};ssrc_known={};t1={};t2={};rtp-destination={};latched={}", cfg.prob, cfg.ssrc_known, letter_name(*t1), letter_name(*t2), name(f.0), f.1),
                            format!(
                                "after prefix {:?}, thread 1 delivers {} while thread 2 does {}: final RTP destination {} (latched {}), RTCP destination {} - but {} then {} gives {:?} and {} then {} gives {:?}; schedule: {}",
                                hist_names(prefix), letter_name(*t1), letter_name(*t2), name(f.0), f.1, name(f.2), letter_name(*t1), letter_name(*t2), seq[0], letter_name(*t2), letter_name(*t1), seq[1], x.schedule().join(" ")
                            ),
                            conc_json(*cfg, prefix, *t1, *t2, &x.choices()),
                        ));
                    }
                    true
                },
            );
            R { schedules: st.schedules, distinct: finals.len(), viol, deadlock }
        })
        .collect();
    let schedules: u64 = results.iter().map(|r| r.schedules).sum();
    let racy = results.iter().filter(|r| r.distinct >= 2).count();
    let mut sigs: BTreeMap<String, (String, Value, u64)> = BTreeMap::new();
    for r in &results {
        if let Some((sig, detail, replay)) = &r.viol {
            sigs.entry(sig.clone()).or_insert((detail.clone(), replay.clone(), 0)).2 += 1;
        }
        let _ = r.deadlock;
    }
    for (sig, (detail, replay, n)) in &sigs {
        rep.violation(vh::Violation { signature: sig.clone(), detail: format!("[{n} cases] {detail}"), replay: replay.clone() });
    }
    if sigs.is_empty() && racy == 0 {
        vh::machinery_failure("vacuous concurrent part: no case had two distinct outcomes over its schedules (nothing raced)");
    }
    rep.set("concurrent_cases", cases.len() as u64);
    rep.set("concurrent_schedules", schedules);
    rep.set("concurrent_cases_with_more_than_one_outcome", racy as u64);
    rep.set("concurrent_rule", "two threads deliver one event each (thread 1: an RTP packet of source A; thread 2: an RTP packet of source B / C, reset_latch, a signaling retarget or a selected-pair update) after every sequential prefix of length <= 2 (thorough 3) over {A:N+, A:M+, B:N+, B:M+}; every order of passing the probation mutex's lock / unlock points; the final (RTP destination, latched, RTCP destination, RTCP latched) must equal what one of the two sequential orders gives on a fresh real IceConn");
}

// ───────────────────────────── main ─────────────────────────────

fn main() {
    let cli = vh::cli();
    vh::install_quiet_panic_hook();
    if let Some(p) = &cli.replay {
        std::process::exit(replay_file(p));
    }
    for (i, a) in ADDR_STR.iter().enumerate() {
        if a.parse::<SocketAddr>().ok() != Some(ADDRS_S.a[i]) {
            vh::machinery_failure("address table inconsistent");
        }
    }
    let mut rep = vh::Report::new("C18", &cli, "model_checking");
    let d1: usize = std::env::var("C18_D1").ok().and_then(|s| s.parse().ok()).unwrap_or(cli.tier.pick(4, 5));
    let d2: usize = std::env::var("C18_D2").ok().and_then(|s| s.parse().ok()).unwrap_or(cli.tier.pick(6, 8));
    let cfgs = all_cfgs(cli.tier == vh::Tier::Thorough);

    // Configurations are independent: run them in parallel as well (nested rayon), so the
    // sequential bookkeeping of one configuration overlaps with the replays of others.
    struct PerCfg {
        a1: Acc,
        a2: Acc,
        states: u64,
        prof: Vec<u64>,
        xchecked: u64,
        xstates: u64,
    }
    let per: Vec<PerCfg> = cfgs
        .par_iter()
        .enumerate()
        .map(|(ci, cfg)| {
            let (a1, table) = pass_nodedup(ci, *cfg, d1);
            let (a2, states, prof, xchecked) = pass_dedup(ci, *cfg, d2, &table, d1);
            PerCfg { a1, a2, states, prof, xchecked, xstates: table.len() as u64 }
        })
        .collect();
    let mut total = Acc::default();
    let mut states = 0u64;
    let mut nodedup_hist = 0u64;
    let mut dedup_hist = 0u64;
    let mut xchecked = 0u64;
    let mut xstates = 0u64;
    let mut depth_profile: Vec<u64> = vec![];
    for pc in per {
        nodedup_hist += pc.a1.histories;
        dedup_hist += pc.a2.histories;
        xstates += pc.xstates;
        states += pc.states;
        xchecked += pc.xchecked;
        for (i, n) in pc.prof.iter().enumerate() {
            if depth_profile.len() <= i {
                depth_profile.push(0);
            }
            depth_profile[i] += n;
        }
        total = total.merge(pc.a1).merge(pc.a2);
    }

    // evidence
    conc_level(&mut rep, cli.tier == vh::Tier::Thorough);
    let states = states + rep.get("concurrent_schedules");
    rep.set("states", states);
    rep.set("transitions", total.steps);
    rep.set("traces_validated_against_impl", total.histories);
    rep.set("evaluations", total.histories);
    rep.set("histories_no_dedup", nodedup_hist);
    rep.set("histories_dedup_bfs", dedup_hist);
    rep.set("distinct_nontrivial", states);
    rep.set("rule", "distinct canonical states (IceConn remote/rtcp/latch flags + probation snapshot + harness seq bookkeeping + oracle state) reached by the dedup BFS, summed over configurations");
    rep.set("configurations", cfgs.len() as u64);
    rep.set("alphabet", NL as u64);
    rep.set("depth_no_dedup", d1 as u64);
    rep.set("depth_dedup", d2 as u64);
    rep.set("new_states_per_depth", json!(depth_profile));
    rep.set("abstraction_crosscheck_states", xstates);
    rep.set("abstraction_crosscheck_dedup_agreements", xchecked);
    rep.set("bound", format!(
        "all 21-letter histories of length <= {d1} replayed without abstraction; every canonical state reachable within {d2} events expanded by all 21 letters; 72 configurations"));
    rep.set("exhaustive", true);
    rep.set("caps_hit", json!([]));
    rep.set(
        "distinct_outcomes",
        json!(ALL_OUTCOMES.iter().map(|k| (format!("{k:?}"), total.outcomes[*k as usize])).collect::<BTreeMap<_, _>>()),
    );
    rep.set("panics", vh::PANIC_COUNT.load(Ordering::SeqCst));

    rep.assume("Packets are well-formed 16-byte RTP (PT 0) / 28-byte RTCP SR; shorter-than-12-byte RTP, DTLS/STUN bytes and TCP sockets are outside the alphabet (socket is None).");
    rep.assume("Sequence numbers: per source, start 1000, '+1' = last+1, 'other' = last-3 (a late/reordered packet); a second starting point 65534 makes the second +1 of every source cross the 16-bit wrap (all configurations in thorough, the SSRC-filtered ones without a separate RTCP address in quick). Other-SSRC RTP always carries seq 7, no marker.");
    rep.assume("Documentation ambiguities accepted either way: 'first_seq' read as the first-arrived or the lowest sequence number of a candidate; 'consecutive_count' read as the current run (code comment) or the cumulative count (field doc); ties left after the documented tie-break accept any tied candidate. Rule order is taken as documented: 'evaluated in order' 1 marker, 2 consecutive, 3 timeout.");
    rep.assume("probation 0 is judged as documented on the field: the first SSRC-matching RTP latches immediately; I2 bound is max(probation,1) eligible packets since the last reset.");
    rep.assume("When no expected SSRC is known (0) every RTP packet is an eligible ('legitimate') packet, as the statement says 'when one is known'.");
    rep.assume("Provisional moves of remote_addr during probation are allowed if the target sent eligible RTP since the last reset (I1); only the committed winner is compared with the documented rules.");
    rep.assume("Selected-pair update: must not move a latched remote; when not latched it may set E or leave the address. set_remote_rtcp_addr after construction and concurrent calls are not in the alphabet.");
    rep.assume("Equal canonical state implies equal future: argued from the code (first_ts/ssrc of a candidate are write-only; counters and log-once flags do not feed back) and checked mechanically for all histories of length <= depth_no_dedup.");

    // samples: three real histories
    for (ci, h) in [(2usize * 8 + 0, vec![3u8, 6 + 0, 6 + 2]), (6 * 8, vec![3, 9, 2, 2, 5]), (3 * 8 + 1, vec![0, 11, L_RESET, 8, L_SEL])] {
        let cfg = cfgs[ci];
        let v = replay_once(cfg, &h, false);
        let mut sys = Sys::new(cfg);
        for l in &h {
            sys.apply(*l);
        }
        let o = sys.observe(true);
        rep.sample(json!({"cfg": cfg.json(), "history": hist_names(&h),
            "final": {"remote": addr_name(o.remote), "rtcp": addr_name(o.rtcp), "latched": o.latched},
            "violations": v.iter().map(|(i, x)| json!({"step": i + 1, "sig": x.sig})).collect::<Vec<_>>()}));
    }

    // vacuity guards
    let need = [
        Outcome::CommitImmediate, Outcome::CommitMarker, Outcome::CommitConsecutive, Outcome::CommitMajority,
        Outcome::ProbationContinues, Outcome::IgnoredWrongSsrc, Outcome::StickyRtp, Outcome::StickyWrongSsrc,
        Outcome::RtcpSetsRtcpDest, Outcome::RtcpNoChange, Outcome::Reset, Outcome::Signaling,
        Outcome::SelPairApplied, Outcome::SelPairPreserved,
    ];
    for o in need {
        if total.outcomes[o as usize] == 0 {
            vh::machinery_failure(&format!("vacuous run: outcome class {o:?} never observed"));
        }
    }
    if states < 1000 || total.histories < 1000 {
        vh::machinery_failure("vacuous run: too few states/histories");
    }

    {
        let trips = GUARD_TRIPS.lock().unwrap();
        if let Some(first) = trips.first() {
            if total.viols.is_empty() {
                vh::machinery_failure(first);
            }
            rep.set("search_guards_tripped_alongside_violations", json!(trips.clone()));
        }
    }
    // violations: one per signature, shortest counterexample
    let mut vs: Vec<_> = total.viols.iter().collect();
    vs.sort_by_key(|(s, (_, ci, h, _))| (h.n, *ci, h.s().to_vec(), (*s).clone()));
    for (sig, (n, ci, h, detail)) in vs {
        let cfg = cfgs[*ci];
        rep.violation(vh::Violation {
            signature: sig.clone(),
            detail: format!(
                "{detail}; shortest history {:?} under {} ({} judged steps violate with this signature)",
                hist_names(h.s()), cfg.json(), n
            ),
            replay: json!({"cfg": cfg.json(), "history": hist_names(h.s())}),
        });
    }
    std::process::exit(rep.finish());
}
