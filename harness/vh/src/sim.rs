//! E2: deterministic two-endpoint simulator. Two real endpoints (IceConn -> DtlsTransport ->
//! SctpTransport + DataChannels) on an in-memory network (hook H1), single-threaded tokio
//! runtime with paused virtual time and a seeded select! RNG. The harness owns delivery order,
//! loss, duplication, delay and time.
use crate::wire;
use bytes::Bytes;
use parking_lot::Mutex;
use rustrtc::transports::PacketReceiver;
use rustrtc::transports::datachannel::{DataChannel, DataChannelConfig, DataChannelEvent};
use rustrtc::transports::dtls::{self, DtlsState, DtlsTransport, SessionCrypto};
use rustrtc::transports::ice::IceSocketWrapper;
use rustrtc::transports::ice::conn::IceConn;
use rustrtc::transports::sctp::SctpTransport;
use rustrtc::verif::{VerifDatagram, VerifSocket};
use rustrtc::RtcConfiguration;
use std::net::SocketAddr;
use std::sync::Arc;
use std::time::Duration;
use tokio::sync::{mpsc, watch};

pub const ADDR_A: &str = "10.0.0.1:5000";
pub const ADDR_B: &str = "10.0.0.2:5000";
pub const ADDR_X: &str = "10.6.6.6:6666"; // a stranger

pub fn addr(s: &str) -> SocketAddr {
    s.parse().unwrap()
}

#[derive(Clone, Copy, Debug, PartialEq, Eq, Hash, PartialOrd, Ord)]
pub enum Side {
    A, // DTLS client, SCTP client (sends INIT)
    B,
}
impl Side {
    pub fn other(self) -> Side {
        match self {
            Side::A => Side::B,
            Side::B => Side::A,
        }
    }
    pub fn name(self) -> &'static str {
        match self {
            Side::A => "A",
            Side::B => "B",
        }
    }
}

pub struct End {
    pub side: Side,
    pub local: SocketAddr,
    pub conn: Arc<IceConn>,
    pub dtls: Arc<DtlsTransport>,
    pub sctp: Option<Arc<SctpTransport>>,
    pub channels: Arc<Mutex<Vec<std::sync::Weak<DataChannel>>>>,
    pub dcs: Vec<Arc<DataChannel>>,
    pub new_dc_rx: Option<mpsc::UnboundedReceiver<Arc<DataChannel>>>,
    /// application-data receiver when no SCTP layer is attached (DTLS-only systems)
    pub app_rx: Option<mpsc::UnboundedReceiver<Bytes>>,
    pub _keep: watch::Sender<Option<IceSocketWrapper>>,
    pub tasks: Vec<tokio::task::JoinHandle<()>>,
    pub cert_fingerprint: String,
}

#[derive(Clone)]
pub struct EndCfg {
    pub with_sctp: bool,
    pub channels: Vec<(u16, DataChannelConfig)>,
    pub expected_fingerprint: Option<String>,
    pub rtc: RtcConfiguration,
}

pub fn default_rtc() -> RtcConfiguration {
    let mut c = RtcConfiguration::default();
    c.sctp_rto_initial = Duration::from_millis(200);
    c.sctp_rto_min = Duration::from_millis(200);
    c
}

pub struct Certs {
    pub a: dtls::Certificate,
    pub b: dtls::Certificate,
    pub x: dtls::Certificate,
}

/// Certificates are generated once per process (P-256 keygen + rcgen are the slow part and
/// their values do not steer control flow).
pub fn certs() -> &'static Certs {
    static C: std::sync::OnceLock<Certs> = std::sync::OnceLock::new();
    C.get_or_init(|| Certs {
        a: dtls::generate_certificate().unwrap(),
        b: dtls::generate_certificate().unwrap(),
        x: dtls::generate_certificate().unwrap(),
    })
}

pub type NetTx = mpsc::UnboundedSender<VerifDatagram>;
pub type NetRx = mpsc::UnboundedReceiver<VerifDatagram>;

pub async fn mk_end(side: Side, cert: dtls::Certificate, net_tx: NetTx, cfg: &EndCfg) -> End {
    let (local, remote) = match side {
        Side::A => (addr(ADDR_A), addr(ADDR_B)),
        Side::B => (addr(ADDR_B), addr(ADDR_A)),
    };
    mk_end_at(side, local, remote, side == Side::A, cert, net_tx, cfg).await
}

/// An endpoint at explicit addresses and with an explicit DTLS role (used for attacker endpoints).
pub async fn mk_end_at(side: Side, local: SocketAddr, remote: SocketAddr, is_client: bool, cert: dtls::Certificate, net_tx: NetTx, cfg: &EndCfg) -> End {
    let sock = IceSocketWrapper::Verif(Arc::new(VerifSocket { local, tx: net_tx }));
    let (stx, srx) = watch::channel(Some(sock));
    let conn = IceConn::new(srx, remote, None);
    let fp = dtls::fingerprint(&cert);
    let (dtls_t, incoming, runner) =
        DtlsTransport::new(conn.clone(), cert, is_client, 100, cfg.expected_fingerprint.clone())
            .await
            .unwrap();
    let mut tasks = vec![tokio::spawn(runner)];
    let channels = Arc::new(Mutex::new(Vec::new()));
    let mut dcs = vec![];
    for (id, c) in &cfg.channels {
        let dc = Arc::new(DataChannel::new(*id, c.clone()));
        channels.lock().push(Arc::downgrade(&dc));
        dcs.push(dc);
    }
    let (sctp, new_dc_rx, app_rx) = if cfg.with_sctp {
        let (ndtx, ndrx) = mpsc::unbounded_channel();
        let (sctp, runner) = SctpTransport::new(
            dtls_t.clone(),
            incoming,
            channels.clone(),
            5000,
            5000,
            Some(ndtx),
            is_client,
            &cfg.rtc,
        );
        tasks.push(tokio::spawn(runner));
        (Some(sctp), Some(ndrx), None)
    } else {
        (None, None, Some(incoming))
    };
    End {
        side,
        local,
        conn,
        dtls: dtls_t,
        sctp,
        channels,
        dcs,
        new_dc_rx,
        app_rx,
        _keep: stx,
        tasks,
        cert_fingerprint: fp,
    }
}

pub fn crypto_of(e: &End) -> Option<Arc<SessionCrypto>> {
    match e.dtls.get_state() {
        DtlsState::Connected(c, _) => Some(c),
        _ => None,
    }
}

pub fn state_name(s: &DtlsState) -> &'static str {
    match s {
        DtlsState::New => "New",
        DtlsState::Handshaking => "Handshaking",
        DtlsState::Connected(_, _) => "Connected",
        DtlsState::Failed => "Failed",
        DtlsState::Closed => "Closed",
    }
}

/// A datagram in flight, with the harness's semantic label.
#[derive(Clone, Debug)]
pub struct Dgram {
    pub data: Vec<u8>,
    pub from: SocketAddr,
    pub to: SocketAddr,
}

impl Dgram {
    pub fn dest_side(&self) -> Option<Side> {
        if self.to == addr(ADDR_A) {
            Some(Side::A)
        } else if self.to == addr(ADDR_B) {
            Some(Side::B)
        } else {
            None
        }
    }
    pub fn src_side(&self) -> Option<Side> {
        if self.from == addr(ADDR_A) {
            Some(Side::A)
        } else if self.from == addr(ADDR_B) {
            Some(Side::B)
        } else {
            None
        }
    }
}

/// Decrypt the application records of a datagram sent by `sender` and parse them as SCTP.
pub fn sctp_of(d: &[u8], sender: Side, crypto: &SessionCrypto) -> Vec<(wire::Rec, Option<Vec<u8>>)> {
    let (cipher, iv) = match sender {
        Side::A => (&crypto.client_write_cipher, &crypto.keys.client_write_iv),
        Side::B => (&crypto.server_write_cipher, &crypto.keys.server_write_iv),
    };
    wire::dtls_records(d)
        .into_iter()
        .map(|r| {
            let p = if r.epoch >= 1 && r.ctype == 23 {
                wire::dtls_open(cipher, iv, r.ctype, r.epoch, r.seq, &r.body)
            } else {
                None
            };
            (r, p)
        })
        .collect()
}

/// Full label: DTLS record types, and for decryptable application records the SCTP chunk list.
pub fn label(d: &Dgram, crypto: Option<&SessionCrypto>) -> String {
    let src = d.src_side().map(|s| s.name()).unwrap_or("X");
    let base = wire::dtls_label(&d.data);
    if let (Some(c), Some(s)) = (crypto, d.src_side()) {
        let mut parts = vec![];
        for (_r, p) in sctp_of(&d.data, s, c) {
            if let Some(p) = p {
                if let Some(pk) = wire::parse_sctp(&p) {
                    parts.push(wire::sctp_label(&pk));
                }
            }
        }
        if !parts.is_empty() {
            return format!("{src}:{}", parts.join("|"));
        }
    }
    format!("{src}:{base}")
}

pub fn runtime(seed: u64) -> tokio::runtime::Runtime {
    let mut sb = [0u8; 8];
    sb.copy_from_slice(&seed.to_le_bytes());
    tokio::runtime::Builder::new_current_thread()
        .enable_all()
        .start_paused(true)
        .rng_seed(tokio::runtime::RngSeed::from_bytes(&sb))
        .build()
        .unwrap()
}

/// Run `f` on a fresh deterministic runtime under a real-time watchdog. Returns None if the
/// watchdog fired (the history is then reported as LIVELOCK by the caller).
pub fn run_with_watchdog<T: Send + 'static>(
    seed: u64,
    wall_cap: Duration,
    f: impl FnOnce() -> std::pin::Pin<Box<dyn std::future::Future<Output = T>>> + Send + 'static,
) -> Option<T> {
    let (tx, rx) = std::sync::mpsc::channel();
    let h = std::thread::Builder::new()
        .stack_size(8 << 20)
        .spawn(move || {
            let rt = runtime(seed);
            let out = rt.block_on(f());
            // drop all tasks before reporting
            drop(rt);
            let _ = tx.send(out);
        })
        .unwrap();
    match rx.recv_timeout(wall_cap) {
        Ok(v) => {
            let _ = h.join();
            Some(v)
        }
        Err(_) => None, // thread is leaked deliberately; the process exits soon after reporting
    }
}

/// Deliver one datagram to the endpoint that owns the destination address.
pub async fn deliver(a: &End, b: &End, d: &Dgram, buf: &mut Vec<u8>) {
    let target = match d.dest_side() {
        Some(Side::A) => a,
        Some(Side::B) => b,
        None => return,
    };
    target.conn.receive(Bytes::from(d.data.clone()), d.from, buf).await;
}

// ------------------------------------------------------------------ fault alphabet

#[derive(Clone, Copy, Debug, PartialEq, Eq, Hash, PartialOrd, Ord)]
pub enum Fault {
    None,
    Drop,
    DupNow,
    /// k extra copies delivered back to back (a duplicating path element)
    DupMany(u8),
    /// second copy after k further deliveries to the same side
    DupLate(u8),
    /// hold the datagram until k later datagrams were delivered to the same side
    Delay(u8),
    /// burst loss: this datagram and the next k-1 datagrams from the same sender are lost
    DropBurst(u8),
}

impl Fault {
    pub fn name(&self) -> String {
        match self {
            Fault::None => "none".into(),
            Fault::Drop => "drop".into(),
            Fault::DupNow => "dup".into(),
            Fault::DupMany(k) => format!("dupx{k}"),
            Fault::DupLate(k) => format!("duplate{k}"),
            Fault::Delay(k) => format!("delay{k}"),
            Fault::DropBurst(k) => format!("dropburst{k}"),
        }
    }
}

/// Holds datagrams that are to be delivered later (Delay / DupLate), per destination side.
#[derive(Default)]
pub struct Held {
    pub items: Vec<(Side, u32, Dgram)>, // (dest side, remaining deliveries, datagram)
}

impl Held {
    pub fn hold(&mut self, side: Side, k: u8, d: Dgram) {
        self.items.push((side, k as u32, d));
    }
    /// One datagram was delivered to `side`: returns the held datagrams that are now due.
    pub fn tick(&mut self, side: Side) -> Vec<Dgram> {
        let mut due = vec![];
        let mut rest = vec![];
        for (s, k, d) in self.items.drain(..) {
            if s == side {
                if k <= 1 {
                    due.push(d);
                } else {
                    rest.push((s, k - 1, d));
                }
            } else {
                rest.push((s, k, d));
            }
        }
        self.items = rest;
        due
    }
    pub fn flush(&mut self) -> Vec<Dgram> {
        self.items.drain(..).map(|(_, _, d)| d).collect()
    }
    pub fn is_empty(&self) -> bool {
        self.items.is_empty()
    }
}

/// Receive the next datagram from the network, or None when `idle` of virtual time passes.
pub async fn next_dgram(net_rx: &mut NetRx, idle: Duration) -> Option<Dgram> {
    match tokio::time::timeout(idle, net_rx.recv()).await {
        Ok(Some((data, from, to))) => Some(Dgram { data, from, to }),
        _ => None,
    }
}

/// Collect everything currently readable from a data channel without blocking.
pub async fn drain_events(dc: &Arc<DataChannel>, out: &mut Vec<DataChannelEvent>, closed: &mut bool) {
    loop {
        match tokio::time::timeout(Duration::from_millis(0), dc.recv()).await {
            Ok(Some(ev)) => out.push(ev),
            Ok(None) => {
                *closed = true;
                break;
            }
            Err(_) => break,
        }
    }
}

pub fn ev_name(e: &DataChannelEvent) -> String {
    match e {
        DataChannelEvent::Open => "Open".into(),
        DataChannelEvent::Close => "Close".into(),
        DataChannelEvent::Message(m) => format!("Msg[{}]", m.len()),
    }
}
