//! Shared runner for C01 / C12 / C13: one history = one deterministic execution of two real
//! endpoints (DTLS + SCTP + data channels) with a workload of messages and a fault chooser
//! deciding the fate of every post-handshake datagram.
use crate::explore::Chooser;
use crate::sim::{self, Dgram, End, EndCfg, Fault, Held, Side};
use crate::wire;
use parking_lot::Mutex;
use rustrtc::transports::datachannel::{DataChannel, DataChannelConfig, DataChannelEvent};
use rustrtc::transports::dtls::DtlsState;
use serde_json::json;
use std::sync::Arc;
use std::time::Duration;

#[derive(Clone, Debug)]
pub struct ChanSpec {
    pub id: u16,
    pub ordered: bool,
    pub max_retransmits: Option<u16>,
    pub max_packet_life_time: Option<u16>,
    /// negotiated out-of-band on both sides (true) or opened in-band by A via DCEP (false)
    pub negotiated: bool,
    pub label: String,
    pub protocol: String,
}

impl ChanSpec {
    pub fn reliable_ordered(id: u16) -> Self {
        ChanSpec { id, ordered: true, max_retransmits: None, max_packet_life_time: None, negotiated: true, label: format!("ch{id}"), protocol: String::new() }
    }
    pub fn reliable(&self) -> bool {
        self.max_retransmits.is_none() && self.max_packet_life_time.is_none()
    }
    pub fn cfg(&self) -> DataChannelConfig {
        DataChannelConfig {
            label: self.label.clone(),
            protocol: self.protocol.clone(),
            ordered: self.ordered,
            max_retransmits: self.max_retransmits,
            max_packet_life_time: self.max_packet_life_time,
            max_payload_size: None,
            negotiated: if self.negotiated { Some(self.id) } else { None },
        }
    }
}

#[derive(Clone, Debug)]
pub struct Msg {
    pub side: Side,
    pub chan: u16,
    /// sender task index on that side/channel (messages of one task are sent sequentially)
    pub task: u8,
    pub at_ms: u64,
    pub len: usize,
}

#[derive(Clone, Debug)]
pub struct Workload {
    pub name: String,
    pub chans: Vec<ChanSpec>,
    pub msgs: Vec<Msg>,
    /// forced (tagA, tsnA, tagB, tsnB) for the four random_u32() calls of association setup
    pub forced: Option<[u32; 4]>,
    pub rwnd: Option<usize>,
    pub max_burst: Option<usize>,
    pub max_cwnd: Option<usize>,
    /// virtual ms to keep running after the last scheduled send (upper bound of the run)
    pub horizon_ms: u64,
    /// virtual ms to keep observing after everything was delivered (0 = run to horizon)
    pub linger_ms: u64,
    /// which datagram classes are fault choice points
    pub faults: Vec<Fault>,
    pub record_wire: bool,
    /// senders do not wait for the channel's Open event before calling send_data
    pub early_send: bool,
    /// in-band channels are created (and DCEP OPEN is sent, as PeerConnection::create_data_channel
    /// does) as soon as DTLS is connected instead of after the association is established
    pub early_inband: bool,
    /// (side, channel id, virtual ms after that side's channel opened): close_data_channel() calls
    pub closes: Vec<(Side, u16, u64)>,
    /// if set, only datagrams carrying a DATA chunk whose SSN lies in lo..=hi (wrapping) are fault
    /// choice points (used to aim faults at the SSN wrap of a very long run)
    pub fault_ssn_window: Option<(u16, u16)>,
}

pub fn payload(side: Side, chan: u16, idx: usize, len: usize) -> Vec<u8> {
    let mut v = Vec::with_capacity(len);
    let hdr = [
        0xA0 | (side as u8),
        chan as u8,
        (idx >> 16) as u8,
        (idx >> 8) as u8,
        idx as u8,
        (len >> 8) as u8,
        len as u8,
        0x5A,
    ];
    for i in 0..len {
        if i < 8 {
            v.push(hdr[i]);
        } else {
            v.push(((i * 31 + idx * 7 + chan as usize) % 251) as u8);
        }
    }
    v
}

#[derive(Clone, Debug, Default)]
pub struct ChanObs {
    pub events: Vec<(u64, String, Vec<u8>)>, // (virtual ms, kind, payload)
    pub ended: bool,                          // recv() returned None
    /// global order stamp of the first Open event (orders events against submissions within one
    /// virtual millisecond)
    pub open_stamp: Option<u64>,
    pub label: String,
    pub protocol: String,
    pub ordered: bool,
    pub max_retransmits: Option<u16>,
    pub max_packet_life_time: Option<u16>,
    pub present: bool,
}

#[derive(Clone, Debug)]
pub struct WireEv {
    /// true: the datagram left the sender now; false: this entry records a (possibly late or
    /// duplicate) *delivery* of an earlier datagram to its destination
    pub sent: bool,
    pub t_ms: u64,
    pub from: Side,
    pub delivered: bool,
    pub fault: Fault,
    pub dgram_len: usize,
    pub label: String,
    pub sctp: Vec<wire::SctpPacket>,
    pub sctp_raw_len: Vec<usize>,
}

#[derive(Clone, Debug, Default)]
pub struct Obs {
    /// per side, per channel id
    pub chans: std::collections::BTreeMap<(Side, u16), ChanObs>,
    /// (side, chan, task) -> payloads for which send_data returned Ok, in order
    pub submitted: std::collections::BTreeMap<(Side, u16, u8), Vec<Vec<u8>>>,
    /// global order stamp at which each submitted message was handed to send_data (same indexing)
    pub submitted_at: std::collections::BTreeMap<(Side, u16, u8), Vec<u64>>,
    pub send_errors: Vec<String>,
    pub close_reason: [Option<String>; 2],
    pub dtls_state: [String; 2],
    pub wire: Vec<WireEv>,
    pub datagrams: u64,
    pub end_ms: u64,
    pub trace_hash: u64,
    pub established: bool,
    pub init_tsn: [Option<u32>; 2],
    pub applied: Vec<(usize, String, String)>, // (point index, label, fault) actually applied
    pub machinery_error: Option<String>,
}

pub struct HistoryOut {
    pub chooser: Chooser,
    pub obs: Option<Obs>, // None = watchdog (livelock)
}

fn now_ms(start: tokio::time::Instant) -> u64 {
    (tokio::time::Instant::now() - start).as_millis() as u64
}

pub fn run_history(w: &Workload, deviations: Vec<(usize, usize)>, seed: u64, wall_cap: Duration) -> HistoryOut {
    let w = w.clone();
    let devs = deviations.clone();
    let out = sim::run_with_watchdog(seed, wall_cap, move || {
        Box::pin(async move {
            let mut chooser = Chooser::new(devs);
            let obs = run_inner(&w, &mut chooser, seed).await;
            (chooser, obs)
        })
    });
    match out {
        Some((mut chooser, obs)) => {
            chooser.check_all_reached();
            HistoryOut { chooser, obs: Some(obs) }
        }
        None => HistoryOut { chooser: Chooser::new(deviations), obs: None },
    }
}

async fn run_inner(w: &Workload, chooser: &mut Chooser, seed: u64) -> Obs {
    let start = tokio::time::Instant::now();
    let mut obs = Obs::default();
    let stamp = Arc::new(std::sync::atomic::AtomicU64::new(1));
    rustrtc::verif::clear_forced_u32();
    if let Some(f) = w.forced {
        rustrtc::verif::force_u32(&f);
    }
    // Own the remaining randomness: every later random_u32() (tags and TSNs of re-handled setup
    // chunks, heartbeat nonces) comes from a deterministic stream derived from the seed.
    {
        let mut x = seed.wrapping_mul(0x9E3779B97F4A7C15).wrapping_add(0xD1B54A32D192ED03);
        let vals: Vec<u32> = (0..4096)
            .map(|_| {
                x ^= x << 13;
                x ^= x >> 7;
                x ^= x << 17;
                (x >> 16) as u32
            })
            .collect();
        rustrtc::verif::force_u32(&vals);
    }
    let (net_tx, mut net_rx) = tokio::sync::mpsc::unbounded_channel();
    let mut rtc = sim::default_rtc();
    if let Some(r) = w.rwnd {
        rtc.sctp_receive_window = r;
    }
    if let Some(b) = w.max_burst {
        rtc.sctp_max_burst = b;
    }
    if let Some(c) = w.max_cwnd {
        rtc.sctp_max_cwnd = c;
    }
    let certs = sim::certs();
    let neg: Vec<(u16, DataChannelConfig)> = w.chans.iter().filter(|c| c.negotiated).map(|c| (c.id, c.cfg())).collect();
    let cfg_a = EndCfg { with_sctp: true, channels: neg.clone(), expected_fingerprint: Some(rustrtc::transports::dtls::fingerprint(&certs.b)), rtc: rtc.clone() };
    let cfg_b = EndCfg { with_sctp: true, channels: neg, expected_fingerprint: Some(rustrtc::transports::dtls::fingerprint(&certs.a)), rtc };
    let mut a = sim::mk_end(Side::A, certs.a.clone(), net_tx.clone(), &cfg_a).await;
    let mut b = sim::mk_end(Side::B, certs.b.clone(), net_tx.clone(), &cfg_b).await;
    drop(net_tx);

    // event collectors
    let logs: Arc<Mutex<std::collections::BTreeMap<(Side, u16), ChanObs>>> = Arc::new(Mutex::new(Default::default()));
    let mut aux = vec![];
    let stamp_c = stamp.clone();
    let spawn_collector = move |side: Side, dc: Arc<DataChannel>, logs: Arc<Mutex<std::collections::BTreeMap<(Side, u16), ChanObs>>>| {
        let stamp = stamp_c.clone();
        {
            let mut l = logs.lock();
            let e = l.entry((side, dc.id)).or_default();
            e.present = true;
            e.label = dc.label.clone();
            e.protocol = dc.protocol.clone();
            e.ordered = dc.ordered;
            e.max_retransmits = dc.max_retransmits;
            e.max_packet_life_time = dc.max_packet_life_time;
        }
        tokio::spawn(async move {
            loop {
                match dc.recv().await {
                    Some(ev) => {
                        let (k, p) = match ev {
                            DataChannelEvent::Open => ("Open".to_string(), vec![]),
                            DataChannelEvent::Close => ("Close".to_string(), vec![]),
                            DataChannelEvent::Message(m) => ("Msg".to_string(), m.to_vec()),
                        };
                        let st = stamp.fetch_add(1, std::sync::atomic::Ordering::SeqCst);
                        let mut l = logs.lock();
                        let e = l.get_mut(&(side, dc.id)).unwrap();
                        if k == "Open" && e.open_stamp.is_none() {
                            e.open_stamp = Some(st);
                        }
                        e.events.push((now_ms(start), k, p));
                    }
                    None => {
                        logs.lock().get_mut(&(side, dc.id)).unwrap().ended = true;
                        break;
                    }
                }
            }
        })
    };
    for dc in &a.dcs {
        aux.push(spawn_collector(Side::A, dc.clone(), logs.clone()));
    }
    for dc in &b.dcs {
        aux.push(spawn_collector(Side::B, dc.clone(), logs.clone()));
    }
    // in-band channels: A creates and announces after its DTLS is connected; B learns them
    let inband: Vec<ChanSpec> = w.chans.iter().filter(|c| !c.negotiated).cloned().collect();
    let mut inband_dcs = vec![];
    for c in &inband {
        let dc = Arc::new(DataChannel::new(c.id, c.cfg()));
        a.channels.lock().push(Arc::downgrade(&dc));
        aux.push(spawn_collector(Side::A, dc.clone(), logs.clone()));
        inband_dcs.push(dc);
    }
    if !inband.is_empty() {
        let sctp = a.sctp.clone().unwrap();
        let dcs = inband_dcs.clone();
        let dtls = a.dtls.clone();
        let logs_ib = logs.clone();
        let early_inband = w.early_inband;
        aux.push(tokio::spawn(async move {
            let mut rx = dtls.subscribe_state();
            loop {
                if matches!(*rx.borrow_and_update(), DtlsState::Connected(_, _)) {
                    break;
                }
                if rx.changed().await.is_err() {
                    return;
                }
            }
            if !early_inband {
                // wait until the association is up: the first negotiated channel reports Open
                for _ in 0..6000 {
                    let open = logs_ib.lock().iter().any(|(k, c)| k.0 == Side::A && c.open_stamp.is_some());
                    if open {
                        break;
                    }
                    tokio::time::sleep(Duration::from_millis(10)).await;
                }
            }
            for dc in dcs {
                let _ = sctp.send_dcep_open(&dc).await;
            }
        }));
        // B side: channels announced by the peer
        if let Some(mut ndrx) = b.new_dc_rx.take() {
            let logs2 = logs.clone();
            let stamp2 = stamp.clone();
            let keep: Arc<Mutex<Vec<Arc<DataChannel>>>> = Arc::new(Mutex::new(vec![]));
            aux.push(tokio::spawn(async move {
                while let Some(dc) = ndrx.recv().await {
                    keep.lock().push(dc.clone());
                    let side = Side::B;
                    {
                        let mut l = logs2.lock();
                        let e = l.entry((side, dc.id)).or_default();
                        e.present = true;
                        e.label = dc.label.clone();
                        e.protocol = dc.protocol.clone();
                        e.ordered = dc.ordered;
                        e.max_retransmits = dc.max_retransmits;
                        e.max_packet_life_time = dc.max_packet_life_time;
                    }
                    let logs3 = logs2.clone();
                    let stamp3 = stamp2.clone();
                    tokio::spawn(async move {
                        loop {
                            match dc.recv().await {
                                Some(ev) => {
                                    let (k, p) = match ev {
                                        DataChannelEvent::Open => ("Open".to_string(), vec![]),
                                        DataChannelEvent::Close => ("Close".to_string(), vec![]),
                                        DataChannelEvent::Message(m) => ("Msg".to_string(), m.to_vec()),
                                    };
                                    let st = stamp3.fetch_add(1, std::sync::atomic::Ordering::SeqCst);
                                    let mut l = logs3.lock();
                                    let e = l.get_mut(&(side, dc.id)).unwrap();
                                    if k == "Open" && e.open_stamp.is_none() {
                                        e.open_stamp = Some(st);
                                    }
                                    e.events.push((now_ms(start), k, p));
                                }
                                None => {
                                    logs3.lock().get_mut(&(side, dc.id)).unwrap().ended = true;
                                    break;
                                }
                            }
                        }
                    });
                }
            }));
        }
    }

    // sender tasks
    let submitted: Arc<Mutex<std::collections::BTreeMap<(Side, u16, u8), Vec<Vec<u8>>>>> = Arc::new(Mutex::new(Default::default()));
    let submitted_at: Arc<Mutex<std::collections::BTreeMap<(Side, u16, u8), Vec<u64>>>> = Arc::new(Mutex::new(Default::default()));
    let send_errors: Arc<Mutex<Vec<String>>> = Arc::new(Mutex::new(vec![]));
    let mut groups: std::collections::BTreeMap<(Side, u16, u8), Vec<(usize, Msg)>> = Default::default();
    for (i, m) in w.msgs.iter().enumerate() {
        groups.entry((m.side, m.chan, m.task)).or_default().push((i, m.clone()));
    }
    let last_send_ms = w.msgs.iter().map(|m| m.at_ms).max().unwrap_or(0);
    let mut sender_handles = vec![];
    for ((side, chan, task), msgs) in groups {
        let sctp = match side {
            Side::A => a.sctp.clone().unwrap(),
            Side::B => b.sctp.clone().unwrap(),
        };
        let logs = logs.clone();
        let submitted = submitted.clone();
        let submitted_at = submitted_at.clone();
        let stamp = stamp.clone();
        let send_errors = send_errors.clone();
        let needs_open = !w.early_send;
        sender_handles.push(tokio::spawn(async move {
            // wait until the local channel reported Open (bounded)
            if needs_open {
                for _ in 0..3000 {
                    let open = logs.lock().get(&(side, chan)).map(|c| c.events.iter().any(|e| e.1 == "Open")).unwrap_or(false);
                    if open {
                        break;
                    }
                    tokio::time::sleep(Duration::from_millis(10)).await;
                }
            }
            let t0 = tokio::time::Instant::now();
            for (idx, m) in msgs {
                let due = t0 + Duration::from_millis(m.at_ms);
                tokio::time::sleep_until(due).await;
                let p = payload(side, chan, idx, m.len);
                let at = stamp.fetch_add(1, std::sync::atomic::Ordering::SeqCst);
                match sctp.send_data(chan, &p).await {
                    Ok(()) => {
                        submitted.lock().entry((side, chan, task)).or_default().push(p);
                        submitted_at.lock().entry((side, chan, task)).or_default().push(at);
                    }
                    Err(e) => send_errors.lock().push(format!("{}:{chan}:{idx}: {e}", side.name())),
                }
            }
        }));
    }

    // channel closes requested by the workload
    for (side, chan, at_ms) in w.closes.clone() {
        let sctp = match side {
            Side::A => a.sctp.clone().unwrap(),
            Side::B => b.sctp.clone().unwrap(),
        };
        let logs = logs.clone();
        sender_handles.push(tokio::spawn(async move {
            for _ in 0..3000 {
                let open = logs.lock().get(&(side, chan)).map(|c| c.open_stamp.is_some()).unwrap_or(false);
                if open {
                    break;
                }
                tokio::time::sleep(Duration::from_millis(10)).await;
            }
            tokio::time::sleep(Duration::from_millis(at_ms)).await;
            let _ = sctp.close_data_channel(chan).await;
        }));
    }

    // the pump: the only place where datagrams move
    let mut held = Held::default();
    let mut buf = Vec::new();
    let hard_deadline = Duration::from_millis(30_000 + last_send_ms + w.horizon_ms);
    let mut all_done_at: Option<u64> = None;
    let mut fault_budget_open = true;
    let mut burst_left = [0u32; 2];
    let mut th: u64 = 0xcbf29ce484222325;
    let mut hash = |s: &str| {
        for x in s.as_bytes() {
            th ^= *x as u64;
            th = th.wrapping_mul(0x100000001b3);
        }
    };
    let mut senders_done_ms: Option<u64> = None;
    loop {
        let t = now_ms(start);
        // Past the horizon an incomplete run that never got its association up is only abandoned
        // once an endpoint has reported the association closed or ten horizons have passed: set-up
        // timers back off exponentially (INIT: 200 ms doubling, 9 attempts = 102 s before INIT_TIMEOUT is
        // reported), and "stalled" must not be concluded while such a timer is still pending.
        // Only association SET-UP backs off without a cap (data retransmission is capped by
        // RTO.max = 60 s = one horizon), so the extension applies while no channel has opened yet.
        let mut settled = || {
            a.sctp.as_ref().map_or(false, |x| x.close_reason().is_some())
                || b.sctp.as_ref().map_or(false, |x| x.close_reason().is_some())
                || logs.lock().values().any(|c| !c.events.is_empty())
                || all_delivered(&logs.lock(), &submitted.lock(), &w.chans)
        };
        if Duration::from_millis(t) >= hard_deadline && (settled() || Duration::from_millis(t) >= hard_deadline + Duration::from_millis(9 * w.horizon_ms)) {
            break;
        }
        if senders_done_ms.is_none() && sender_handles.iter().all(|h| h.is_finished()) {
            senders_done_ms = Some(t);
        }
        if let Some(sd) = senders_done_ms {
            if t >= sd + w.horizon_ms && (settled() || t >= sd + 10 * w.horizon_ms) {
                break;
            }
            if w.linger_ms > 0 && held.is_empty() {
                // early exit: everything submitted was delivered and the linger period passed
                let done = all_delivered(&logs.lock(), &submitted.lock(), &w.chans);
                match (done, all_done_at) {
                    (true, None) => all_done_at = Some(t),
                    (true, Some(t0)) if t >= t0 + w.linger_ms => break,
                    (false, _) => all_done_at = None,
                    _ => {}
                }
            }
        }
        let d = match sim::next_dgram(&mut net_rx, Duration::from_millis(250)).await {
            Some(d) => d,
            None => {
                // idle: release anything still held so that a delayed datagram is late, not lost
                for hd in held.flush() {
                    hash(&format!("{}|flush", now_ms(start)));
                    log_late(&mut obs, w, &hd, &a, &b, now_ms(start));
                    sim::deliver(&a, &b, &hd, &mut buf).await;
                }
                continue;
            }
        };
        obs.datagrams += 1;
        let t = now_ms(start); // emission time of this datagram (the wait above may have advanced the clock)
        let ca = sim::crypto_of(&a);
        let cb = sim::crypto_of(&b);
        let both = ca.is_some() && cb.is_some();
        let crypto = ca.clone().or(cb.clone());
        let src = d.src_side().unwrap_or(Side::A);
        let dst = d.dest_side().unwrap_or(Side::B);
        let lab = sim::label(&d, crypto.as_deref());
        // choice point: only once both ends are connected and the datagram is application data
        let is_app = wire::dtls_records(&d.data).iter().all(|r| r.ctype == 23 && r.epoch >= 1);
        let mut fault = Fault::None;
        if both && is_app && burst_left[src as usize] > 0 {
            // inside a loss burst started by an earlier DropBurst: not a choice point
            burst_left[src as usize] -= 1;
            fault = Fault::Drop;
        } else if both && is_app && fault_budget_open && in_ssn_window(w, &d, src, crypto.as_deref()) {
            let n = w.faults.len() + 1;
            let c = chooser.choose(n, || lab.clone());
            if c > 0 {
                fault = w.faults[c - 1];
                obs.applied.push((chooser.points.len() - 1, lab.clone(), fault.name()));
                if let Fault::DropBurst(k) = fault {
                    burst_left[src as usize] = k.saturating_sub(1) as u32;
                    fault = Fault::Drop;
                }
            }
        }
        if w.record_wire || true {
            let mut sctp = vec![];
            let mut raw_len = vec![];
            if let Some(c) = crypto.as_deref() {
                for (_r, p) in sim::sctp_of(&d.data, src, c) {
                    if let Some(p) = p {
                        raw_len.push(p.len());
                        if let Some(pk) = wire::parse_sctp(&p) {
                            if obs.init_tsn[src as usize].is_none() {
                                for ch in &pk.chunks {
                                    if let wire::Chunk::Init { initial_tsn, .. } = ch {
                                        obs.init_tsn[src as usize] = Some(*initial_tsn);
                                    }
                                }
                            }
                            sctp.push(pk);
                        }
                    }
                }
            }
            if w.record_wire {
                obs.wire.push(WireEv { sent: true, t_ms: t, from: src, delivered: matches!(fault, Fault::None | Fault::DupNow | Fault::DupMany(_) | Fault::DupLate(_)), fault, dgram_len: d.data.len(), label: lab.clone(), sctp, sctp_raw_len: raw_len });
            }
        }
        hash(&format!("{}|{}", now_ms(start), lab));
        match fault {
            Fault::None => {
                sim::deliver(&a, &b, &d, &mut buf).await;
                for hd in held.tick(dst) {
                    log_late(&mut obs, w, &hd, &a, &b, now_ms(start));
                    sim::deliver(&a, &b, &hd, &mut buf).await;
                }
            }
            Fault::Drop => {}
            Fault::DupNow => {
                sim::deliver(&a, &b, &d, &mut buf).await;
                sim::deliver(&a, &b, &d, &mut buf).await;
                for hd in held.tick(dst) {
                    log_late(&mut obs, w, &hd, &a, &b, now_ms(start));
                    sim::deliver(&a, &b, &hd, &mut buf).await;
                }
            }
            Fault::DupMany(k) => {
                for _ in 0..=k {
                    sim::deliver(&a, &b, &d, &mut buf).await;
                }
                for hd in held.tick(dst) {
                    log_late(&mut obs, w, &hd, &a, &b, now_ms(start));
                    sim::deliver(&a, &b, &hd, &mut buf).await;
                }
            }
            Fault::DupLate(k) => {
                sim::deliver(&a, &b, &d, &mut buf).await;
                let due = held.tick(dst);
                held.hold(dst, k, d.clone());
                for hd in due {
                    log_late(&mut obs, w, &hd, &a, &b, now_ms(start));
                    sim::deliver(&a, &b, &hd, &mut buf).await;
                }
            }
            Fault::Delay(k) => {
                held.hold(dst, k, d.clone());
            }
            Fault::DropBurst(_) => {}
        }
        let _ = &mut fault_budget_open;
    }
    obs.end_ms = now_ms(start);
    obs.established = sim::crypto_of(&a).is_some() && sim::crypto_of(&b).is_some();
    obs.close_reason = [a.sctp.as_ref().and_then(|s| s.close_reason()), b.sctp.as_ref().and_then(|s| s.close_reason())];
    obs.dtls_state = [sim::state_name(&a.dtls.get_state()).to_string(), sim::state_name(&b.dtls.get_state()).to_string()];
    obs.chans = logs.lock().clone();
    obs.submitted = submitted.lock().clone();
    obs.submitted_at = submitted_at.lock().clone();
    obs.send_errors = send_errors.lock().clone();
    for (k, c) in &obs.chans {
        for e in &c.events {
            hash(&format!("{:?}|{}|{}|{}", k, e.0, e.1, e.2.len()));
        }
    }
    obs.trace_hash = th;
    if w.forced.is_some() {
        let f = w.forced.unwrap();
        // In the fault-free history the four forced values must land on the two tags and two initial
        // TSNs. Under faults another random_u32() consumer (e.g. a heartbeat nonce while setup chunks
        // are being retransmitted) may take one of them first: the history is still deterministic
        // and valid, only its TSN space differs, so that is not an error.
        if chooser.deviations.is_empty() && (obs.init_tsn[0] != Some(f[1]) || obs.init_tsn[1] != Some(f[3])) {
            obs.machinery_error = Some(format!("forced initial TSNs not honoured in the fault-free run: wanted {:?}/{:?}, saw {:?}", f[1], f[3], obs.init_tsn));
        }
    }
    rustrtc::verif::clear_forced_u32();
    for h in sender_handles {
        h.abort();
    }
    for h in aux {
        h.abort();
    }
    for h in a.tasks.drain(..) {
        h.abort();
    }
    for h in b.tasks.drain(..) {
        h.abort();
    }
    obs
}

/// Record the (late / duplicate) delivery of a held datagram so wire monitors know *when* its
/// content reached the destination.
fn log_late(obs: &mut Obs, w: &Workload, d: &Dgram, a: &End, b: &End, t: u64) {
    if !w.record_wire {
        return;
    }
    let crypto = sim::crypto_of(a).or(sim::crypto_of(b));
    let src = d.src_side().unwrap_or(Side::A);
    let mut sctp = vec![];
    let mut raw_len = vec![];
    if let Some(c) = crypto.as_deref() {
        for (_r, p) in sim::sctp_of(&d.data, src, c) {
            if let Some(p) = p {
                raw_len.push(p.len());
                if let Some(pk) = wire::parse_sctp(&p) {
                    sctp.push(pk);
                }
            }
        }
    }
    obs.wire.push(WireEv { sent: false, t_ms: t, from: src, delivered: true, fault: Fault::None, dgram_len: d.data.len(), label: sim::label(d, crypto.as_deref()), sctp, sctp_raw_len: raw_len });
}

fn in_ssn_window(w: &Workload, d: &Dgram, src: Side, crypto: Option<&rustrtc::transports::dtls::SessionCrypto>) -> bool {
    let Some((lo, hi)) = w.fault_ssn_window else {
        return true;
    };
    let Some(c) = crypto else {
        return false;
    };
    for (_r, p) in sim::sctp_of(&d.data, src, c) {
        if let Some(p) = p {
            if let Some(pk) = wire::parse_sctp(&p) {
                for ch in &pk.chunks {
                    if let wire::Chunk::Data { ssn, ppid, .. } = ch {
                        if *ppid != 50 && ssn.wrapping_sub(lo) <= hi.wrapping_sub(lo) {
                            return true;
                        }
                    }
                }
            }
        }
    }
    false
}

fn all_delivered(
    logs: &std::collections::BTreeMap<(Side, u16), ChanObs>,
    submitted: &std::collections::BTreeMap<(Side, u16, u8), Vec<Vec<u8>>>,
    chans: &[ChanSpec],
) -> bool {
    for c in chans {
        for side in [Side::A, Side::B] {
            let sub: usize = submitted.iter().filter(|(k, _)| k.0 == side && k.1 == c.id).map(|(_, v)| v.len()).sum();
            let got = logs.get(&(side.other(), c.id)).map(|l| l.events.iter().filter(|e| e.1 == "Msg").count()).unwrap_or(0);
            if got < sub {
                return false;
            }
        }
    }
    true
}

pub fn delivered(obs: &Obs, to: Side, chan: u16) -> Vec<Vec<u8>> {
    obs.chans
        .get(&(to, chan))
        .map(|c| c.events.iter().filter(|e| e.1 == "Msg").map(|e| e.2.clone()).collect())
        .unwrap_or_default()
}

pub fn count_events(obs: &Obs, side: Side, chan: u16, kind: &str) -> usize {
    obs.chans.get(&(side, chan)).map(|c| c.events.iter().filter(|e| e.1 == kind).count()).unwrap_or(0)
}

pub fn closed_reported(obs: &Obs) -> bool {
    obs.close_reason.iter().any(|c| c.is_some())
        || obs.chans.values().any(|c| c.ended || c.events.iter().any(|e| e.1 == "Close"))
        || obs.dtls_state.iter().any(|s| s != "Connected")
}

pub fn history_json(w: &Workload, devs: &[(usize, usize)], points: &[(usize, String)], seed: u64) -> serde_json::Value {
    json!({
        "workload": w.name,
        "seed": seed,
        "deviations": devs.iter().map(|(p, c)| json!({
            "point": p, "choice": c,
            "fault": w.faults.get(c.wrapping_sub(1)).map(|f| f.name()),
            "datagram": points.get(*p).map(|x| x.1.clone()),
        })).collect::<Vec<_>>(),
    })
}

/// Ordinal-free structural signature of a history: sorted (fault, datagram label) pairs.
pub fn fault_signature(w: &Workload, devs: &[(usize, usize)], points: &[(usize, String)]) -> String {
    let mut parts: Vec<String> = devs
        .iter()
        .map(|(p, c)| {
            let f = w.faults.get(c.wrapping_sub(1)).map(|f| f.name()).unwrap_or("?".into());
            let l = points.get(*p).map(|x| x.1.clone()).unwrap_or("?".into());
            format!("{f}@{l}")
        })
        .collect();
    parts.sort();
    parts.join(",")
}

// ------------------------------------------------------------------ exploration driver

pub struct ExploreStats {
    pub histories: u64,
    pub datagrams: u64,
    pub choice_points_total: u64,
    pub distinct_traces: std::collections::BTreeSet<u64>,
    pub by_level: Vec<u64>,
    pub livelocks: u64,
    pub replays_checked: u64,
    pub baseline_points: usize,
    pub capped: bool,
}

pub struct Verdict {
    pub kind: String,
    pub detail: String,
}

/// Deviation-bounded exploration of one workload. `oracle` judges one observation and returns
/// the violations it sees. Every violating history is replayed twice and must reproduce the
/// same trace hash; so are the first `double_run` passing histories.
pub fn explore(
    w: &Workload,
    bound: usize,
    seed: u64,
    max_histories: u64,
    double_run: u64,
    oracle: &(dyn Fn(&Workload, &Obs) -> Vec<Verdict> + Sync),
    mut on_violation: impl FnMut(&[(usize, usize)], &[(usize, String)], &Obs, &Verdict),
    mut on_sample: impl FnMut(serde_json::Value),
) -> ExploreStats {
    use rayon::prelude::*;
    let wall = Duration::from_secs(20);
    let mut stats = ExploreStats {
        histories: 0,
        datagrams: 0,
        choice_points_total: 0,
        distinct_traces: Default::default(),
        by_level: vec![],
        livelocks: 0,
        replays_checked: 0,
        baseline_points: 0,
        capped: false,
    };
    let mut level: Vec<Vec<(usize, usize)>> = vec![vec![]];
    for depth in 0..=bound {
        if level.is_empty() {
            break;
        }
        if stats.histories + level.len() as u64 > max_histories {
            let keep = (max_histories.saturating_sub(stats.histories)) as usize;
            level.truncate(keep);
            stats.capped = true;
        }
        let results: Vec<(Vec<(usize, usize)>, HistoryOut)> = level
            .par_iter()
            .map(|devs| (devs.clone(), run_history(w, devs.clone(), seed, wall)))
            .collect();
        stats.by_level.push(results.len() as u64);
        let mut next = vec![];
        for (i, (devs, out)) in results.iter().enumerate() {
            stats.histories += 1;
            if let Some(e) = &out.chooser.error {
                crate::machinery_failure(&format!("{}: {} (history {:?})", w.name, e, devs));
            }
            let Some(obs) = &out.obs else {
                stats.livelocks += 1;
                let v = Verdict { kind: "livelock".into(), detail: "real-time watchdog fired: execution did not finish".into() };
                on_violation(devs, &out.chooser.points, &Obs::default(), &v);
                continue;
            };
            if let Some(e) = &obs.machinery_error {
                crate::machinery_failure(&format!("{}: {}", w.name, e));
            }
            if depth == 0 {
                stats.baseline_points = out.chooser.points.len();
            }
            stats.datagrams += obs.datagrams;
            stats.choice_points_total += out.chooser.points.len() as u64;
            stats.distinct_traces.insert(obs.trace_hash);
            let verdicts = oracle(w, obs);
            let need_replay = !verdicts.is_empty() || (i as u64) < double_run;
            if need_replay {
                for _ in 0..if verdicts.is_empty() { 1 } else { 2 } {
                    let again = run_history(w, devs.clone(), seed, wall);
                    stats.replays_checked += 1;
                    let h2 = again.obs.as_ref().map(|o| o.trace_hash);
                    if h2 != Some(obs.trace_hash) {
                        crate::machinery_failure(&format!(
                            "{}: nondeterministic replay of history {:?}: trace hash {:x} then {:?}",
                            w.name, devs, obs.trace_hash, h2
                        ));
                    }
                }
            }
            for v in &verdicts {
                on_violation(devs, &out.chooser.points, obs, v);
            }
            if i < 2 && depth <= 1 {
                on_sample(json!({"history": history_json(w, devs, &out.chooser.points, seed), "datagrams": obs.datagrams, "virtual_ms": obs.end_ms,
                    "delivered_to_B": delivered(obs, Side::B, w.chans[0].id).len(), "verdicts": verdicts.iter().map(|v| v.kind.clone()).collect::<Vec<_>>() }));
            }
            if depth < bound {
                next.extend(crate::explore::frontier_children(devs, &out.chooser.points));
            }
        }
        level = next;
    }
    stats
}


/// Was this payload handed to send_data before the sender's own channel had reported Open?
pub fn sent_before_local_open(obs: &Obs, side: Side, chan: u16, payload: &[u8]) -> bool {
    let open_t = obs.chans.get(&(side, chan)).and_then(|c| c.open_stamp);
    for (k, v) in &obs.submitted {
        if k.0 == side && k.1 == chan {
            if let Some(i) = v.iter().position(|p| p == payload) {
                let at = obs.submitted_at.get(k).and_then(|t| t.get(i)).copied().unwrap_or(0);
                return match open_t {
                    Some(o) => at < o,
                    None => true,
                };
            }
        }
    }
    false
}
