//! C07, live-endpoint part (engine E2): every datagram of a stated catalogue is injected into a
//! live endpoint (real IceConn + DTLS + SCTP + data channel) at every stage of its life, on the
//! deterministic simulator. Oracle: no panic in any task, the execution finishes (virtual
//! horizon + real-time watchdog), and the runtime thread stays alive.
//!
//! SCTP-layer items are sealed by the harness under the genuine peer's DTLS write keys (they
//! are published in `DtlsState::Connected`), i.e. they are what an authenticated but malicious
//! or buggy peer could send; DTLS-layer items are raw datagrams anyone on the path could send.
use crate::sim::{self, Dgram, End, EndCfg, Side};
use crate::wire;
use aes_gcm::aead::{Aead, Payload};
use aes_gcm::Nonce;
use bytes::{Bytes, BytesMut};
use rayon::prelude::*;
use rustrtc::transports::datachannel::DataChannelConfig;
use rustrtc::transports::dtls::handshake::{ClientHello, Random};
use rustrtc::transports::dtls::record::ProtocolVersion;
use rustrtc::transports::dtls::{self, SessionCrypto};
use serde_json::json;
use std::time::Duration;

#[derive(Clone, Copy, Debug, PartialEq, Eq, PartialOrd, Ord)]
pub enum Stage {
    PreHandshake,
    MidHandshake,
    /// DTLS connected on both sides, SCTP association not yet set up at the victim
    DtlsUpSctpDown,
    Established,
    AfterAbort,
}

#[derive(Clone, Debug)]
pub struct Item {
    pub layer: &'static str, // "dtls" | "sctp"
    pub family: String,      // seed + mutation class (signature material)
    pub bytes: Vec<u8>,      // dtls: whole datagram; sctp: plaintext SCTP packet
    /// further packets of the same kind injected right after `bytes` (a multi-step input)
    pub chain: Vec<Vec<u8>>,
}

fn be16(v: u16) -> [u8; 2] {
    v.to_be_bytes()
}

/// SCTP seeds as (name, chunk type, flags, value)
fn sctp_seeds() -> Vec<(&'static str, u8, u8, Vec<u8>)> {
    let mut v = vec![];
    let mut init = vec![];
    init.extend_from_slice(&0x0102_0304u32.to_be_bytes()); // tag
    init.extend_from_slice(&131072u32.to_be_bytes());
    init.extend_from_slice(&be16(10));
    init.extend_from_slice(&be16(10));
    init.extend_from_slice(&1000u32.to_be_bytes());
    init.extend_from_slice(&[0xC0, 0x00, 0, 4]); // forward-tsn supported
    init.extend_from_slice(&[0x80, 0x08, 0, 5, 0xC0, 0, 0, 0]); // supported extensions
    v.push(("INIT", 1u8, 0u8, init.clone()));
    let mut init_ack = init.clone();
    init_ack.extend_from_slice(&[0, 7, 0, 12, 1, 2, 3, 4, 5, 6, 7, 8]); // state cookie
    v.push(("INIT-ACK", 2, 0, init_ack));
    v.push(("COOKIE-ECHO", 10, 0, vec![9; 28]));
    v.push(("COOKIE-ACK", 11, 0, vec![]));
    let mut data = vec![];
    data.extend_from_slice(&1000u32.to_be_bytes());
    data.extend_from_slice(&be16(0));
    data.extend_from_slice(&be16(0));
    data.extend_from_slice(&53u32.to_be_bytes());
    data.extend_from_slice(b"hello-live");
    v.push(("DATA", 0, 3, data.clone()));
    let mut frag = data.clone();
    frag[8..12].copy_from_slice(&53u32.to_be_bytes());
    v.push(("DATA-first-fragment", 0, 2, frag.clone()));
    v.push(("DATA-unordered-last", 0, 5, frag));
    // DCEP open: type 3, channel type, priority, reliability, label len, proto len, label, proto
    let mut dcep = data[..8].to_vec();
    dcep.extend_from_slice(&50u32.to_be_bytes());
    dcep.extend_from_slice(&[3, 0, 0, 0, 0, 0, 0, 0, 0, 3, 0, 2, b'l', b'b', b'l', b'p', b'r']);
    v.push(("DCEP-OPEN", 0, 3, dcep));
    let mut dack = data[..8].to_vec();
    dack.extend_from_slice(&50u32.to_be_bytes());
    dack.push(2);
    v.push(("DCEP-ACK", 0, 3, dack));
    let mut sack = vec![];
    sack.extend_from_slice(&1000u32.to_be_bytes());
    sack.extend_from_slice(&65536u32.to_be_bytes());
    sack.extend_from_slice(&be16(2));
    sack.extend_from_slice(&be16(1));
    sack.extend_from_slice(&[0, 2, 0, 3, 0, 5, 0, 9]);
    sack.extend_from_slice(&999u32.to_be_bytes());
    v.push(("SACK", 3, 0, sack));
    v.push(("HEARTBEAT", 4, 0, vec![0, 1, 0, 8, 1, 2, 3, 4]));
    v.push(("HEARTBEAT-ACK", 5, 0, vec![0, 1, 0, 8, 1, 2, 3, 4]));
    let mut fwd = vec![];
    fwd.extend_from_slice(&1005u32.to_be_bytes());
    fwd.extend_from_slice(&[0, 0, 0, 4, 0, 1, 0, 9]);
    v.push(("FORWARD-TSN", 192, 0, fwd));
    let mut rc = vec![];
    rc.extend_from_slice(&[0, 13, 0, 18]); // outgoing SSN reset request
    rc.extend_from_slice(&1u32.to_be_bytes());
    rc.extend_from_slice(&0u32.to_be_bytes());
    rc.extend_from_slice(&1000u32.to_be_bytes());
    rc.extend_from_slice(&be16(0));
    v.push(("RECONFIG-reset", 130, 0, rc));
    let mut rr = vec![];
    rr.extend_from_slice(&[0, 16, 0, 12]);
    rr.extend_from_slice(&1u32.to_be_bytes());
    rr.extend_from_slice(&1u32.to_be_bytes());
    v.push(("RECONFIG-response", 130, 0, rr));
    v.push(("ERROR", 9, 0, vec![0, 1, 0, 8, 0, 0, 0, 0]));
    v.push(("SHUTDOWN", 7, 0, 1000u32.to_be_bytes().to_vec()));
    v.push(("SHUTDOWN-ACK", 8, 0, vec![]));
    v.push(("ABORT", 6, 0, vec![]));
    v.push(("UNKNOWN-0x3f", 0x3f, 0, vec![1, 2, 3, 4]));
    v.push(("UNKNOWN-0xff-skip", 0xff, 0, vec![1, 2, 3, 4]));
    v
}

fn sctp_packet_raw(chunk_bytes: &[u8]) -> Vec<u8> {
    // common header + raw chunk bytes (no padding fix-up), valid CRC32c
    let mut p = vec![];
    p.extend_from_slice(&5000u16.to_be_bytes());
    p.extend_from_slice(&5000u16.to_be_bytes());
    p.extend_from_slice(&0u32.to_be_bytes());
    p.extend_from_slice(&[0, 0, 0, 0]);
    p.extend_from_slice(chunk_bytes);
    let c = crc32c::crc32c(&p);
    p[8..12].copy_from_slice(&c.to_le_bytes());
    p
}

pub fn sctp_catalog(thorough: bool) -> Vec<Item> {
    let mut out = vec![];
    for (name, t, flags, value) in sctp_seeds() {
        let full = wire::raw_chunk(t, flags, &value);
        // unmodified seed (padded)
        let mut padded = full.clone();
        while padded.len() % 4 != 0 {
            padded.push(0);
        }
        out.push(Item { layer: "sctp", family: format!("{name};seed"), bytes: sctp_packet_raw(&padded), chain: vec![] });
        // (a) value truncated to every length, chunk length consistent
        for l in 0..value.len() {
            let mut c = wire::raw_chunk(t, flags, &value[..l]);
            while c.len() % 4 != 0 {
                c.push(0);
            }
            out.push(Item { layer: "sctp", family: format!("{name};value-truncated"), bytes: sctp_packet_raw(&c), chain: vec![] });
        }
        // (b) chunk length field substituted, body unchanged
        let actual = full.len() as u16;
        for l in [0u16, 1, 2, 3, 4, 5, actual.wrapping_sub(1), actual + 1, actual + 4, 0xFFFF] {
            let mut c = padded.clone();
            c[2..4].copy_from_slice(&l.to_be_bytes());
            out.push(Item { layer: "sctp", family: format!("{name};chunk-length-field"), bytes: sctp_packet_raw(&c), chain: vec![] });
        }
        // (c) every aligned 16-bit field of the value replaced by boundary values
        let vals: &[u16] = if thorough { &[0, 1, 4, 0x7FFF, 0x8000, 0xFFFF] } else { &[0, 1, 0xFFFF] };
        for pos in (0..value.len().saturating_sub(1)).step_by(2) {
            for x in vals {
                let mut v2 = value.clone();
                v2[pos..pos + 2].copy_from_slice(&x.to_be_bytes());
                let mut c = wire::raw_chunk(t, flags, &v2);
                while c.len() % 4 != 0 {
                    c.push(0);
                }
                out.push(Item { layer: "sctp", family: format!("{name};field16-substituted"), bytes: sctp_packet_raw(&c), chain: vec![] });
            }
        }
        // (d) two copies of the chunk bundled, and the chunk followed by 1..3 stray bytes
        let mut two = padded.clone();
        two.extend_from_slice(&padded);
        out.push(Item { layer: "sctp", family: format!("{name};bundled-twice"), bytes: sctp_packet_raw(&two), chain: vec![] });
        for extra in 1..4usize {
            let mut c = padded.clone();
            c.extend(std::iter::repeat(0xEE).take(extra));
            out.push(Item { layer: "sctp", family: format!("{name};trailing-bytes"), bytes: sctp_packet_raw(&c), chain: vec![] });
        }
    }
    // multi-step inputs: three well-formed FORWARD TSNs in a row on the existing stream 0, each
    // advancing the cumulative TSN, with every triple of boundary stream sequence numbers (the
    // receiver's per-stream SSN arithmetic is only reachable through a sequence)
    let edge: &[u16] = if thorough { &[0, 1, 0x7FFE, 0x7FFF, 0x8000, 0x8001, 0xFFFD, 0xFFFE, 0xFFFF] } else { &[0, 1, 0x7FFE, 0x8000, 0xFFFD, 0xFFFF] };
    let fwd = |cum: u32, ssn: u16| {
        let mut v = cum.to_be_bytes().to_vec();
        v.extend_from_slice(&be16(0));
        v.extend_from_slice(&be16(ssn));
        sctp_packet_raw(&wire::raw_chunk(192, 0, &v))
    };
    for &s1 in edge {
        for &s2 in edge {
            for &s3 in edge {
                out.push(Item { layer: "sctp", family: format!("FORWARD-TSN;chain3;ssn={s1:#06x},{s2:#06x},{s3:#06x}"), bytes: fwd(1003, s1), chain: vec![fwd(1004, s2), fwd(1005, s3)] });
            }
        }
    }
    // packets shorter than the common header / header only / bad CRC
    for l in 0..13usize {
        out.push(Item { layer: "sctp", family: "short-packet".into(), bytes: vec![0x13; l], chain: vec![] });
    }
    out
}

fn hs_record(msg_type: u8, message_seq: u16, length: u32, frag_off: u32, frag_len: u32, body: &[u8]) -> Vec<u8> {
    let h = wire::Hs { msg_type, length, message_seq, frag_off, frag_len, body: body.to_vec() };
    wire::encode_record(22, 0, 1, &wire::encode_hs(&h))
}

pub fn dtls_catalog(thorough: bool) -> Vec<Item> {
    let mut out = vec![];
    // a well-formed ClientHello body from the stack's own encoder
    let ch = ClientHello {
        version: ProtocolVersion::DTLS_1_2,
        random: Random::new(),
        session_id: vec![],
        cookie: vec![],
        cipher_suites: dtls::get_client_hello_cipher_suites(),
        compression_methods: vec![0],
        extensions: dtls::get_client_hello_extensions(),
    };
    let mut b = BytesMut::new();
    ch.encode(&mut b);
    let ch_body = b.to_vec();
    let l = ch_body.len() as u32;
    out.push(Item { layer: "dtls", family: "ClientHello;seed".into(), bytes: hs_record(1, 0, l, 0, l, &ch_body), chain: vec![] });
    for cut in 0..ch_body.len() {
        out.push(Item { layer: "dtls", family: "ClientHello;body-truncated".into(), bytes: hs_record(1, 0, cut as u32, 0, cut as u32, &ch_body[..cut]), chain: vec![] });
    }
    // every byte of the first 80 substituted by boundary values (length bytes live there)
    let vals: &[u8] = if thorough { &[0, 1, 0x7F, 0x80, 0xFE, 0xFF] } else { &[0, 0xFF] };
    for pos in 0..ch_body.len().min(80) {
        for x in vals {
            let mut c = ch_body.clone();
            c[pos] = *x;
            out.push(Item { layer: "dtls", family: "ClientHello;byte-substituted".into(), bytes: hs_record(1, 0, l, 0, l, &c), chain: vec![] });
        }
    }
    // every other handshake type with short bodies
    for t in [0u8, 2, 3, 11, 12, 13, 14, 15, 16, 20, 99] {
        for n in [0usize, 1, 2, 3, 4, 33, 34, 35, 40, 70] {
            let body: Vec<u8> = (0..n).map(|i| (i as u8).wrapping_mul(3)).collect();
            for seq in [0u16, 1, 2] {
                out.push(Item { layer: "dtls", family: format!("handshake-type-{t};short-body"), bytes: hs_record(t, seq, n as u32, 0, n as u32, &body), chain: vec![] });
            }
        }
    }
    // fragment header inconsistencies
    for (length, off, flen, blen) in [(10u32, 20u32, 5u32, 5usize), (5, 0, 10, 10), (0xFFFFFF, 0, 4, 4), (0xFFFFFF, 0xFFFFF0, 4, 4), (8, 4, 4, 4), (8, 0, 4, 4), (0, 0, 0, 0), (4, 0, 8, 4)] {
        for t in [1u8, 2, 11, 12, 16] {
            for seq in [0u16, 1, 2, 3] {
                out.push(Item { layer: "dtls", family: "fragment-fields".into(), bytes: hs_record(t, seq, length, off, flen, &vec![7u8; blen]), chain: vec![] });
            }
        }
    }
    // multi-step inputs: a handshake message delivered as a SEQUENCE of well-formed fragments - a
    // first fragment [0..a), then a second one anywhere relative to the collected prefix (inside
    // it, overlapping its end, adjacent, beyond a hole, empty), optionally followed by the rest
    {
        let frag = |off: usize, n: usize| {
            let end = (off + n).min(ch_body.len());
            let off = off.min(end);
            hs_record(1, 0, l, off as u32, (end - off) as u32, &ch_body[off..end])
        };
        let firsts: &[usize] = if thorough { &[8, 16, 40, 64] } else { &[16, 40] };
        let lens: &[usize] = if thorough { &[0, 1, 4, 8, 16, 32] } else { &[0, 8, 16] };
        for &a in firsts {
            let mut offs = vec![0usize, 4, 8, a.saturating_sub(8), a.saturating_sub(1), a, a + 1, a + 8];
            offs.sort_unstable();
            offs.dedup();
            for &o in &offs {
                for &n in lens {
                    let base = vec![frag(o, n)];
                    out.push(Item { layer: "dtls", family: format!("ClientHello;fragment-chain;first=0..{a};second={o}+{n}"), bytes: frag(0, a), chain: base.clone() });
                    let mut with_rest = base;
                    with_rest.push(frag(a, ch_body.len()));
                    out.push(Item { layer: "dtls", family: format!("ClientHello;fragment-chain;first=0..{a};second={o}+{n};then-rest"), bytes: frag(0, a), chain: with_rest });
                }
            }
        }
    }
    // record level: every content type x epoch with lengths around the boundaries, truncated records
    for ctype in [19u8, 20, 21, 22, 23, 24, 25, 63] {
        for epoch in [0u16, 1, 2, 0xFFFF] {
            for n in [0usize, 1, 2, 7, 8, 16, 23, 24, 25, 64] {
                let body: Vec<u8> = (0..n).map(|i| (i as u8) ^ 0x5a).collect();
                let rec = wire::encode_record(ctype, epoch, 3, &body);
                out.push(Item { layer: "dtls", family: format!("record;type={ctype};epoch={epoch}"), bytes: rec.clone(), chain: vec![] });
                if n == 24 {
                    for cut in 0..rec.len() {
                        out.push(Item { layer: "dtls", family: "record;truncated".into(), bytes: rec[..cut].to_vec(), chain: vec![] });
                    }
                    let mut longer = rec.clone();
                    longer[11..13].copy_from_slice(&0xFFFFu16.to_be_bytes());
                    out.push(Item { layer: "dtls", family: "record;length-field-too-large".into(), bytes: longer, chain: vec![] });
                }
            }
        }
    }
    out
}

fn seal_as_peer(crypto: &SessionCrypto, sender: Side, seq: u64, plaintext: &[u8]) -> Vec<u8> {
    let (cipher, iv) = match sender {
        Side::A => (&crypto.client_write_cipher, &crypto.keys.client_write_iv),
        Side::B => (&crypto.server_write_cipher, &crypto.keys.server_write_iv),
    };
    let epoch = 1u16;
    let full_seq = ((epoch as u64) << 48) | seq;
    let mut nonce = [0u8; 12];
    nonce[..4].copy_from_slice(iv);
    nonce[4..].copy_from_slice(&full_seq.to_be_bytes());
    let mut aad = [0u8; 13];
    aad[..8].copy_from_slice(&full_seq.to_be_bytes());
    aad[8] = 23;
    aad[9] = 0xfe;
    aad[10] = 0xfd;
    aad[11..13].copy_from_slice(&(plaintext.len() as u16).to_be_bytes());
    let ct = cipher.encrypt(Nonce::from_slice(&nonce), Payload { msg: plaintext, aad: &aad }).expect("seal");
    let mut body = full_seq.to_be_bytes().to_vec();
    body.extend_from_slice(&ct);
    wire::encode_record(23, epoch, seq, &body)
}

#[derive(Clone, Debug, Default)]
pub struct LiveObs {
    pub panic: Option<String>,
    pub injected: bool,
    pub post_exchange_ok: bool,
    pub end_ms: u64,
}

async fn pump_n(a: &End, b: &End, net_rx: &mut sim::NetRx, buf: &mut Vec<u8>, max: usize, idle_ms: u64, hold_app: bool, held: &mut Vec<Dgram>) -> usize {
    let mut n = 0;
    while n < max {
        match sim::next_dgram(net_rx, Duration::from_millis(idle_ms)).await {
            Some(d) => {
                let is_app = wire::dtls_records(&d.data).iter().all(|r| r.ctype == 23);
                if hold_app && is_app {
                    held.push(d);
                    continue;
                }
                sim::deliver(a, b, &d, buf).await;
                n += 1;
            }
            None => break,
        }
    }
    n
}

pub fn run_case(item: &Item, stage: Stage, victim: Side, seed: u64) -> Option<LiveObs> {
    let item = item.clone();
    sim::run_with_watchdog(seed, Duration::from_secs(15), move || {
        Box::pin(async move {
            crate::LAST_PANIC_LOC.with(|l| l.borrow_mut().clear());
            // Own the SCTP randomness: both initial TSNs are 1000 - the catalogue's TSNs (1000..1005)
            // are then the next ones the victim expects from its peer, so DATA / FORWARD-TSN items
            // are in range instead of landing at a random distance - and every later random_u32()
            // comes from a stream derived from the seed (replays are exact).
            rustrtc::verif::clear_forced_u32();
            rustrtc::verif::force_u32(&[0x1111_1111, 1000, 0x2222_2222, 1000]);
            {
                let mut x = seed.wrapping_mul(0x9E3779B97F4A7C15).wrapping_add(0xD1B54A32D192ED03);
                let vals: Vec<u32> = (0..1024)
                    .map(|_| {
                        x ^= x << 13;
                        x ^= x >> 7;
                        x ^= x << 17;
                        (x >> 16) as u32
                    })
                    .collect();
                rustrtc::verif::force_u32(&vals);
            }
            let start = tokio::time::Instant::now();
            let (net_tx, mut net_rx) = tokio::sync::mpsc::unbounded_channel();
            let certs = sim::certs();
            let rtc = sim::default_rtc();
            let chan = vec![(0u16, DataChannelConfig { ordered: true, negotiated: Some(0), ..Default::default() })];
            let cfg = EndCfg { with_sctp: true, channels: chan, expected_fingerprint: None, rtc };
            let mut a = sim::mk_end(Side::A, certs.a.clone(), net_tx.clone(), &cfg).await;
            let mut b = sim::mk_end(Side::B, certs.b.clone(), net_tx.clone(), &cfg).await;
            drop(net_tx);
            let mut buf = Vec::new();
            let mut held: Vec<Dgram> = vec![];
            let mut obs = LiveObs::default();
            let vaddr = if victim == Side::A { sim::addr(sim::ADDR_A) } else { sim::addr(sim::ADDR_B) };
            let paddr = if victim == Side::A { sim::addr(sim::ADDR_B) } else { sim::addr(sim::ADDR_A) };
            let mut seq = 0x4000u64;
            macro_rules! inject {
                () => {{
                    let dg = if item.layer == "sctp" {
                        let crypto = sim::crypto_of(&a).or(sim::crypto_of(&b));
                        crypto.map(|c| {
                            seq += 1;
                            seal_as_peer(&c, victim.other(), seq, &item.bytes)
                        })
                    } else {
                        Some(item.bytes.clone())
                    };
                    if let Some(data) = dg {
                        obs.injected = true;
                        sim::deliver(&a, &b, &Dgram { data, from: paddr, to: vaddr }, &mut buf).await;
                    }
                    for extra in &item.chain {
                        // each further packet after the victim has processed the previous one
                        tokio::time::sleep(Duration::from_millis(2)).await;
                        let dg = if item.layer == "sctp" {
                            sim::crypto_of(&a).or(sim::crypto_of(&b)).map(|c| {
                                seq += 1;
                                seal_as_peer(&c, victim.other(), seq, extra)
                            })
                        } else {
                            Some(extra.clone())
                        };
                        if let Some(data) = dg {
                            sim::deliver(&a, &b, &Dgram { data, from: paddr, to: vaddr }, &mut buf).await;
                        }
                    }
                }};
            }
            if stage == Stage::PreHandshake {
                inject!();
            }
            pump_n(&a, &b, &mut net_rx, &mut buf, 5, 100, false, &mut held).await;
            if stage == Stage::MidHandshake {
                inject!();
            }
            // finish DTLS, holding SCTP traffic back
            for _ in 0..100 {
                pump_n(&a, &b, &mut net_rx, &mut buf, 64, 100, true, &mut held).await;
                if sim::crypto_of(&a).is_some() && sim::crypto_of(&b).is_some() {
                    break;
                }
            }
            if stage == Stage::DtlsUpSctpDown {
                inject!();
                tokio::time::sleep(Duration::from_millis(50)).await;
            }
            for d in held.drain(..) {
                sim::deliver(&a, &b, &d, &mut buf).await;
            }
            pump_n(&a, &b, &mut net_rx, &mut buf, 64, 300, false, &mut held).await;
            // one genuine exchange
            if let Some(s) = &a.sctp {
                let _ = s.send_data(0, b"genuine-1").await;
            }
            pump_n(&a, &b, &mut net_rx, &mut buf, 64, 300, false, &mut held).await;
            if stage == Stage::Established {
                inject!();
            }
            if stage == Stage::AfterAbort {
                // a well-formed ABORT from the peer closes the victim's association; then the item
                let abort = sctp_packet_raw(&wire::raw_chunk(6, 0, &[]));
                if let Some(c) = sim::crypto_of(&a).or(sim::crypto_of(&b)) {
                    seq += 1;
                    let data = seal_as_peer(&c, victim.other(), seq, &abort);
                    sim::deliver(&a, &b, &Dgram { data, from: paddr, to: vaddr }, &mut buf).await;
                }
                tokio::time::sleep(Duration::from_millis(50)).await;
                inject!();
            }
            pump_n(&a, &b, &mut net_rx, &mut buf, 256, 300, false, &mut held).await;
            // a fresh exchange afterwards (informational: some items legitimately end the association)
            let (tx_end, rx_end) = if victim == Side::A { (&b, &a) } else { (&a, &b) };
            if let Some(s) = &tx_end.sctp {
                let _ = s.send_data(0, b"genuine-2").await;
            }
            pump_n(&a, &b, &mut net_rx, &mut buf, 256, 500, false, &mut held).await;
            if let Some(dc) = rx_end.dcs.first() {
                while let Ok(Some(ev)) = tokio::time::timeout(Duration::from_millis(1), dc.recv()).await {
                    if let rustrtc::transports::datachannel::DataChannelEvent::Message(m) = ev {
                        if &m[..] == b"genuine-2" {
                            obs.post_exchange_ok = true;
                        }
                    }
                }
            }
            // let timers run a little (retransmissions, SACK delays) so late effects surface
            tokio::time::sleep(Duration::from_millis(1500)).await;
            pump_n(&a, &b, &mut net_rx, &mut buf, 256, 200, false, &mut held).await;
            // did any task die?
            for h in a.tasks.iter().chain(b.tasks.iter()) {
                if h.is_finished() {
                    // a finished runner is legitimate after close; a panic is recorded by the hook
                }
            }
            obs.end_ms = (tokio::time::Instant::now() - start).as_millis() as u64;
            for h in a.tasks.drain(..).chain(b.tasks.drain(..)) {
                h.abort();
            }
            let loc = crate::LAST_PANIC_LOC.with(|l| l.borrow().clone());
            if !loc.is_empty() {
                obs.panic = Some(loc);
            }
            obs
        })
    })
}

/// Runs the live part and adds its coverage / violations to the report. Returns the number of
/// executions.
pub fn live_part(rep: &mut crate::Report, thorough: bool, seed: u64) -> u64 {
    let sctp = sctp_catalog(thorough);
    let dtls_items = dtls_catalog(thorough);
    let mut cases: Vec<(Item, Stage, Side)> = vec![];
    for it in &sctp {
        let stages: &[Stage] = if thorough { &[Stage::DtlsUpSctpDown, Stage::Established, Stage::AfterAbort] } else { &[Stage::DtlsUpSctpDown, Stage::Established] };
        for st in stages.iter().copied() {
            for v in [Side::A, Side::B] {
                cases.push((it.clone(), st, v));
            }
        }
    }
    for it in &dtls_items {
        let stages: &[Stage] = if thorough { &[Stage::PreHandshake, Stage::MidHandshake, Stage::Established] } else { &[Stage::PreHandshake, Stage::Established] };
        for st in stages.iter().copied() {
            for v in [Side::A, Side::B] {
                cases.push((it.clone(), st, v));
            }
        }
    }
    let results: Vec<(usize, Option<LiveObs>)> = cases.par_iter().enumerate().map(|(i, (it, st, v))| (i, run_case(it, *st, *v, seed))).collect();
    let mut post_ok = 0u64;
    let mut families = std::collections::BTreeSet::new();
    for (i, o) in &results {
        let (it, st, v) = &cases[*i];
        families.insert(format!("{}|{:?}", it.family, st));
        match o {
            None => rep.violation(crate::Violation {
                signature: format!("live;hang;layer={};item={};stage={:?};victim={}", it.layer, it.family, st, v.name()),
                detail: "the execution did not finish within the real-time watchdog (unbounded loop)".into(),
                replay: json!({"part": "live", "layer": it.layer, "family": it.family, "bytes": crate::hex(&it.bytes), "chain": it.chain.iter().map(|c| crate::hex(c)).collect::<Vec<_>>(), "stage": format!("{st:?}"), "victim": v.name()}),
            }),
            Some(o) => {
                if !o.injected {
                    crate::machinery_failure(&format!("live item not injected: {} {:?}", it.family, st));
                }
                if o.post_exchange_ok {
                    post_ok += 1;
                }
                if let Some(p) = &o.panic {
                    rep.violation(crate::Violation {
                        signature: format!("live;panic[{}];layer={};item={};stage={:?}", crate::panic_class(p), it.layer, it.family, st),
                        detail: format!("a task panicked at {p} after this datagram was delivered to {}", v.name()),
                        replay: json!({"part": "live", "layer": it.layer, "family": it.family, "bytes": crate::hex(&it.bytes), "chain": it.chain.iter().map(|c| crate::hex(c)).collect::<Vec<_>>(), "stage": format!("{st:?}"), "victim": v.name()}),
                    });
                }
            }
        }
    }
    rep.set("live_executions", cases.len() as u64);
    rep.set("live_sctp_items", sctp.len() as u64);
    rep.set("live_dtls_items", dtls_items.len() as u64);
    rep.set("live_item_families_x_stages", families.len() as u64);
    rep.set("live_executions_where_a_fresh_exchange_still_worked", post_ok);
    rep.sample(json!({"part": "live", "example_item": cases[cases.len() / 2].0.family, "stage": format!("{:?}", cases[cases.len() / 2].1), "bytes": crate::hex(&cases[cases.len() / 2].0.bytes)}));
    cases.len() as u64
}

pub fn replay_live(r: &serde_json::Value, seed: u64) -> i32 {
    let layer = if r["layer"] == "sctp" { "sctp" } else { "dtls" };
    let item = Item { layer, family: r["family"].as_str().unwrap_or("").to_string(), bytes: crate::unhex(r["bytes"].as_str().unwrap_or("")),
        chain: r["chain"].as_array().map(|a| a.iter().map(|x| crate::unhex(x.as_str().unwrap_or(""))).collect()).unwrap_or_default() };
    let stage = [Stage::PreHandshake, Stage::MidHandshake, Stage::DtlsUpSctpDown, Stage::Established, Stage::AfterAbort]
        .into_iter()
        .find(|s| format!("{s:?}") == r["stage"].as_str().unwrap_or(""))
        .unwrap_or(Stage::Established);
    let victim = if r["victim"] == "A" { Side::A } else { Side::B };
    let mut bad = false;
    for round in 0..2 {
        let o = run_case(&item, stage, victim, seed);
        println!("replay {round}: {:?}", o);
        bad |= o.as_ref().map_or(true, |o| o.panic.is_some());
    }
    if bad { 1 } else { 0 }
}

pub fn unused(_: Bytes) {}
