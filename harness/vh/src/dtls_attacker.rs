//! A programmable, hand-written DTLS 1.2 server (ECDHE-ECDSA-AES128-GCM-SHA256, classic master
//! secret, use_srtp profile 1) used as the on-path attacker in C02. Unlike a real DtlsTransport it
//! can send any sequence of Certificate messages around its ServerKeyExchange; the key exchange
//! is always signed with the attacker's own key (it holds no other private key).
//! It is a synchronous state machine: datagram in -> datagrams out.
use aes_gcm::aead::{Aead, Payload};
use aes_gcm::{Aes128Gcm, KeyInit, Nonce};
use bytes::{Bytes, BytesMut};
use hmac::{Hmac, Mac};
use p256::ecdh::EphemeralSecret;
use p256::ecdsa::{Signature, SigningKey, signature::Signer};
use p256::elliptic_curve::rand_core::OsRng;
use p256::elliptic_curve::sec1::ToEncodedPoint;
use p256::pkcs8::DecodePrivateKey;
use p256::PublicKey;
use rustrtc::transports::dtls::handshake::{CertificateMessage, ClientHello, ClientKeyExchange, Finished, Random, ServerHello, ServerKeyExchange};
use rustrtc::transports::dtls::record::ProtocolVersion;
use sha2::{Digest, Sha256};

use crate::wire::{self, Hs};

#[derive(Clone, Debug, PartialEq, Eq)]
pub enum Step {
    /// a Certificate message carrying this chain (DER certificates)
    Certificate(Vec<Vec<u8>>),
    /// the ServerKeyExchange, signed with the attacker's key
    KeyExchange,
    /// the attacker's ServerKeyExchange (its own P-256 share, signed with its own key) but
    /// LABELLED with another curve type / named curve: a client that decides from the label
    /// whether it can check the signature must not go on with the share
    KeyExchangeLabelled { curve_type: u8, named_curve: u16 },
    /// a ServerKeyExchange exactly as the GENUINE server would send it for this handshake: a fresh
    /// ephemeral share whose secret the attacker does not have, signed with the genuine server's
    /// key over (client random, server random, parameters). This is what an on-path attacker
    /// obtains by relaying the ClientHello to the live genuine server and copying its answer (a
    /// signing oracle); the attacker cannot derive keys from it.
    HonestKeyExchange,
    /// a further ServerHello with a FRESH server random in the middle of the flight; the attacker
    /// signs later key exchanges over, and derives keys from, the newest random
    ServerHelloAgain,
    /// a premature ServerHelloDone in the middle of the flight (the final one is still sent)
    HelloDone,
    /// the attacker's own share (secp256r1, correctly labelled) with a chosen signature-algorithm
    /// label and a chosen signature blob
    KeyExchangeCustom { alg: (u8, u8), sig: SigKind },
}

/// what the signature field of a KeyExchangeCustom holds
#[derive(Clone, Copy, Debug, PartialEq, Eq)]
pub enum SigKind {
    /// a correct DER ECDSA signature by the ATTACKER's key
    AttackerDer,
    /// the attacker's signature as fixed-size r||s (64 bytes), not DER
    AttackerRaw,
    /// the attacker's DER signature followed by two garbage bytes
    AttackerDerTrailing,
    /// a signature by the GENUINE key (signing oracle) over ANOTHER share (the one the genuine server
    /// chose), transplanted next to the attacker's share
    HonestOverOtherShare,
    /// zero bytes of signature
    Empty,
    /// DER SEQUENCE { INTEGER 0, INTEGER 0 }
    ZeroDer,
    /// DER SEQUENCE { INTEGER 1, INTEGER 1 }
    OnesDer,
}

/// what the attacker answers the client's second flight with
#[derive(Clone, Copy, Debug, PartialEq, Eq)]
pub enum Finale {
    /// the proper ChangeCipherSpec + encrypted Finished (only possible when it holds the keys)
    Proper,
    /// a Finished in the clear (epoch 0) whose verify_data is `len` bytes long, all `fill`
    Plain { len: u8, fill: u8 },
    /// ChangeCipherSpec, then the same cleartext Finished (still epoch 0)
    CcsThenPlain { len: u8, fill: u8 },
    /// ChangeCipherSpec, then an epoch-1 record that is not encrypted at all (a bare Finished)
    CcsThenBareEpoch1 { len: u8 },
}

pub const FINALES: &[Finale] = &[
    Finale::Plain { len: 0, fill: 0 },
    Finale::Plain { len: 1, fill: 0 },
    Finale::Plain { len: 11, fill: 0 },
    Finale::Plain { len: 12, fill: 0 },
    Finale::Plain { len: 12, fill: 0xff },
    Finale::Plain { len: 13, fill: 0 },
    Finale::CcsThenPlain { len: 0, fill: 0 },
    Finale::CcsThenPlain { len: 12, fill: 0 },
    Finale::CcsThenBareEpoch1 { len: 0 },
    Finale::CcsThenBareEpoch1 { len: 12 },
];

pub const SIG_KINDS: &[SigKind] = &[SigKind::AttackerDer, SigKind::AttackerRaw, SigKind::AttackerDerTrailing, SigKind::HonestOverOtherShare, SigKind::Empty, SigKind::ZeroDer, SigKind::OnesDer];

/// own encoder (the repository's always writes the label 4,3)
fn encode_ske(curve_type: u8, named_curve: u16, public: &[u8], alg: (u8, u8), sig: &[u8]) -> Vec<u8> {
    let mut b = vec![curve_type];
    b.extend_from_slice(&named_curve.to_be_bytes());
    b.push(public.len() as u8);
    b.extend_from_slice(public);
    b.push(alg.0);
    b.push(alg.1);
    b.extend_from_slice(&(sig.len() as u16).to_be_bytes());
    b.extend_from_slice(sig);
    b
}

pub struct ScriptedServer {
    signing: SigningKey,
    honest: Option<SigningKey>,
    secret: Option<EphemeralSecret>,
    public: Vec<u8>,
    script: Vec<Step>,
    finale: Finale,
    pub finale_sent: bool,
    /// answer the first (cookie-less) ClientHello with a HelloVerifyRequest; the scripted flight
    /// follows the second ClientHello
    cookie_exchange: bool,
    pub hvr_sent: bool,
    started: bool,
    msg_seq: u16,
    rec_seq: u64,
    transcript: Vec<u8>,
    client_random: Vec<u8>,
    server_random: Vec<u8>,
    keys: Option<(Vec<u8>, Vec<u8>)>, // (master secret, key block)
    first_flight: Vec<Vec<u8>>,
    pub finished_sent: bool,
    pub client_finished_verified: bool,
    final_flight: Vec<u8>,
}

fn prf_sha256(secret: &[u8], label: &[u8], seed: &[u8], out_len: usize) -> Vec<u8> {
    let mut real_seed = label.to_vec();
    real_seed.extend_from_slice(seed);
    let proto = <Hmac<Sha256> as hmac::digest::KeyInit>::new_from_slice(secret).unwrap();
    let mut a = real_seed.clone();
    let mut out = Vec::new();
    while out.len() < out_len {
        let mut mac = proto.clone();
        mac.update(&a);
        a = mac.finalize().into_bytes().to_vec();
        let mut mac = proto.clone();
        mac.update(&a);
        mac.update(&real_seed);
        out.extend_from_slice(&mac.finalize().into_bytes());
    }
    out.truncate(out_len);
    out
}

fn aad(full_seq: u64, ct: u8, len: usize) -> [u8; 13] {
    let mut a = [0u8; 13];
    a[..8].copy_from_slice(&full_seq.to_be_bytes());
    a[8] = ct;
    a[9] = 0xfe;
    a[10] = 0xfd;
    a[11..13].copy_from_slice(&(len as u16).to_be_bytes());
    a
}

fn seal(key: &[u8], iv: &[u8], full_seq: u64, ct: u8, plain: &[u8]) -> Vec<u8> {
    let mut nonce = [0u8; 12];
    nonce[..4].copy_from_slice(iv);
    nonce[4..].copy_from_slice(&full_seq.to_be_bytes());
    let c = Aes128Gcm::new_from_slice(key).unwrap();
    let sealed = c.encrypt(Nonce::from_slice(&nonce), Payload { msg: plain, aad: &aad(full_seq, ct, plain.len()) }).unwrap();
    let mut out = nonce[4..].to_vec();
    out.extend_from_slice(&sealed);
    out
}

fn open(key: &[u8], iv: &[u8], full_seq: u64, ct: u8, body: &[u8]) -> Option<Vec<u8>> {
    if body.len() < 24 {
        return None;
    }
    let mut nonce = [0u8; 12];
    nonce[..4].copy_from_slice(iv);
    nonce[4..].copy_from_slice(&body[..8]);
    let c = Aes128Gcm::new_from_slice(key).unwrap();
    c.decrypt(Nonce::from_slice(&nonce), Payload { msg: &body[8..], aad: &aad(full_seq, ct, body.len() - 24) }).ok()
}

impl ScriptedServer {
    pub fn new(attacker_private_key_pem: &str, script: Vec<Step>) -> Self {
        let signing = SigningKey::from_pkcs8_pem(attacker_private_key_pem).expect("attacker key");
        let secret = EphemeralSecret::random(&mut OsRng);
        let public = secret.public_key().to_encoded_point(false).as_bytes().to_vec();
        ScriptedServer {
            signing,
            honest: None,
            secret: Some(secret),
            public,
            script,
            finale: Finale::Proper,
            finale_sent: false,
            cookie_exchange: false,
            hvr_sent: false,
            started: false,
            msg_seq: 0,
            rec_seq: 0,
            transcript: vec![],
            client_random: vec![],
            server_random: vec![],
            keys: None,
            first_flight: vec![],
            finished_sent: false,
            client_finished_verified: false,
            final_flight: vec![],
        }
    }

    pub fn with_cookie_exchange(mut self, on: bool) -> Self {
        self.cookie_exchange = on;
        self
    }

    pub fn with_finale(mut self, f: Finale) -> Self {
        self.finale = f;
        self
    }

    /// Gives the script access to the genuine server as a signing oracle (Step::HonestKeyExchange).
    pub fn with_honest_key(mut self, genuine_private_key_pem: &str) -> Self {
        self.honest = Some(SigningKey::from_pkcs8_pem(genuine_private_key_pem).expect("genuine key"));
        self
    }

    /// a ServerHello body with a fresh random (remembered as THE server random from now on)
    fn server_hello_body(&mut self) -> BytesMut {
        let random = Random::new();
        self.server_random = random.to_bytes();
        let mut session_id = vec![0u8; 32];
        session_id[0] = 0xA7;
        let sh = ServerHello {
            version: ProtocolVersion::DTLS_1_2,
            random,
            session_id,
            cipher_suite: 0xC02B,
            compression_method: 0,
            // use_srtp: SRTP_AES128_CM_HMAC_SHA1_80, no MKI; no extended master secret
            extensions: vec![0x00, 0x0e, 0x00, 0x05, 0x00, 0x02, 0x00, 0x01, 0x00],
        };
        let mut b = BytesMut::new();
        sh.encode(&mut b);
        b
    }

    fn signed_params(&self, curve_type: u8, named_curve: u16, public: &[u8]) -> Vec<u8> {
        let mut p = vec![];
        p.extend_from_slice(&self.client_random);
        p.extend_from_slice(&self.server_random);
        p.push(curve_type);
        p.extend_from_slice(&named_curve.to_be_bytes());
        p.push(public.len() as u8);
        p.extend_from_slice(public);
        p
    }

    fn hs(&mut self, msg_type: u8, body: &[u8]) -> Vec<u8> {
        let h = Hs { msg_type, length: body.len() as u32, message_seq: self.msg_seq, frag_off: 0, frag_len: body.len() as u32, body: body.to_vec() };
        self.msg_seq += 1;
        let raw = wire::encode_hs(&h);
        self.transcript.extend_from_slice(&raw);
        let rec = wire::encode_record(22, 0, self.rec_seq, &raw);
        self.rec_seq += 1;
        rec
    }

    /// Process one datagram from the client; returns the datagrams to send back.
    pub fn on_datagram(&mut self, d: &[u8]) -> Vec<Vec<u8>> {
        let mut out = vec![];
        for r in wire::dtls_records(d) {
            match (r.ctype, r.epoch) {
                (22, 0) => {
                    for h in wire::handshake_msgs(&r.body) {
                        if h.frag_len != h.length {
                            continue;
                        }
                        let raw = wire::encode_hs(&h);
                        match h.msg_type {
                            1 => {
                                if self.started {
                                    // retransmitted ClientHello: resend the first flight
                                    out.extend(self.first_flight.clone());
                                    continue;
                                }
                                let mut body = Bytes::from(h.body.clone());
                                let Ok(hello) = ClientHello::decode(&mut body) else { continue };
                                if self.cookie_exchange && hello.cookie.is_empty() {
                                    // HelloVerifyRequest: message_seq 0, not part of any transcript
                                    let hb = vec![0xfe, 0xfd, 8, 0xc0, 0x0c, 0x1e, 0x5e, 0xed, 0x00, 0x00, 0x01];
                                    let hvr = Hs { msg_type: 3, length: hb.len() as u32, message_seq: 0, frag_off: 0, frag_len: hb.len() as u32, body: hb };
                                    out.push(wire::encode_record(22, 0, self.rec_seq, &wire::encode_hs(&hvr)));
                                    self.rec_seq += 1;
                                    self.msg_seq = 1;
                                    self.hvr_sent = true;
                                    continue;
                                }
                                self.started = true;
                                self.client_random = hello.random.to_bytes();
                                self.transcript = raw.clone();
                                let b = self.server_hello_body();
                                let mut flight = vec![self.hs(2, &b)];
                                for step in self.script.clone() {
                                    match step {
                                        Step::Certificate(chain) => {
                                            let mut b = BytesMut::new();
                                            CertificateMessage { certificates: chain }.encode(&mut b);
                                            flight.push(self.hs(11, &b));
                                        }
                                        Step::HonestKeyExchange => {
                                            let Some(honest) = self.honest.clone() else { continue };
                                            let eph = EphemeralSecret::random(&mut OsRng);
                                            let public = eph.public_key().to_encoded_point(false).as_bytes().to_vec();
                                            drop(eph); // the genuine server's secret never reaches the attacker
                                            let mut p = vec![];
                                            p.extend_from_slice(&self.client_random);
                                            p.extend_from_slice(&self.server_random);
                                            p.push(3);
                                            p.extend_from_slice(&23u16.to_be_bytes());
                                            p.push(public.len() as u8);
                                            p.extend_from_slice(&public);
                                            let sig: Signature = honest.sign(&p);
                                            let ske = ServerKeyExchange { curve_type: 3, named_curve: 23, public_key: public, signature: sig.to_der().as_bytes().to_vec() };
                                            let mut b = BytesMut::new();
                                            ske.encode(&mut b);
                                            flight.push(self.hs(12, &b));
                                        }
                                        Step::KeyExchangeLabelled { curve_type, named_curve } => {
                                            let mut p = vec![];
                                            p.extend_from_slice(&self.client_random);
                                            p.extend_from_slice(&self.server_random);
                                            p.push(curve_type);
                                            p.extend_from_slice(&named_curve.to_be_bytes());
                                            p.push(self.public.len() as u8);
                                            p.extend_from_slice(&self.public);
                                            let sig: Signature = self.signing.sign(&p);
                                            let ske = ServerKeyExchange { curve_type, named_curve, public_key: self.public.clone(), signature: sig.to_der().as_bytes().to_vec() };
                                            let mut b = BytesMut::new();
                                            ske.encode(&mut b);
                                            flight.push(self.hs(12, &b));
                                        }
                                        Step::ServerHelloAgain => {
                                            let b = self.server_hello_body();
                                            flight.push(self.hs(2, &b));
                                        }
                                        Step::HelloDone => {
                                            flight.push(self.hs(14, &[]));
                                        }
                                        Step::KeyExchangeCustom { alg, sig } => {
                                            let public = self.public.clone();
                                            let p = self.signed_params(3, 23, &public);
                                            let own: Signature = self.signing.sign(&p);
                                            let blob: Vec<u8> = match sig {
                                                SigKind::AttackerDer => own.to_der().as_bytes().to_vec(),
                                                SigKind::AttackerRaw => own.to_bytes().to_vec(),
                                                SigKind::AttackerDerTrailing => {
                                                    let mut v = own.to_der().as_bytes().to_vec();
                                                    v.extend_from_slice(&[0x05, 0x00]);
                                                    v
                                                }
                                                SigKind::HonestOverOtherShare => {
                                                    let Some(honest) = self.honest.clone() else { continue };
                                                    let eph = EphemeralSecret::random(&mut OsRng);
                                                    let other = eph.public_key().to_encoded_point(false).as_bytes().to_vec();
                                                    let s: Signature = honest.sign(&self.signed_params(3, 23, &other));
                                                    s.to_der().as_bytes().to_vec()
                                                }
                                                SigKind::Empty => vec![],
                                                SigKind::ZeroDer => vec![0x30, 0x06, 0x02, 0x01, 0x00, 0x02, 0x01, 0x00],
                                                SigKind::OnesDer => vec![0x30, 0x06, 0x02, 0x01, 0x01, 0x02, 0x01, 0x01],
                                            };
                                            let b = encode_ske(3, 23, &public, alg, &blob);
                                            flight.push(self.hs(12, &b));
                                        }
                                        Step::KeyExchange => {
                                            let mut p = vec![];
                                            p.extend_from_slice(&self.client_random);
                                            p.extend_from_slice(&self.server_random);
                                            p.push(3);
                                            p.extend_from_slice(&23u16.to_be_bytes());
                                            p.push(self.public.len() as u8);
                                            p.extend_from_slice(&self.public);
                                            let sig: Signature = self.signing.sign(&p);
                                            let ske = ServerKeyExchange { curve_type: 3, named_curve: 23, public_key: self.public.clone(), signature: sig.to_der().as_bytes().to_vec() };
                                            let mut b = BytesMut::new();
                                            ske.encode(&mut b);
                                            flight.push(self.hs(12, &b));
                                        }
                                    }
                                }
                                flight.push(self.hs(14, &[]));
                                self.first_flight = flight.clone();
                                out.extend(flight);
                            }
                            16 if self.started && self.finale != Finale::Proper => {
                                if self.finale_sent {
                                    continue;
                                }
                                self.finale_sent = true;
                                let (ccs, epoch, len, fill) = match self.finale {
                                    Finale::Plain { len, fill } => (false, 0u16, len, fill),
                                    Finale::CcsThenPlain { len, fill } => (true, 0, len, fill),
                                    Finale::CcsThenBareEpoch1 { len } => (true, 1, len, 0),
                                    Finale::Proper => unreachable!(),
                                };
                                let mut dg = vec![];
                                if ccs {
                                    dg.extend(wire::encode_record(20, 0, self.rec_seq, &[1]));
                                    self.rec_seq += 1;
                                }
                                let body = vec![fill; len as usize];
                                let h = Hs { msg_type: 20, length: body.len() as u32, message_seq: self.msg_seq, frag_off: 0, frag_len: body.len() as u32, body };
                                let raw = wire::encode_hs(&h);
                                let seq = if epoch == 0 { self.rec_seq } else { 0 };
                                dg.extend(wire::encode_record(22, epoch, seq, &raw));
                                out.push(dg);
                            }
                            16 if self.keys.is_none() && self.started => {
                                self.transcript.extend_from_slice(&raw);
                                let mut body = Bytes::from(h.body.clone());
                                let Ok(cke) = ClientKeyExchange::decode(&mut body) else { continue };
                                let Ok(pk) = PublicKey::from_sec1_bytes(&cke.public_key) else { continue };
                                let Some(secret) = self.secret.take() else { continue };
                                let shared = secret.diffie_hellman(&pk);
                                let mut seed = self.client_random.clone();
                                seed.extend_from_slice(&self.server_random);
                                let master = prf_sha256(shared.raw_secret_bytes(), b"master secret", &seed, 48);
                                let mut seed = self.server_random.clone();
                                seed.extend_from_slice(&self.client_random);
                                let block = prf_sha256(&master, b"key expansion", &seed, 40);
                                self.keys = Some((master, block));
                            }
                            _ => {}
                        }
                    }
                }
                (22, 1) => {
                    if self.finished_sent {
                        out.push(self.final_flight.clone());
                        continue;
                    }
                    let Some((master, block)) = self.keys.clone() else { continue };
                    let (c_key, s_key, c_iv, s_iv) = (&block[0..16], &block[16..32], &block[32..36], &block[36..40]);
                    let full_seq = (1u64 << 48) | r.seq;
                    let Some(plain) = open(c_key, c_iv, full_seq, 22, &r.body) else { continue };
                    let msgs = wire::handshake_msgs(&plain);
                    let Some(fin) = msgs.first() else { continue };
                    if fin.msg_type != 20 {
                        continue;
                    }
                    let mut body = Bytes::from(fin.body.clone());
                    let Ok(f) = Finished::decode(&mut body) else { continue };
                    let hash = Sha256::digest(&self.transcript);
                    let expect = prf_sha256(&master, b"client finished", &hash, 12);
                    self.client_finished_verified = f.verify_data == expect;
                    if !self.client_finished_verified {
                        continue;
                    }
                    self.transcript.extend_from_slice(&plain);
                    let mut dg = wire::encode_record(20, 0, self.rec_seq, &[1]);
                    let hash = Sha256::digest(&self.transcript);
                    let verify_data = prf_sha256(&master, b"server finished", &hash, 12);
                    let mut body = BytesMut::new();
                    Finished { verify_data }.encode(&mut body);
                    let h = Hs { msg_type: 20, length: body.len() as u32, message_seq: self.msg_seq, frag_off: 0, frag_len: body.len() as u32, body: body.to_vec() };
                    let raw = wire::encode_hs(&h);
                    dg.extend(wire::encode_record(22, 1, 0, &seal(s_key, s_iv, 1u64 << 48, 22, &raw)));
                    // application data from the attacker under the session keys
                    dg.extend(wire::encode_record(23, 1, 1, &seal(s_key, s_iv, (1u64 << 48) | 1, 23, b"hello from the wrong peer")));
                    self.final_flight = dg.clone();
                    self.finished_sent = true;
                    out.push(dg);
                }
                _ => {}
            }
        }
        out
    }
}
