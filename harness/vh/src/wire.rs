//! The harness's own wire readers (independent of rustrtc's decoders): DTLS records and
//! handshake headers, SCTP packets and chunks, DTLS application-record decryption with the
//! keys published in `DtlsState::Connected`.
use aes_gcm::aead::{Aead, Payload};
use aes_gcm::{Aes128Gcm, Nonce};

#[derive(Clone, Debug)]
pub struct Rec {
    pub ctype: u8,
    pub epoch: u16,
    pub seq: u64,
    pub off: usize, // offset of the record header in the datagram
    pub body: Vec<u8>,
}

/// Split a datagram into DTLS records (stops at the first malformed one).
pub fn dtls_records(d: &[u8]) -> Vec<Rec> {
    let mut out = vec![];
    let mut i = 0;
    while i + 13 <= d.len() {
        let ctype = d[i];
        let epoch = u16::from_be_bytes([d[i + 3], d[i + 4]]);
        let mut s = [0u8; 8];
        s[2..8].copy_from_slice(&d[i + 5..i + 11]);
        let seq = u64::from_be_bytes(s);
        let len = u16::from_be_bytes([d[i + 11], d[i + 12]]) as usize;
        if i + 13 + len > d.len() {
            break;
        }
        out.push(Rec { ctype, epoch, seq, off: i, body: d[i + 13..i + 13 + len].to_vec() });
        i += 13 + len;
    }
    out
}

pub fn encode_record(ctype: u8, epoch: u16, seq: u64, body: &[u8]) -> Vec<u8> {
    let mut v = vec![ctype, 0xfe, 0xfd];
    v.extend_from_slice(&epoch.to_be_bytes());
    v.extend_from_slice(&seq.to_be_bytes()[2..8]);
    v.extend_from_slice(&(body.len() as u16).to_be_bytes());
    v.extend_from_slice(body);
    v
}

#[derive(Clone, Debug)]
pub struct Hs {
    pub msg_type: u8,
    pub length: u32,
    pub message_seq: u16,
    pub frag_off: u32,
    pub frag_len: u32,
    pub body: Vec<u8>,
}

/// Handshake messages inside one epoch-0 handshake record body.
pub fn handshake_msgs(body: &[u8]) -> Vec<Hs> {
    let mut out = vec![];
    let mut i = 0;
    while i + 12 <= body.len() {
        let msg_type = body[i];
        let length = u32::from_be_bytes([0, body[i + 1], body[i + 2], body[i + 3]]);
        let message_seq = u16::from_be_bytes([body[i + 4], body[i + 5]]);
        let frag_off = u32::from_be_bytes([0, body[i + 6], body[i + 7], body[i + 8]]);
        let frag_len = u32::from_be_bytes([0, body[i + 9], body[i + 10], body[i + 11]]);
        let end = i + 12 + frag_len as usize;
        if end > body.len() {
            break;
        }
        out.push(Hs { msg_type, length, message_seq, frag_off, frag_len, body: body[i + 12..end].to_vec() });
        i = end;
    }
    out
}

pub fn encode_hs(h: &Hs) -> Vec<u8> {
    let mut v = vec![h.msg_type];
    v.extend_from_slice(&h.length.to_be_bytes()[1..4]);
    v.extend_from_slice(&h.message_seq.to_be_bytes());
    v.extend_from_slice(&h.frag_off.to_be_bytes()[1..4]);
    v.extend_from_slice(&h.frag_len.to_be_bytes()[1..4]);
    v.extend_from_slice(&h.body);
    v
}

pub fn hs_name(t: u8) -> &'static str {
    match t {
        0 => "HelloRequest",
        1 => "ClientHello",
        2 => "ServerHello",
        3 => "HelloVerifyRequest",
        11 => "Certificate",
        12 => "ServerKeyExchange",
        13 => "CertificateRequest",
        14 => "ServerHelloDone",
        15 => "CertificateVerify",
        16 => "ClientKeyExchange",
        20 => "Finished",
        _ => "Hs?",
    }
}

/// Short label of a DTLS datagram: record types (and handshake message types for epoch 0).
pub fn dtls_label(d: &[u8]) -> String {
    let recs = dtls_records(d);
    if recs.is_empty() {
        return format!("raw[{}]", d.len());
    }
    let mut parts = vec![];
    for r in recs {
        match (r.ctype, r.epoch) {
            (22, 0) => {
                let hs = handshake_msgs(&r.body);
                if hs.is_empty() {
                    parts.push("hs?".to_string());
                }
                for h in hs {
                    if h.frag_len != h.length {
                        parts.push(format!("{}[frag {}+{}/{}]", hs_name(h.msg_type), h.frag_off, h.frag_len, h.length));
                    } else {
                        parts.push(hs_name(h.msg_type).to_string());
                    }
                }
            }
            (22, _) => parts.push("Finished(enc)".into()),
            (20, _) => parts.push("CCS".into()),
            (21, e) => parts.push(format!("Alert(e{e})")),
            (23, e) => parts.push(format!("App(e{e})")),
            (t, e) => parts.push(format!("type{t}(e{e})")),
        }
    }
    parts.join("+")
}

/// Decrypt one AES-128-GCM DTLS 1.2 record body (explicit nonce || ciphertext || tag).
pub fn dtls_open(cipher: &Aes128Gcm, iv: &[u8], ctype: u8, epoch: u16, seq: u64, body: &[u8]) -> Option<Vec<u8>> {
    if body.len() < 24 || iv.len() != 4 {
        return None;
    }
    let mut nonce = [0u8; 12];
    nonce[..4].copy_from_slice(iv);
    nonce[4..].copy_from_slice(&body[..8]);
    let full_seq = ((epoch as u64) << 48) | seq;
    let plain_len = body.len() - 24;
    let mut aad = [0u8; 13];
    aad[..8].copy_from_slice(&full_seq.to_be_bytes());
    aad[8] = ctype;
    aad[9] = 0xfe;
    aad[10] = 0xfd;
    aad[11..13].copy_from_slice(&(plain_len as u16).to_be_bytes());
    cipher.decrypt(Nonce::from_slice(&nonce), Payload { msg: &body[8..], aad: &aad }).ok()
}

// ---------------------------------------------------------------- SCTP

#[derive(Clone, Debug, PartialEq)]
pub enum Chunk {
    Data { tsn: u32, sid: u16, ssn: u16, ppid: u32, flags: u8, len: usize, payload: Vec<u8> },
    Init { ack: bool, tag: u32, a_rwnd: u32, initial_tsn: u32 },
    Sack { cum: u32, a_rwnd: u32, gaps: Vec<(u16, u16)>, dups: Vec<u32> },
    Heartbeat { ack: bool },
    Abort,
    Shutdown,
    ShutdownAck,
    ShutdownComplete,
    Error,
    CookieEcho,
    CookieAck,
    ForwardTsn { new_cum: u32, streams: Vec<(u16, u16)> },
    Reconfig,
    Other(u8),
}

impl Chunk {
    pub fn name(&self) -> String {
        match self {
            Chunk::Data { .. } => "DATA".into(),
            Chunk::Init { ack: false, .. } => "INIT".into(),
            Chunk::Init { ack: true, .. } => "INIT-ACK".into(),
            Chunk::Sack { .. } => "SACK".into(),
            Chunk::Heartbeat { ack: false } => "HB".into(),
            Chunk::Heartbeat { ack: true } => "HB-ACK".into(),
            Chunk::Abort => "ABORT".into(),
            Chunk::Shutdown => "SHUTDOWN".into(),
            Chunk::ShutdownAck => "SHUTDOWN-ACK".into(),
            Chunk::ShutdownComplete => "SHUTDOWN-COMPLETE".into(),
            Chunk::Error => "ERROR".into(),
            Chunk::CookieEcho => "COOKIE-ECHO".into(),
            Chunk::CookieAck => "COOKIE-ACK".into(),
            Chunk::ForwardTsn { .. } => "FWD-TSN".into(),
            Chunk::Reconfig => "RECONFIG".into(),
            Chunk::Other(t) => format!("chunk{t}"),
        }
    }
}

#[derive(Clone, Debug)]
pub struct SctpPacket {
    pub src: u16,
    pub dst: u16,
    pub vtag: u32,
    pub checksum_ok: bool,
    pub well_formed: bool,
    pub chunks: Vec<Chunk>,
    pub len: usize,
}

pub fn sctp_checksum(p: &[u8]) -> u32 {
    let mut v = p.to_vec();
    if v.len() >= 12 {
        v[8..12].copy_from_slice(&[0, 0, 0, 0]);
    }
    crc32c::crc32c(&v)
}

pub fn parse_sctp(p: &[u8]) -> Option<SctpPacket> {
    if p.len() < 12 {
        return None;
    }
    let src = u16::from_be_bytes([p[0], p[1]]);
    let dst = u16::from_be_bytes([p[2], p[3]]);
    let vtag = u32::from_be_bytes([p[4], p[5], p[6], p[7]]);
    let stored = u32::from_le_bytes([p[8], p[9], p[10], p[11]]);
    let checksum_ok = stored == sctp_checksum(p);
    let mut chunks = vec![];
    let mut i = 12;
    let mut well_formed = true;
    while i + 4 <= p.len() {
        let t = p[i];
        let flags = p[i + 1];
        let len = u16::from_be_bytes([p[i + 2], p[i + 3]]) as usize;
        if len < 4 || i + len > p.len() {
            well_formed = false;
            break;
        }
        let v = &p[i + 4..i + len];
        let be32 = |o: usize| u32::from_be_bytes([v[o], v[o + 1], v[o + 2], v[o + 3]]);
        let be16 = |o: usize| u16::from_be_bytes([v[o], v[o + 1]]);
        let c = match t {
            0 if v.len() >= 12 => Chunk::Data {
                tsn: be32(0), sid: be16(4), ssn: be16(6), ppid: be32(8), flags, len: v.len() - 12, payload: v[12..].to_vec(),
            },
            1 | 2 if v.len() >= 16 => Chunk::Init { ack: t == 2, tag: be32(0), a_rwnd: be32(4), initial_tsn: be32(12) },
            3 if v.len() >= 12 => {
                let ng = be16(8) as usize;
                let nd = be16(10) as usize;
                let mut gaps = vec![];
                let mut dups = vec![];
                let mut o = 12;
                for _ in 0..ng {
                    if o + 4 <= v.len() {
                        gaps.push((be16(o), be16(o + 2)));
                        o += 4;
                    }
                }
                for _ in 0..nd {
                    if o + 4 <= v.len() {
                        dups.push(be32(o));
                        o += 4;
                    }
                }
                Chunk::Sack { cum: be32(0), a_rwnd: be32(4), gaps, dups }
            }
            4 => Chunk::Heartbeat { ack: false },
            5 => Chunk::Heartbeat { ack: true },
            6 => Chunk::Abort,
            7 => Chunk::Shutdown,
            8 => Chunk::ShutdownAck,
            9 => Chunk::Error,
            10 => Chunk::CookieEcho,
            11 => Chunk::CookieAck,
            14 => Chunk::ShutdownComplete,
            130 => Chunk::Reconfig,
            192 if v.len() >= 4 => {
                let mut streams = vec![];
                let mut o = 4;
                while o + 4 <= v.len() {
                    streams.push((be16(o), be16(o + 2)));
                    o += 4;
                }
                Chunk::ForwardTsn { new_cum: be32(0), streams }
            }
            t => Chunk::Other(t),
        };
        chunks.push(c);
        i += (len + 3) & !3;
    }
    if i < p.len() && p.len() - i >= 4 {
        well_formed = false;
    }
    Some(SctpPacket { src, dst, vtag, checksum_ok, well_formed, chunks, len: p.len() })
}

pub fn sctp_label(p: &SctpPacket) -> String {
    p.chunks.iter().map(|c| c.name()).collect::<Vec<_>>().join("+")
}

/// Build an SCTP packet with a valid CRC32c from raw chunk bytes.
pub fn build_sctp(src: u16, dst: u16, vtag: u32, chunks: &[Vec<u8>]) -> Vec<u8> {
    let mut p = vec![];
    p.extend_from_slice(&src.to_be_bytes());
    p.extend_from_slice(&dst.to_be_bytes());
    p.extend_from_slice(&vtag.to_be_bytes());
    p.extend_from_slice(&[0, 0, 0, 0]);
    for c in chunks {
        p.extend_from_slice(c);
        while p.len() % 4 != 0 {
            p.push(0);
        }
    }
    let c = crc32c::crc32c(&p);
    p[8..12].copy_from_slice(&c.to_le_bytes());
    p
}

pub fn raw_chunk(t: u8, flags: u8, value: &[u8]) -> Vec<u8> {
    let mut c = vec![t, flags];
    c.extend_from_slice(&((value.len() + 4) as u16).to_be_bytes());
    c.extend_from_slice(value);
    c
}

/// Serial-number arithmetic (RFC 1982) on 32-bit TSNs.
pub fn tsn_gt(a: u32, b: u32) -> bool {
    a != b && a.wrapping_sub(b) < 0x8000_0000
}
pub fn tsn_ge(a: u32, b: u32) -> bool {
    a == b || tsn_gt(a, b)
}
