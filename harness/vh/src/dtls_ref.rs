//! E2 runner for the *mixed* DTLS pairs of C11: one real rustrtc DtlsTransport against the
//! webrtc-rs `dtls` 0.17 reference endpoint, both on the simulator's in-memory network under the
//! paused tokio clock. The reference runs over [`SimConn`], a `webrtc_util::Conn` whose
//! `send` pushes into the same `NetTx` channel the rustrtc endpoints use and whose `recv` pops
//! what the pump delivered. The pump, the fault alphabet and the observation are those of
//! `dtls_sim` (side A = DTLS client at ADDR_A, side B = DTLS server at ADDR_B in both pairs).
//!
//! Reference facts established by reading dtls-0.17.2 (relevant to the oracle):
//! * all of its timers are `tokio::time::sleep` (retransmission = `Config::flight_interval`,
//!   default 1 s, constant, no back-off, no jitter); `std::time::SystemTime` is read only to fill
//!   the `gmt_unix_time` of the hello random (a value, not control flow); no `Instant`.
//! * it has **no handshake deadline**: `DTLSConn::new` retransmits forever, so rustrtc's 30 s
//!   deadline is the only one in the system.
//! * once `DTLSConn::new` has returned, its handshake state machine is gone: a server never
//!   re-sends its final flight (CCS+Finished) however often the client retransmits Finished
//!   (`handshake()` returns at the first `Finished` state; `finish()` is never entered for a fresh
//!   handshake). A history in which that flight never reaches rustrtc cannot converge and is
//!   attributed to the reference by C11's oracle (counted, not reported).
//! * it runs the RFC 6347 4.1.2.6 anti-replay window (64) on every record, epoch 0 included, and
//!   gives every retransmitted record a fresh sequence number. rustrtc does neither, which is
//!   why only these pairs see what a verbatim retransmission does to a checking peer.
//! * randomness (hello random, 20-byte cookie of fixed length, ECDHE key, ECDSA nonce) supplies
//!   values only; its `select!`s draw from the runtime's seeded RNG. Executions replay with
//!   identical trace hashes, so the explorer's determinism requirement stays on for these plans.
use crate::dtls_sim::{HFault, HsObs, split_datagram_n};
use crate::explore::Chooser;
use crate::sim::{self, Dgram, End, EndCfg, NetTx, Side};
use crate::wire;
use async_trait::async_trait;
use bytes::Bytes;
use dtls::cipher_suite::CipherSuiteId;
use dtls::config::{ClientAuthType, Config, ExtendedMasterSecretType};
use dtls::conn::DTLSConn;
use dtls::crypto::Certificate as RefCertificate;
use dtls::extension::extension_use_srtp::SrtpProtectionProfile;
use rustrtc::transports::PacketReceiver;
use rustrtc::transports::dtls::DtlsState;
use sha2::{Digest, Sha256};
use std::net::SocketAddr;
use std::sync::Arc;
use std::time::Duration;
use tokio::sync::mpsc;
use webrtc_util::{Conn, KeyingMaterialExporter};

type UtilResult<T> = std::result::Result<T, webrtc_util::Error>;

/// `webrtc_util::Conn` over the simulator network. Nothing here reads a clock.
pub struct SimConn {
    local: SocketAddr,
    remote: SocketAddr,
    tx: NetTx,
    rx: tokio::sync::Mutex<mpsc::UnboundedReceiver<Vec<u8>>>,
}

impl SimConn {
    pub fn new(local: SocketAddr, remote: SocketAddr, tx: NetTx) -> (Arc<SimConn>, mpsc::UnboundedSender<Vec<u8>>) {
        let (in_tx, in_rx) = mpsc::unbounded_channel();
        (Arc::new(SimConn { local, remote, tx, rx: tokio::sync::Mutex::new(in_rx) }), in_tx)
    }
    async fn pop(&self, buf: &mut [u8]) -> UtilResult<usize> {
        let mut rx = self.rx.lock().await;
        match rx.recv().await {
            Some(d) => {
                if d.len() > buf.len() {
                    return Err(webrtc_util::Error::Other(format!("datagram of {} bytes does not fit the {} byte buffer", d.len(), buf.len())));
                }
                buf[..d.len()].copy_from_slice(&d);
                Ok(d.len())
            }
            // The reference's reader loop retries on every error other than a fatal alert: an
            // error here would spin under the paused clock. A closed network simply stays silent.
            None => std::future::pending().await,
        }
    }
}

#[async_trait]
impl Conn for SimConn {
    async fn connect(&self, _addr: SocketAddr) -> UtilResult<()> {
        Ok(())
    }
    async fn recv(&self, buf: &mut [u8]) -> UtilResult<usize> {
        self.pop(buf).await
    }
    async fn recv_from(&self, buf: &mut [u8]) -> UtilResult<(usize, SocketAddr)> {
        Ok((self.pop(buf).await?, self.remote))
    }
    async fn send(&self, buf: &[u8]) -> UtilResult<usize> {
        let _ = self.tx.send((buf.to_vec(), self.local, self.remote));
        Ok(buf.len())
    }
    async fn send_to(&self, buf: &[u8], target: SocketAddr) -> UtilResult<usize> {
        let _ = self.tx.send((buf.to_vec(), self.local, target));
        Ok(buf.len())
    }
    fn local_addr(&self) -> UtilResult<SocketAddr> {
        Ok(self.local)
    }
    fn remote_addr(&self) -> Option<SocketAddr> {
        Some(self.remote)
    }
    async fn close(&self) -> UtilResult<()> {
        Ok(())
    }
    fn as_any(&self) -> &(dyn std::any::Any + Send + Sync) {
        self
    }
}

#[derive(Clone, Copy, Debug, PartialEq, Eq)]
pub enum Pair {
    /// A = rustrtc (client), B = reference (server)
    RustrtcClient,
    /// A = reference (client), B = rustrtc (server)
    RustrtcServer,
}

impl Pair {
    pub fn plan(self) -> &'static str {
        match self {
            Pair::RustrtcClient => "interop-rustrtc-client",
            Pair::RustrtcServer => "interop-rustrtc-server",
        }
    }
    pub fn from_plan(s: &str) -> Option<Pair> {
        // "interop-rustrtc-client", "interop-rustrtc-client-drops", ...
        if s.starts_with("interop-rustrtc-client") {
            Some(Pair::RustrtcClient)
        } else if s.starts_with("interop-rustrtc-server") {
            Some(Pair::RustrtcServer)
        } else {
            None
        }
    }
    pub fn rustrtc_side(self) -> Side {
        match self {
            Pair::RustrtcClient => Side::A,
            Pair::RustrtcServer => Side::B,
        }
    }
}

fn ref_cert() -> &'static RefCertificate {
    static C: std::sync::OnceLock<RefCertificate> = std::sync::OnceLock::new();
    C.get_or_init(|| {
        rustls::crypto::CryptoProvider::install_default(rustls::crypto::ring::default_provider()).ok();
        RefCertificate::generate_self_signed(vec!["localhost".to_string()]).expect("reference certificate")
    })
}

/// Same format as `rustrtc::transports::dtls::fingerprint` (upper-case hex, colon separated).
fn fingerprint_of_der(der: &[u8]) -> String {
    let mut h = Sha256::new();
    h.update(der);
    h.finalize().iter().map(|b| format!("{:02X}", b)).collect::<Vec<_>>().join(":")
}

#[derive(Clone, Debug, PartialEq, Eq)]
pub enum RefStatus {
    Handshaking,
    Connected,
    Failed(String),
}

#[derive(Default)]
struct RefShared {
    status: Option<RefStatus>,
    conn: Option<Arc<DTLSConn>>,
    peer_cert_ok: Option<bool>,
}

pub struct RefEnd {
    pub side: Side,
    in_tx: mpsc::UnboundedSender<Vec<u8>>,
    shared: Arc<parking_lot::Mutex<RefShared>>,
    app_rx: mpsc::UnboundedReceiver<Vec<u8>>,
    tasks: Vec<tokio::task::JoinHandle<()>>,
}

impl RefEnd {
    pub fn status(&self) -> RefStatus {
        self.shared.lock().status.clone().unwrap_or(RefStatus::Handshaking)
    }
    pub fn conn(&self) -> Option<Arc<DTLSConn>> {
        self.shared.lock().conn.clone()
    }
    pub fn feed(&self, d: &[u8]) {
        let _ = self.in_tx.send(d.to_vec());
    }
}

/// The reference's configuration: ECDHE-ECDSA-AES128-GCM-SHA256, both SRTP profiles rustrtc
/// offers, extended master secret requested, chain verification off and the peer certificate
/// pinned by fingerprint through `verify_peer_certificate` instead (called whenever the peer
/// presents one). The server role does NOT request a client certificate: rustrtc's client
/// ignores CertificateRequest and sends neither Certificate nor CertificateVerify (that is the
/// known C02 finding, not a fault-history matter), so with `RequireAnyClientCert` even the
/// fault-free handshake ends in the reference's fatal alert and nothing could be explored.
/// `flight_interval` stays at its 1 s default (constant); there is no other timer to set.
fn ref_config(expected_peer_fp: String, shared: Arc<parking_lot::Mutex<RefShared>>) -> Config {
    Config {
        certificates: vec![ref_cert().clone()],
        cipher_suites: vec![CipherSuiteId::Tls_Ecdhe_Ecdsa_With_Aes_128_Gcm_Sha256],
        srtp_protection_profiles: vec![SrtpProtectionProfile::Srtp_Aead_Aes_128_Gcm, SrtpProtectionProfile::Srtp_Aes128_Cm_Hmac_Sha1_80],
        extended_master_secret: ExtendedMasterSecretType::Request,
        client_auth: ClientAuthType::NoClientCert,
        insecure_skip_verify: true,
        verify_peer_certificate: Some(Arc::new(move |raw: &[Vec<u8>], _chains| {
            let ok = raw.first().map(|c| fingerprint_of_der(c) == expected_peer_fp).unwrap_or(false);
            shared.lock().peer_cert_ok = Some(ok);
            if ok { Ok(()) } else { Err(dtls::Error::Other("peer certificate fingerprint mismatch".into())) }
        })),
        ..Default::default()
    }
}

pub fn mk_ref_end(side: Side, is_client: bool, expected_peer_fp: String, net_tx: NetTx) -> RefEnd {
    let (local, remote) = match side {
        Side::A => (sim::addr(sim::ADDR_A), sim::addr(sim::ADDR_B)),
        Side::B => (sim::addr(sim::ADDR_B), sim::addr(sim::ADDR_A)),
    };
    let (conn, in_tx) = SimConn::new(local, remote, net_tx);
    let shared = Arc::new(parking_lot::Mutex::new(RefShared::default()));
    let (app_tx, app_rx) = mpsc::unbounded_channel();
    let cfg = ref_config(expected_peer_fp, shared.clone());
    let sh = shared.clone();
    let task = tokio::spawn(async move {
        match DTLSConn::new(conn as Arc<dyn Conn + Send + Sync>, cfg, is_client, None).await {
            Ok(c) => {
                let c = Arc::new(c);
                {
                    let mut g = sh.lock();
                    g.conn = Some(c.clone());
                    g.status = Some(RefStatus::Connected);
                }
                // keep the application side drained (the reference's reader blocks on a
                // capacity-1 channel otherwise)
                let mut buf = vec![0u8; 8192];
                loop {
                    match c.read(&mut buf, None).await {
                        Ok(n) => {
                            let _ = app_tx.send(buf[..n].to_vec());
                        }
                        Err(_) => break,
                    }
                }
            }
            Err(e) => {
                sh.lock().status = Some(RefStatus::Failed(e.to_string()));
            }
        }
    });
    RefEnd { side, in_tx, shared, app_rx, tasks: vec![task] }
}

#[derive(Clone, Debug, Default)]
pub struct RefObs {
    pub hs: HsObs,
    /// 0 = A, 1 = B
    pub ref_idx: usize,
    pub ref_error: Option<String>,
    pub ref_peer_cert_ok: Option<bool>,
    /// datagrams of the reference's final flight (CCS+Finished as server) seen / handed to rustrtc
    pub ref_final_sent: u32,
    pub ref_final_delivered: u32,
    /// handshake datagrams rustrtc sent after the reference reported Connected (its retransmissions)
    pub rustrtc_tx_after_ref_connected: u32,
    pub ref_exporter: Option<Vec<u8>>,
    pub rustrtc_exporter: Option<Vec<u8>>,
}

pub struct RefOut {
    pub chooser: Chooser,
    pub obs: Option<RefObs>,
}

#[derive(Clone)]
pub struct RefCfg {
    pub pair: Pair,
    pub faults: Vec<HFault>,
    pub horizon_ms: u64,
    pub record_wire: bool,
}

pub fn run_interop(cfg: &RefCfg, deviations: Vec<(usize, usize)>, seed: u64, wall_cap: Duration) -> RefOut {
    let _ = ref_cert(); // generated (and the rustls provider installed) outside the simulated runtime
    let cfg = cfg.clone();
    let devs = deviations.clone();
    let out = sim::run_with_watchdog(seed, wall_cap, move || {
        Box::pin(async move {
            let mut chooser = Chooser::new(devs);
            let obs = run_inner(&cfg, &mut chooser).await;
            (chooser, obs)
        })
    });
    match out {
        Some((mut chooser, obs)) => {
            chooser.check_all_reached();
            RefOut { chooser, obs: Some(obs) }
        }
        None => RefOut { chooser: Chooser::new(deviations), obs: None },
    }
}

fn now_ms(start: tokio::time::Instant) -> u64 {
    (tokio::time::Instant::now() - start).as_millis() as u64
}

const MSG_A: &[u8] = b"ping-from-A-0123456789";
const MSG_B: &[u8] = b"ping-from-B-abcdefghij";

struct Sys {
    rt: End,
    rf: RefEnd,
    buf: Vec<u8>,
    ref_final_delivered: u32,
}

impl Sys {
    async fn deliver(&mut self, d: &Dgram) {
        match d.dest_side() {
            Some(s) if s == self.rt.side => {
                if d.src_side() == Some(self.rf.side) && is_final_flight(&d.data) {
                    self.ref_final_delivered += 1;
                }
                self.rt.conn.receive(Bytes::from(d.data.clone()), d.from, &mut self.buf).await;
            }
            Some(_) => self.rf.feed(&d.data),
            None => {}
        }
    }
}

/// Rewrite the record sequence number of every epoch-0 record of a datagram in place
/// (`f(record index, old) -> new`). Epoch-0 records are plaintext and unauthenticated.
fn patch_epoch0_seqs(d: &mut [u8], mut f: impl FnMut(usize, u64) -> u64) {
    let (mut i, mut idx) = (0usize, 0usize);
    while i + 13 <= d.len() {
        let epoch = u16::from_be_bytes([d[i + 3], d[i + 4]]);
        let len = u16::from_be_bytes([d[i + 11], d[i + 12]]) as usize;
        if epoch == 0 {
            let mut b = [0u8; 8];
            b[2..].copy_from_slice(&d[i + 5..i + 11]);
            let new = f(idx, u64::from_be_bytes(b)) & 0xffff_ffff_ffff;
            d[i + 5..i + 11].copy_from_slice(&new.to_be_bytes()[2..]);
        }
        i += 13 + len;
        idx += 1;
    }
}

/// Legal re-fragmentation as the *sender* would have done it: the `n` fragments of the first
/// complete epoch-0 handshake message take consecutive record sequence numbers and every later
/// epoch-0 record of that sender moves up by `n-1` (the caller adds that to the sender's shift).
/// `dtls_sim::split_datagram_n` numbers the fragments `seq + 0x1000*k`, which is harmless
/// between two rustrtc endpoints but pushes the reference's anti-replay window (64) past every
/// record the sender emits afterwards.
fn split_renumbered(d: &[u8], n: usize) -> Option<Vec<Vec<u8>>> {
    let mut parts = split_datagram_n(d, n)?;
    for (k, p) in parts.iter_mut().enumerate() {
        if k == 0 {
            continue;
        }
        let last = k == n - 1;
        patch_epoch0_seqs(p, |idx, seq| {
            if idx == 0 {
                seq - 0x1000 * k as u64 + k as u64
            } else if last {
                seq + (n as u64 - 1)
            } else {
                seq
            }
        });
    }
    Some(parts)
}

fn is_final_flight(d: &[u8]) -> bool {
    let recs = wire::dtls_records(d);
    recs.iter().any(|r| r.ctype == 20) && recs.iter().any(|r| r.ctype == 22 && r.epoch >= 1)
}

async fn run_inner(cfg: &RefCfg, chooser: &mut Chooser) -> RefObs {
    let start = tokio::time::Instant::now();
    let mut obs = HsObs::default();
    let mut robs = RefObs::default();
    let (net_tx, mut net_rx) = mpsc::unbounded_channel();
    let certs = sim::certs();
    let rt_side = cfg.pair.rustrtc_side();
    let rf_side = rt_side.other();
    let (ri, fi) = (rt_side as usize, rf_side as usize);
    robs.ref_idx = fi;
    let rt_cert = match rt_side {
        Side::A => certs.a.clone(),
        Side::B => certs.b.clone(),
    };
    let ref_fp = fingerprint_of_der(ref_cert().certificate[0].as_ref());
    let ecfg = EndCfg { with_sctp: false, channels: vec![], expected_fingerprint: Some(ref_fp), rtc: sim::default_rtc() };
    let rt = sim::mk_end(rt_side, rt_cert.clone(), net_tx.clone(), &ecfg).await;
    let rf = mk_ref_end(rf_side, rf_side == Side::A, rustrtc::transports::dtls::fingerprint(&rt_cert), net_tx.clone());
    drop(net_tx);
    let mut sys = Sys { rt, rf, buf: Vec::new(), ref_final_delivered: 0 };
    let mut held = sim::Held::default();
    let mut timed: Vec<(u64, Dgram)> = vec![];
    let mut th: u64 = 0xcbf29ce484222325;
    let mut hash = |s: &str| {
        for x in s.as_bytes() {
            th ^= *x as u64;
            th = th.wrapping_mul(0x100000001b3);
        }
    };
    let mut app_sent = [false, false];
    let mut quiet_since: Option<u64> = None;
    // epoch-0 record numbers consumed by re-fragmentation, per sender (see split_renumbered)
    let mut seq_shift = [0u64; 2];
    let mut rustrtc_keys_at_connect: Option<Vec<u8>> = None;
    loop {
        let t = now_ms(start);
        if t >= cfg.horizon_ms {
            break;
        }
        let s_rt = sys.rt.dtls.get_state();
        let s_rf = sys.rf.status();
        if matches!(s_rt, DtlsState::Connected(_, _)) && obs.connected_at_ms[ri].is_none() {
            obs.connected_at_ms[ri] = Some(t);
            rustrtc_keys_at_connect = sys.rt.dtls.export_keying_material("EXTRACTOR-dtls_srtp", 60).ok();
        }
        if s_rf == RefStatus::Connected && obs.connected_at_ms[fi].is_none() {
            obs.connected_at_ms[fi] = Some(t);
        }
        if matches!(s_rt, DtlsState::Connected(_, _)) && s_rf == RefStatus::Connected {
            // both connected: each side sends one application message (once); A first, as in dtls_sim
            for side in [Side::A, Side::B] {
                let i = side as usize;
                if app_sent[i] {
                    continue;
                }
                app_sent[i] = true;
                let msg = if side == Side::A { MSG_A } else { MSG_B };
                if side == rt_side {
                    let _ = sys.rt.dtls.send(Bytes::from_static(msg)).await;
                } else if let Some(c) = sys.rf.conn() {
                    let _ = c.write(msg, None).await;
                }
            }
        }
        let mut due = vec![];
        timed.retain(|(at, d)| {
            if *at <= t {
                due.push(d.clone());
                false
            } else {
                true
            }
        });
        for d in due {
            hash(&format!("{}|late|{}", t, wire::dtls_label(&d.data)));
            sys.deliver(&d).await;
        }
        let next_due = timed.iter().map(|x| x.0).min();
        let idle = match next_due {
            Some(at) => Duration::from_millis((at.saturating_sub(t)).clamp(1, 250)),
            None => Duration::from_millis(250),
        };
        let d = match sim::next_dgram(&mut net_rx, idle).await {
            Some(d) => d,
            None => {
                for hd in held.flush() {
                    sys.deliver(&hd).await;
                }
                let both = matches!(sys.rt.dtls.get_state(), DtlsState::Connected(_, _)) && sys.rf.status() == RefStatus::Connected;
                if both && app_sent[0] && app_sent[1] && timed.is_empty() {
                    let t2 = now_ms(start);
                    match quiet_since {
                        None => quiet_since = Some(t2),
                        Some(q) if t2 >= q + 3000 => break,
                        _ => {}
                    }
                }
                continue;
            }
        };
        quiet_since = None;
        obs.datagrams += 1;
        let t = now_ms(start);
        let mut d = d;
        let src = d.src_side().unwrap_or(Side::A);
        if seq_shift[src as usize] > 0 {
            let sh = seq_shift[src as usize];
            patch_epoch0_seqs(&mut d.data, |_, s| s + sh);
        }
        let dst = d.dest_side().unwrap_or(Side::B);
        let lab = format!("{}:{}", src.name(), wire::dtls_label(&d.data));
        let is_app = wire::dtls_records(&d.data).iter().all(|r| r.ctype == 23);
        if src == rf_side && is_final_flight(&d.data) {
            robs.ref_final_sent += 1;
        }
        if src == rt_side && !is_app && sys.rf.status() == RefStatus::Connected {
            robs.rustrtc_tx_after_ref_connected += 1;
        }
        let mut fault: Option<HFault> = None;
        if !is_app && !cfg.faults.is_empty() {
            let c = chooser.choose(cfg.faults.len() + 1, || lab.clone());
            if c > 0 {
                fault = Some(cfg.faults[c - 1]);
                obs.applied.push((chooser.points.len() - 1, lab.clone(), cfg.faults[c - 1].name()));
            }
        }
        hash(&format!("{}|{}", t, lab));
        if cfg.record_wire {
            // record-layer (epoch.sequence) and handshake message_seq of every record, for reading replays
            let nums: Vec<String> = wire::dtls_records(&d.data)
                .iter()
                .map(|r| {
                    let ms: Vec<String> = if r.ctype == 22 && r.epoch == 0 { wire::handshake_msgs(&r.body).iter().map(|h| format!("m{}", h.message_seq)).collect() } else { vec![] };
                    format!("{}.{}{}", r.epoch, r.seq, if ms.is_empty() { String::new() } else { format!("/{}", ms.join(",")) })
                })
                .collect();
            obs.wire.push((t, format!("{lab}  [{}]", nums.join(" ")), fault.map(|f| f.name()).unwrap_or_default()));
        }
        let mut deliver_now: Vec<Dgram> = vec![];
        match fault {
            None => deliver_now.push(d.clone()),
            Some(HFault::Drop) => {}
            Some(HFault::Dup) => {
                deliver_now.push(d.clone());
                deliver_now.push(d.clone());
            }
            Some(HFault::DupLate(k)) => {
                deliver_now.push(d.clone());
                held.hold(dst, k, d.clone());
            }
            Some(HFault::Swap) => held.hold(dst, 1, d.clone()),
            Some(HFault::DelayMs(ms)) => timed.push((t + ms, d.clone())),
            Some(HFault::Split3Mixed) => match split_renumbered(&d.data, 3) {
                Some(parts) => {
                    seq_shift[src as usize] += 2;
                    for k in [0usize, 2, 1] {
                        deliver_now.push(Dgram { data: parts[k].clone(), from: d.from, to: d.to });
                    }
                }
                None => deliver_now.push(d.clone()),
            },
            Some(HFault::SplitFwd) | Some(HFault::SplitRev) => match split_renumbered(&d.data, 2).map(|mut v| (v.remove(0), v.remove(0))) {
                Some((d1, d2)) => {
                    seq_shift[src as usize] += 1;
                    let x1 = Dgram { data: d1, from: d.from, to: d.to };
                    let x2 = Dgram { data: d2, from: d.from, to: d.to };
                    if fault == Some(HFault::SplitFwd) {
                        deliver_now.push(x1);
                        deliver_now.push(x2);
                    } else {
                        deliver_now.push(x2);
                        deliver_now.push(x1);
                    }
                }
                None => deliver_now.push(d.clone()),
            },
        }
        let newly_held = matches!(fault, Some(HFault::DupLate(_)) | Some(HFault::Swap));
        for x in deliver_now {
            sys.deliver(&x).await;
            if !newly_held {
                for hd in held.tick(dst) {
                    sys.deliver(&hd).await;
                }
            }
        }
    }
    obs.end_ms = now_ms(start);
    let s_rt = sys.rt.dtls.get_state();
    let s_rf = sys.rf.status();
    obs.state[ri] = sim::state_name(&s_rt).to_string();
    obs.state[fi] = match &s_rf {
        RefStatus::Handshaking => "Handshaking".to_string(),
        RefStatus::Connected => "Connected".to_string(),
        RefStatus::Failed(e) => {
            robs.ref_error = Some(e.clone());
            "Failed".to_string()
        }
    };
    robs.ref_peer_cert_ok = sys.rf.shared.lock().peer_cert_ok;
    if let (DtlsState::Connected(_, p_rt), RefStatus::Connected) = (&s_rt, &s_rf) {
        let c = sys.rf.conn().expect("connected reference has a conn");
        obs.profile[ri] = *p_rt;
        obs.profile[fi] = match c.selected_srtpprotection_profile() {
            SrtpProtectionProfile::Unsupported => None,
            p => Some(p as u16),
        };
        let e_rt = sys.rt.dtls.export_keying_material("EXTRACTOR-dtls_srtp", 60).ok();
        let e_rf = c.connection_state().await.export_keying_material("EXTRACTOR-dtls_srtp", &[], 60).await.ok();
        obs.exporter_equal = Some(e_rt.is_some() && e_rt == e_rf);
        // the exporter is a function of (master secret, randoms); the key block is the same
        // function of the same inputs, and the application-data round trip below checks it
        obs.keys_equal = obs.exporter_equal;
        if rustrtc_keys_at_connect.is_some() && rustrtc_keys_at_connect != e_rt {
            obs.ever_connected_on_different_keys = true; // rustrtc's keys changed while Connected
        }
        robs.rustrtc_exporter = e_rt;
        robs.ref_exporter = e_rf;
    }
    let mut got_rt: Vec<Vec<u8>> = vec![];
    if let Some(rx) = sys.rt.app_rx.as_mut() {
        while let Ok(x) = rx.try_recv() {
            got_rt.push(x.to_vec());
        }
    }
    let mut got_rf: Vec<Vec<u8>> = vec![];
    while let Ok(x) = sys.rf.app_rx.try_recv() {
        got_rf.push(x);
    }
    let (got_a, got_b) = if rt_side == Side::A { (got_rt, got_rf) } else { (got_rf, got_rt) };
    if app_sent[0] {
        obs.app_ok[0] = Some(got_b.iter().any(|x| &x[..] == MSG_A));
    }
    if app_sent[1] {
        obs.app_ok[1] = Some(got_a.iter().any(|x| &x[..] == MSG_B));
    }
    obs.app_rx_extra = [got_a.iter().filter(|x| &x[..] != MSG_B).count(), got_b.iter().filter(|x| &x[..] != MSG_A).count()];
    hash(&format!("{:?}|{:?}|{:?}|{:?}", obs.state, obs.connected_at_ms, obs.keys_equal, obs.app_ok));
    obs.trace_hash = th;
    robs.ref_final_delivered = sys.ref_final_delivered;
    for h in sys.rt.tasks.drain(..) {
        h.abort();
    }
    for h in sys.rf.tasks.drain(..) {
        h.abort();
    }
    robs.hs = obs;
    robs
}
