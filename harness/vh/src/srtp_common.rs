//! Shared helpers for the SRTP/SRTCP checks (C04, C05): profiles, key sets, packet builders,
//! thin wrappers around the rustrtc SRTP API and the independent `webrtc-srtp` reference,
//! and the RFC 3711 section 3.3.1 index-estimation reference model.
use bytes::BytesMut;
use rustrtc::rtp::{RtpHeader, RtpHeaderExtension, RtpPacket};
use rustrtc::srtp::SrtpPacket;
use rustrtc::{SrtpContext, SrtpDirection, SrtpKeyingMaterial, SrtpProfile, SrtpSession};
use srtp::context::Context as RefContext;
use srtp::protection_profile::ProtectionProfile;

pub const PROFILES: [SrtpProfile; 4] = [
    SrtpProfile::Aes128Sha1_80,
    SrtpProfile::Aes128Sha1_32,
    SrtpProfile::AeadAes128Gcm,
    SrtpProfile::NullCipherHmac,
];

pub fn profile_name(p: SrtpProfile) -> &'static str {
    match p {
        SrtpProfile::Aes128Sha1_80 => "AES_CM_128_HMAC_SHA1_80",
        SrtpProfile::Aes128Sha1_32 => "AES_CM_128_HMAC_SHA1_32",
        SrtpProfile::AeadAes128Gcm => "AEAD_AES_128_GCM",
        SrtpProfile::NullCipherHmac => "NULL_HMAC_SHA1_80",
    }
}

pub fn profile_from_name(s: &str) -> Option<SrtpProfile> {
    PROFILES.iter().copied().find(|p| profile_name(*p) == s)
}

/// RTP tag length as rustrtc documents it (used only to locate fields when forging).
pub fn rtp_tag_len(p: SrtpProfile) -> usize {
    match p {
        SrtpProfile::Aes128Sha1_80 | SrtpProfile::NullCipherHmac => 10,
        SrtpProfile::Aes128Sha1_32 => 4,
        SrtpProfile::AeadAes128Gcm => 16,
    }
}

pub fn salt_len(p: SrtpProfile) -> usize {
    match p {
        SrtpProfile::AeadAes128Gcm => 12,
        _ => 14,
    }
}

/// The reference crate has no NULL-cipher profile.
pub fn ref_profile(p: SrtpProfile) -> Option<ProtectionProfile> {
    match p {
        SrtpProfile::Aes128Sha1_80 => Some(ProtectionProfile::Aes128CmHmacSha1_80),
        SrtpProfile::Aes128Sha1_32 => Some(ProtectionProfile::Aes128CmHmacSha1_32),
        SrtpProfile::AeadAes128Gcm => Some(ProtectionProfile::AeadAes128Gcm),
        SrtpProfile::NullCipherHmac => None,
    }
}

#[derive(Clone, Debug)]
pub struct KeySet {
    pub name: &'static str,
    pub key: [u8; 16],
    pub salt: [u8; 14],
}

pub fn keysets() -> Vec<KeySet> {
    let mut pat_k = [0u8; 16];
    let mut pat_s = [0u8; 14];
    for (i, b) in pat_k.iter_mut().enumerate() {
        *b = (i as u8).wrapping_mul(0x1d).wrapping_add(0xe1);
    }
    for (i, b) in pat_s.iter_mut().enumerate() {
        *b = (i as u8).wrapping_mul(0x3b).wrapping_add(0x0e);
    }
    vec![
        KeySet { name: "zero", key: [0; 16], salt: [0; 14] },
        KeySet { name: "ff", key: [0xff; 16], salt: [0xff; 14] },
        KeySet { name: "pattern", key: pat_k, salt: pat_s },
    ]
}

pub fn keyset_by_name(n: &str) -> Option<KeySet> {
    keysets().into_iter().find(|k| k.name == n)
}

pub fn keying(p: SrtpProfile, ks: &KeySet) -> SrtpKeyingMaterial {
    SrtpKeyingMaterial::new(ks.key.to_vec(), ks.salt[..salt_len(p)].to_vec())
}

pub fn new_session(p: SrtpProfile, ks: &KeySet) -> SrtpSession {
    match SrtpSession::new(p, keying(p, ks), keying(p, ks)) {
        Ok(s) => s,
        Err(e) => crate::machinery_failure(&format!("SrtpSession::new failed: {e:?}")),
    }
}

/// A second, unrelated key set: sessions get different tx and rx keys so that a mix-up of the
/// two directions inside SrtpSession cannot cancel out.
pub fn other_keying(p: SrtpProfile, ks: &KeySet) -> SrtpKeyingMaterial {
    let k: Vec<u8> = ks.key.iter().map(|b| b ^ 0x5a).collect();
    let s: Vec<u8> = ks.salt[..salt_len(p)].iter().map(|b| b ^ 0xa5).collect();
    SrtpKeyingMaterial::new(k, s)
}

/// Session used only for protecting with `ks` (its receive keys are unrelated).
pub fn sender_session(p: SrtpProfile, ks: &KeySet) -> SrtpSession {
    match SrtpSession::new(p, keying(p, ks), other_keying(p, ks)) {
        Ok(s) => s,
        Err(e) => crate::machinery_failure(&format!("SrtpSession::new failed: {e:?}")),
    }
}

/// Session used only for unprotecting with `ks` (its transmit keys are unrelated).
pub fn receiver_session(p: SrtpProfile, ks: &KeySet) -> SrtpSession {
    match SrtpSession::new(p, other_keying(p, ks), keying(p, ks)) {
        Ok(s) => s,
        Err(e) => crate::machinery_failure(&format!("SrtpSession::new failed: {e:?}")),
    }
}

pub fn new_context(p: SrtpProfile, ks: &KeySet, ssrc: u32, dir: SrtpDirection) -> SrtpContext {
    match SrtpContext::new(ssrc, p, keying(p, ks), dir) {
        Ok(s) => s,
        Err(e) => crate::machinery_failure(&format!("SrtpContext::new failed: {e:?}")),
    }
}

pub fn new_ref(p: SrtpProfile, ks: &KeySet) -> Option<RefContext> {
    let rp = ref_profile(p)?;
    match RefContext::new(&ks.key, &ks.salt[..salt_len(p)], rp, None, None) {
        Ok(c) => Some(c),
        Err(e) => crate::machinery_failure(&format!("reference Context::new failed: {e}")),
    }
}

// ---------------------------------------------------------------------------------------
// Packet shapes

#[derive(Clone, Copy, Debug, PartialEq, Eq)]
pub enum ExtKind {
    None,
    OneByte,
    TwoByte,
    ZeroWords,
    Generic,
}

pub const EXT_KINDS: [ExtKind; 5] =
    [ExtKind::None, ExtKind::OneByte, ExtKind::TwoByte, ExtKind::ZeroWords, ExtKind::Generic];

pub fn ext_name(e: ExtKind) -> &'static str {
    match e {
        ExtKind::None => "none",
        ExtKind::OneByte => "one-byte",
        ExtKind::TwoByte => "two-byte",
        ExtKind::ZeroWords => "zero-words",
        ExtKind::Generic => "rfc3550",
    }
}

pub fn ext_from_name(s: &str) -> Option<ExtKind> {
    EXT_KINDS.iter().copied().find(|e| ext_name(*e) == s)
}

pub fn make_ext(e: ExtKind) -> Option<RtpHeaderExtension> {
    match e {
        ExtKind::None => None,
        // id 1 len 1 (0xAA), id 2 len 2 (0xBB 0xCC), 3 bytes of padding => 8 bytes
        ExtKind::OneByte => Some(RtpHeaderExtension::new(
            0xBEDE,
            vec![0x10, 0xAA, 0x21, 0xBB, 0xCC, 0x00, 0x00, 0x00],
        )),
        // id 1 len 2, id 7 len 0 => 6 bytes + 2 padding
        ExtKind::TwoByte => Some(RtpHeaderExtension::new(
            0x1000,
            vec![0x01, 0x02, 0xDE, 0xAD, 0x07, 0x00, 0x00, 0x00],
        )),
        ExtKind::ZeroWords => Some(RtpHeaderExtension::new(0xBEDE, vec![])),
        ExtKind::Generic => Some(RtpHeaderExtension::new(
            0x1234,
            vec![1, 2, 3, 4, 5, 6, 7, 8, 9, 10, 11, 12],
        )),
    }
}

#[derive(Clone, Debug)]
pub struct RtpShape {
    pub csrc: usize,
    pub ext: ExtKind,
    pub marker: bool,
    pub padding: u8,
    pub payload_len: usize,
    pub pt: u8,
}

pub fn payload_bytes(len: usize, salt: u64) -> Vec<u8> {
    (0..len)
        .map(|i| ((i as u64).wrapping_mul(0x9d).wrapping_add(salt.wrapping_mul(0x2f)).wrapping_add(3) & 0xff) as u8)
        .collect()
}

pub fn build_rtp(shape: &RtpShape, ssrc: u32, seq: u16, ts: u32) -> RtpPacket {
    let mut h = RtpHeader::new(shape.pt, seq, ts, ssrc);
    h.marker = shape.marker;
    h.csrcs = (0..shape.csrc).map(|i| 0x1111_0000u32.wrapping_add(i as u32 * 0x0101)).collect();
    h.extension = make_ext(shape.ext);
    let mut p = RtpPacket::new(h, payload_bytes(shape.payload_len, seq as u64 ^ (ssrc as u64) << 3));
    p.padding_len = shape.padding;
    p
}

// ---------------------------------------------------------------------------------------
// RTCP builders (valid compound packets, lengths multiple of 4, sender SSRC at bytes 4..8)

pub fn rtcp_rr(ssrc: u32, blocks: usize) -> Vec<u8> {
    let mut v = Vec::new();
    let words = 1 + 6 * blocks;
    v.push(0x80 | (blocks as u8 & 0x1f));
    v.push(201);
    v.extend_from_slice(&(words as u16).to_be_bytes());
    v.extend_from_slice(&ssrc.to_be_bytes());
    for b in 0..blocks {
        for w in 0..6u32 {
            v.extend_from_slice(&(0x0a0b_0c00u32 + (b as u32) * 16 + w).to_be_bytes());
        }
    }
    v
}

pub fn rtcp_sr(ssrc: u32, blocks: usize) -> Vec<u8> {
    let mut v = Vec::new();
    let words = 6 + 6 * blocks;
    v.push(0x80 | (blocks as u8 & 0x1f));
    v.push(200);
    v.extend_from_slice(&(words as u16).to_be_bytes());
    v.extend_from_slice(&ssrc.to_be_bytes());
    for w in 0..5u32 {
        v.extend_from_slice(&(0x5152_5300u32 + w).to_be_bytes());
    }
    for b in 0..blocks {
        for w in 0..6u32 {
            v.extend_from_slice(&(0x0a0b_0c00u32 + (b as u32) * 16 + w).to_be_bytes());
        }
    }
    v
}

pub fn rtcp_sdes(ssrc: u32, cname: &str) -> Vec<u8> {
    let mut body = Vec::new();
    body.extend_from_slice(&ssrc.to_be_bytes());
    body.push(1);
    body.push(cname.len() as u8);
    body.extend_from_slice(cname.as_bytes());
    body.push(0);
    while body.len() % 4 != 0 {
        body.push(0);
    }
    let mut v = vec![0x81, 202];
    v.extend_from_slice(&((body.len() / 4) as u16).to_be_bytes());
    v.extend_from_slice(&body);
    v
}

pub fn rtcp_bye(ssrc: u32) -> Vec<u8> {
    let mut v = vec![0x81, 203, 0, 1];
    v.extend_from_slice(&ssrc.to_be_bytes());
    v
}

pub fn rtcp_pli(ssrc: u32, media: u32) -> Vec<u8> {
    let mut v = vec![0x81, 206, 0, 2];
    v.extend_from_slice(&ssrc.to_be_bytes());
    v.extend_from_slice(&media.to_be_bytes());
    v
}

/// Named RTCP shapes; `variant` perturbs a body word so successive packets differ.
pub const RTCP_SHAPES: [&str; 9] =
    ["rr0", "rr1", "rr31", "sr0", "sr1", "sr2", "pli", "compound-sr-sdes-bye", "compound-rr-sdes"];

pub fn build_rtcp(shape: &str, ssrc: u32, variant: u32) -> Vec<u8> {
    let mut v = match shape {
        "rr0" => rtcp_rr(ssrc, 0),
        "rr1" => rtcp_rr(ssrc, 1),
        "rr31" => rtcp_rr(ssrc, 31),
        "sr0" => rtcp_sr(ssrc, 0),
        "sr1" => rtcp_sr(ssrc, 1),
        "sr2" => rtcp_sr(ssrc, 2),
        "pli" => rtcp_pli(ssrc, 0x0bad_cafe),
        "compound-sr-sdes-bye" => {
            let mut v = rtcp_sr(ssrc, 1);
            v.extend(rtcp_sdes(ssrc, "verif@example"));
            v.extend(rtcp_bye(ssrc));
            v
        }
        "compound-rr-sdes" => {
            let mut v = rtcp_rr(ssrc, 0);
            v.extend(rtcp_sdes(ssrc, "c"));
            v
        }
        other => crate::machinery_failure(&format!("unknown rtcp shape {other}")),
    };
    // Perturb the first body word (report-block SSRC / NTP word / media SSRC) so that successive
    // packets differ; shapes whose byte 8.. is another RTCP header are left alone.
    if v.len() >= 12 && shape != "rr0" && shape != "compound-rr-sdes" {
        let x = u32::from_be_bytes([v[8], v[9], v[10], v[11]]) ^ variant;
        v[8..12].copy_from_slice(&x.to_be_bytes());
    }
    v
}

// ---------------------------------------------------------------------------------------
// rustrtc wrappers (all calls into rustrtc go through catch_unwind)

#[derive(Clone, Debug, PartialEq, Eq)]
pub enum Rx {
    Ok(Vec<u8>),
    Err(String),
    Panic(String),
}

impl Rx {
    pub fn is_ok(&self) -> bool {
        matches!(self, Rx::Ok(_))
    }
    pub fn class(&self) -> String {
        match self {
            Rx::Ok(_) => "ok".into(),
            Rx::Err(e) => format!("err:{e}"),
            Rx::Panic(_) => "panic".into(),
        }
    }
}

pub fn short_err(e: &rustrtc::errors::SrtpError) -> String {
    use rustrtc::errors::SrtpError::*;
    match e {
        UnsupportedProfile => "UnsupportedProfile".into(),
        PacketTooShort => "PacketTooShort".into(),
        AuthenticationFailed => "AuthenticationFailed".into(),
        Internal(s) => format!("Internal({s})"),
    }
}

/// Protect with a session; returns protected bytes.
pub fn sess_protect_rtp(s: &mut SrtpSession, p: &RtpPacket) -> Result<Vec<u8>, String> {
    let r = crate::catch(std::panic::AssertUnwindSafe(|| {
        let mut out = vec![0u8; s.protected_rtp_len(p)];
        s.protect_rtp(p, &mut out).map(|_| out)
    }));
    match r {
        Ok(Ok(v)) => Ok(v),
        Ok(Err(e)) => Err(short_err(&e)),
        Err(p) => Err(format!("panic:{p}")),
    }
}

pub fn ctx_protect_rtp(c: &mut SrtpContext, p: &RtpPacket) -> Result<Vec<u8>, String> {
    let r = crate::catch(std::panic::AssertUnwindSafe(|| {
        let mut out = vec![0u8; c.protected_rtp_len(p)];
        c.protect(p, &mut out).map(|_| out)
    }));
    match r {
        Ok(Ok(v)) => Ok(v),
        Ok(Err(e)) => Err(short_err(&e)),
        Err(p) => Err(format!("panic:{p}")),
    }
}

/// What the transport does with a datagram: parse as SRTP, then unprotect. Any failure = drop.
pub fn sess_unprotect_rtp(s: &mut SrtpSession, raw: &[u8]) -> Result<RtpPacket, Rx> {
    let r = crate::catch(std::panic::AssertUnwindSafe(|| {
        let pkt = match SrtpPacket::parse(BytesMut::from(raw)) {
            Ok(p) => p,
            Err(e) => return Err(format!("parse:{e}")),
        };
        s.unprotect_rtp(pkt).map_err(|e| short_err(&e))
    }));
    match r {
        Ok(Ok(p)) => Ok(p),
        Ok(Err(e)) => Err(Rx::Err(e)),
        Err(p) => Err(Rx::Panic(p)),
    }
}

pub fn ctx_unprotect_rtp(c: &mut SrtpContext, raw: &[u8]) -> Result<RtpPacket, Rx> {
    let r = crate::catch(std::panic::AssertUnwindSafe(|| {
        let pkt = match SrtpPacket::parse(BytesMut::from(raw)) {
            Ok(p) => p,
            Err(e) => return Err(format!("parse:{e}")),
        };
        c.unprotect(pkt).map_err(|e| short_err(&e))
    }));
    match r {
        Ok(Ok(p)) => Ok(p),
        Ok(Err(e)) => Err(Rx::Err(e)),
        Err(p) => Err(Rx::Panic(p)),
    }
}

/// Unprotect and re-marshal to plain RTP bytes (so results can be compared as bytes).
pub fn sess_unprotect_rtp_bytes(s: &mut SrtpSession, raw: &[u8]) -> Rx {
    match sess_unprotect_rtp(s, raw) {
        Ok(p) => match p.marshal() {
            Ok(b) => Rx::Ok(b),
            Err(e) => Rx::Err(format!("remarshal:{e}")),
        },
        Err(r) => r,
    }
}

pub fn ctx_unprotect_rtp_bytes(c: &mut SrtpContext, raw: &[u8]) -> Rx {
    match ctx_unprotect_rtp(c, raw) {
        Ok(p) => match p.marshal() {
            Ok(b) => Rx::Ok(b),
            Err(e) => Rx::Err(format!("remarshal:{e}")),
        },
        Err(r) => r,
    }
}

pub fn sess_protect_rtcp(s: &mut SrtpSession, plain: &[u8]) -> Result<Vec<u8>, String> {
    let r = crate::catch(std::panic::AssertUnwindSafe(|| {
        let mut v = plain.to_vec();
        s.protect_rtcp(&mut v).map(|_| v)
    }));
    match r {
        Ok(Ok(v)) => Ok(v),
        Ok(Err(e)) => Err(short_err(&e)),
        Err(p) => Err(format!("panic:{p}")),
    }
}

pub fn sess_unprotect_rtcp(s: &mut SrtpSession, raw: &[u8]) -> Rx {
    let r = crate::catch(std::panic::AssertUnwindSafe(|| {
        let mut v = raw.to_vec();
        s.unprotect_rtcp(&mut v).map(|_| v)
    }));
    match r {
        Ok(Ok(v)) => Rx::Ok(v),
        Ok(Err(e)) => Rx::Err(short_err(&e)),
        Err(p) => Rx::Panic(p),
    }
}

// ---------------------------------------------------------------------------------------
// Reference wrappers

pub fn ref_call(f: impl FnOnce() -> Result<bytes::Bytes, srtp::Error>) -> Rx {
    match crate::catch(std::panic::AssertUnwindSafe(f)) {
        Ok(Ok(b)) => Rx::Ok(b.to_vec()),
        Ok(Err(e)) => Rx::Err(e.to_string()),
        Err(p) => Rx::Panic(p),
    }
}

// ---------------------------------------------------------------------------------------
// RFC 3711 section 3.3.1 reference (written from the RFC text, independent of rustrtc)

/// Estimate of the rollover counter `v` for a packet with sequence number `seq`, given the
/// receiver's ROC and highest received sequence number `s_l`:
///
/// ```text
/// if (s_l < 32,768)
///     if (SEQ - s_l > 32,768)  set v to (ROC-1) mod 2^32  else set v to ROC
/// else
///     if (s_l - 32,768 > SEQ)  set v to (ROC+1) mod 2^32  else set v to ROC
/// ```
#[inline]
pub fn rfc3711_estimate(roc: u32, s_l: u16, seq: u16) -> u32 {
    let s_l = s_l as i64;
    let seq = seq as i64;
    if s_l < 32768 {
        if seq - s_l > 32768 { roc.wrapping_sub(1) } else { roc }
    } else if s_l - 32768 > seq {
        roc.wrapping_add(1)
    } else {
        roc
    }
}

/// The unique 48-bit index within +/-32767 of `h` that has sequence number `seq`, if any.
/// Distance exactly 32768 is ambiguous (two candidates) and is not "within +/-2^15" here.
#[inline]
pub fn closest_index_in_window(h: u64, seq: u16) -> Option<u64> {
    let hs = (h & 0xffff) as i64;
    let mut d = seq as i64 - hs; // -65535..65535
    if d > 32768 {
        d -= 65536;
    } else if d < -32768 {
        d += 65536;
    }
    if d == 32768 || d == -32768 {
        return None;
    }
    let idx = h as i64 + d;
    if idx < 0 || idx >= (1i64 << 48) { None } else { Some(idx as u64) }
}

/// Reference receiver state machine per RFC 3711 3.3.1: `None` until the first packet was
/// accepted (then ROC is the configured initial value).
#[derive(Clone, Copy, Debug, PartialEq, Eq)]
pub struct RefRoc {
    pub roc: u32,
    pub s_l: Option<u16>,
}

impl RefRoc {
    pub fn new(roc: u32) -> Self {
        RefRoc { roc, s_l: None }
    }
    pub fn estimate(&self, seq: u16) -> u32 {
        match self.s_l {
            None => self.roc,
            Some(s) => rfc3711_estimate(self.roc, s, seq),
        }
    }
    pub fn highest(&self) -> Option<u64> {
        self.s_l.map(|s| ((self.roc as u64) << 16) | s as u64)
    }
    /// Feeds a packet whose true index is `idx`; returns whether it authenticates (the
    /// estimate equals the true ROC) and updates the state the way the RFC prescribes.
    pub fn receive(&mut self, idx: u64) -> bool {
        let seq = idx as u16;
        let true_roc = (idx >> 16) as u32;
        let v = self.estimate(seq);
        if v != true_roc {
            return false;
        }
        match self.s_l {
            None => {
                self.s_l = Some(seq);
                self.roc = v;
            }
            Some(s) => {
                if v == self.roc {
                    if seq > s {
                        self.s_l = Some(seq);
                    }
                } else if v == self.roc.wrapping_add(1) {
                    self.s_l = Some(seq);
                    self.roc = v;
                }
            }
        }
        true
    }
}
