//! C19 part 2 — continuity of streams forwarded by the RTP rewrite bridge.
//!
//! A history is a sequence of letters (stream, step).  `Rig` owns a target `RtpTransport` whose
//! `IceConn` sits on an in-memory `VerifSocket`; for every history a fresh source `RtpTransport`
//! with a fresh rewrite bridge (rule table + options) is built, the packets are pushed through
//! `PacketReceiver::receive` and the datagram the bridge emits on the target's socket is taken
//! from the harness channel after every packet.
//!
//! Oracle (per source SSRC, independent of the other stream's packets): output SSRC constant per
//! (source stream, matched rule); output PT = the rule's replacement PT, else the source PT;
//! output sequence numbers consecutive (mod 2^16) in arrival order; output timestamp minus source
//! timestamp constant between source discontinuities.
use bytes::Bytes;
use rustrtc::rtp::{RtpHeader, RtpPacket};
use rustrtc::transports::PacketReceiver;
use rustrtc::transports::ice::IceSocketWrapper;
use rustrtc::transports::ice::conn::IceConn;
use rustrtc::transports::rtp::{RtpRewriteBridgeOptions, RtpRewriteBridgeParams, RtpRewriteRule, RtpTransport};
use rustrtc::verif::{VerifDatagram, VerifSocket};
use serde_json::{Value, json};
use std::net::SocketAddr;
use std::sync::Arc;
use tokio::sync::{mpsc, watch};

/// Forward source-timestamp step above which the bridge treats the source as discontinuous
/// (rtp.rs `rewrite_packet`: `if delta > 900_000`).
pub const DISCONTINUITY: u32 = 900_000;

pub const SRC_SSRC: [u32; 2] = [0xA000_0001, 0xB000_0002];
pub const SRC_PT: [u8; 2] = [96, 97];
pub const ALT_PT: u8 = 101;
/// stream A starts just below both wrap points, stream B in the middle of the range
pub const START_SEQ: [u16; 2] = [65533, 1000];
pub const START_TS: [u32; 2] = [0xFFFF_FE70, 48_000];

#[derive(Clone, Copy, PartialEq, Eq, Debug)]
pub struct Step {
    pub name: &'static str,
    pub dseq: u16,
    pub dts: u32,
    pub alt_pt: bool,
}
pub const STEPS: [Step; 9] = [
    Step { name: "n", dseq: 1, dts: 160, alt_pt: false },                       // seq+1, ts+160
    Step { name: "g", dseq: 5, dts: 800, alt_pt: false },                       // seq+5 (gap)
    Step { name: "w", dseq: 65530, dts: 160, alt_pt: false },                   // seq wraps around
    Step { name: "J", dseq: 1, dts: 2_000_000, alt_pt: false },                 // ts jump
    Step { name: "b", dseq: 1, dts: 0u32.wrapping_sub(160), alt_pt: false },    // ts backwards
    Step { name: "e", dseq: 1, dts: DISCONTINUITY, alt_pt: false },             // largest continuous step
    Step { name: "E", dseq: 1, dts: DISCONTINUITY + 1, alt_pt: false },         // smallest discontinuity
    Step { name: "d", dseq: 1, dts: 160, alt_pt: true },                        // second PT on the same SSRC
    // a late packet from before a jump: after "J" it lands 160 ticks after the pre-jump packet, and a
    // following "J" lands 160 ticks after the first post-jump packet (same continuous segment)
    Step { name: "L", dseq: 1, dts: 0u32.wrapping_sub(1_999_840), alt_pt: false },
];

#[derive(Clone, Copy, PartialEq, Eq, Debug, Hash)]
pub struct Letter {
    pub stream: u8,
    pub step: u8,
}
impl Letter {
    pub fn name(self) -> String {
        format!("{}:{}", if self.stream == 0 { "A" } else { "B" }, STEPS[self.step as usize].name)
    }
    pub fn parse(s: &str) -> Option<Letter> {
        let (a, b) = s.split_once(':')?;
        let stream = match a {
            "A" => 0,
            "B" => 1,
            _ => return None,
        };
        let step = STEPS.iter().position(|x| x.name == b)? as u8;
        Some(Letter { stream, step })
    }
}

// ───────────────────────────── rule tables and options ─────────────────────────────

#[derive(Clone)]
pub struct Table {
    pub name: &'static str,
    pub what: &'static str,
    pub strip: bool,
    /// rules, or None = install through the legacy `bridge_rewrite_to(params)` API
    pub rules: Option<Vec<RtpRewriteRule>>,
    pub legacy: Option<RtpRewriteBridgeParams>,
    /// the alternate-PT step is distinguishable from a normal step under this table
    pub alt_matters: bool,
}

fn rule(m: Option<u8>, fixed: Option<u32>, off: u32, out_pt: Option<u8>, mid: Option<(u8, &str)>) -> RtpRewriteRule {
    RtpRewriteRule {
        match_payload_type: m,
        fixed_out_ssrc: fixed,
        ssrc_offset: off,
        out_payload_type: out_pt,
        sdes_mid_extension_id: mid.map(|x| x.0),
        sdes_mid: mid.map(|x| x.1.to_string()),
    }
}

pub fn tables() -> Vec<Table> {
    let legacy = RtpRewriteBridgeParams {
        ssrc_offset: 0x0100_0000,
        fixed_out_ssrc: None,
        payload_type: Some(0),
        dtmf_payload_type: Some((ALT_PT, 126)),
        initial_sequence_number: None,
        initial_timestamp_offset: None,
        strip_extensions: false,
    };
    vec![
        Table { name: "catchall", what: "catch-all, SSRC offset", strip: false, rules: Some(vec![rule(None, None, 0x1000, None, None)]), legacy: None, alt_matters: false },
        Table {
            name: "catchall+pt",
            what: "catch-all (offset) + rules for PT 97 and 101 with fixed SSRCs and PT rewrite",
            strip: false,
            rules: Some(vec![rule(None, None, 0x1000, None, None), rule(Some(SRC_PT[1]), Some(0xBBBB_0001), 0, Some(100), None), rule(Some(ALT_PT), Some(0xDDDD_0001), 0, Some(126), None)]),
            legacy: None,
            alt_matters: true,
        },
        Table {
            name: "pt-only",
            what: "PT rules only (96 offset, 101 fixed); PT 97 matches no rule",
            strip: false,
            rules: Some(vec![rule(Some(SRC_PT[0]), None, 0x10, None, None), rule(Some(ALT_PT), Some(0xDDDD_0002), 0, Some(102), None)]),
            legacy: None,
            alt_matters: true,
        },
        Table { name: "fixed-ssrc", what: "catch-all with fixed output SSRC (both sources share it)", strip: false, rules: Some(vec![rule(None, Some(0xF00D_0001), 0, None, None)]), legacy: None, alt_matters: false },
        Table { name: "pt-rewrite", what: "catch-all with PT rewrite", strip: false, rules: Some(vec![rule(None, None, 0x1000, Some(8), None)]), legacy: None, alt_matters: false },
        Table {
            name: "mid-stamp",
            what: "catch-all and PT-97 rule, each stamping its own SDES MID",
            strip: false,
            rules: Some(vec![rule(None, None, 0x1000, None, Some((4, "0"))), rule(Some(SRC_PT[1]), None, 0x2000, None, Some((4, "1")))]),
            legacy: None,
            alt_matters: false,
        },
        Table {
            name: "strip",
            what: "strip extensions; catch-all + PT-97 rule (MID stamping configured but suppressed)",
            strip: true,
            rules: Some(vec![rule(None, None, 0x1000, None, Some((4, "0"))), rule(Some(SRC_PT[1]), Some(0xBBBB_0002), 0, Some(100), None)]),
            legacy: None,
            alt_matters: false,
        },
        Table { name: "legacy-dtmf", what: "bridge_rewrite_to(params): catch-all PT rewrite + DTMF remap 101->126", strip: false, rules: None, legacy: Some(legacy), alt_matters: true },
    ]
}

#[derive(Clone, Copy, PartialEq, Eq, Debug)]
pub struct Opts {
    pub name: &'static str,
    pub seq: Option<u16>,
    pub ts_off: Option<u32>,
    pub out_ts: Option<u32>,
}
pub const OPTS: [Opts; 3] = [
    // output sequence wraps after two packets per stream, output timestamps wrap as well
    Opts { name: "seeded-near-wrap", seq: Some(65534), ts_off: Some(0xFFFF_FE00), out_ts: None },
    // library picks random initial sequence / timestamp offset
    Opts { name: "random", seq: None, ts_off: None, out_ts: None },
    // first output timestamp pinned (sets the marker bit on the first packet)
    Opts { name: "pinned-out-ts", seq: Some(10), ts_off: None, out_ts: Some(0xFFFF_FF00) },
];

// ───────────────────────────── the real system ─────────────────────────────

pub struct Rig {
    target: Arc<RtpTransport>,
    src_conn: Arc<IceConn>,
    out: mpsc::UnboundedReceiver<VerifDatagram>,
    _keep: watch::Sender<Option<IceSocketWrapper>>,
    buf: Vec<u8>,
    from: SocketAddr,
}

#[derive(Clone, Copy, Debug, PartialEq, Eq)]
pub struct Out {
    pub ssrc: u32,
    pub pt: u8,
    pub seq: u16,
    pub ts: u32,
    pub has_ext: bool,
}

#[derive(Clone, Copy, Debug)]
pub struct Src {
    pub stream: u8,
    pub pt: u8,
    pub seq: u16,
    pub ts: u32,
}

impl Rig {
    pub fn new() -> Rig {
        let local: SocketAddr = "10.9.0.1:4000".parse().unwrap();
        let remote: SocketAddr = "10.9.0.2:4002".parse().unwrap();
        let (tx, out) = mpsc::unbounded_channel();
        let sock = IceSocketWrapper::Verif(Arc::new(VerifSocket { local, tx }));
        let (keep, srx) = watch::channel(Some(sock));
        let conn = IceConn::new(srx, remote, None);
        let target = Arc::new(RtpTransport::new(conn, false));
        let (_t, rx2) = watch::channel(None::<IceSocketWrapper>);
        let src_conn = IceConn::new(rx2, "10.9.0.3:4004".parse().unwrap(), None);
        Rig { target, src_conn, out, _keep: keep, buf: Vec::with_capacity(256), from: "10.9.0.3:4004".parse().unwrap() }
    }

    fn fresh_source(&self, table: &Table, opts: &Opts) -> RtpTransport {
        let s = RtpTransport::new(self.src_conn.clone(), false);
        if let Some(rules) = &table.rules {
            let o = RtpRewriteBridgeOptions { strip_extensions: table.strip, initial_sequence_number: opts.seq, initial_timestamp_offset: opts.ts_off, initial_output_timestamp: opts.out_ts };
            s.bridge_rewrite_rules_to(self.target.clone(), o, rules.clone());
        } else {
            let mut p = table.legacy.unwrap();
            p.initial_sequence_number = opts.seq;
            p.initial_timestamp_offset = opts.ts_off;
            p.strip_extensions = table.strip;
            s.bridge_rewrite_to(self.target.clone(), p);
        }
        s
    }
}

fn wire(src: &Src) -> Bytes {
    let mut h = RtpHeader::new(src.pt, src.seq, src.ts, SRC_SSRC[src.stream as usize]);
    if src.stream == 0 {
        // stream A carries header extensions (an abs-send-time-like element and a MID)
        h.set_extension(3, &[1, 2, 3]).unwrap();
        h.set_extension(4, b"7").unwrap();
    }
    Bytes::from(RtpPacket::new(h, vec![0x55; 20]).marshal().unwrap())
}

fn parse_out(b: &[u8]) -> Option<Out> {
    if b.len() < 12 || b[0] >> 6 != 2 {
        return None;
    }
    Some(Out {
        has_ext: b[0] & 0x10 != 0,
        pt: b[1] & 0x7F,
        seq: u16::from_be_bytes([b[2], b[3]]),
        ts: u32::from_be_bytes([b[4], b[5], b[6], b[7]]),
        ssrc: u32::from_be_bytes([b[8], b[9], b[10], b[11]]),
    })
}

// ───────────────────────────── oracle ─────────────────────────────

/// Reference rule selection from the documentation of `RtpRewriteRule`: exact PT match wins,
/// otherwise the catch-all, otherwise no rule. Returns (rule index or usize::MAX, replacement PT).
fn ref_rule(rules: &[RtpRewriteRule], pt: u8) -> (usize, Option<u8>) {
    if let Some(i) = rules.iter().position(|r| r.match_payload_type == Some(pt)) {
        return (i, rules[i].out_payload_type);
    }
    if let Some(i) = rules.iter().position(|r| r.match_payload_type.is_none()) {
        return (i, rules[i].out_payload_type);
    }
    (usize::MAX, None)
}

#[derive(Clone, Default)]
struct StreamRef {
    n: usize,
    last_out_seq: u16,
    last_out_ts: u32,
    hi: u32,
    prev_ts: u32,
    offset: u32,
    /// (rule index, first output SSRC seen)
    ssrc_by_rule: Vec<(usize, u32)>,
}

#[derive(Clone, Debug)]
pub struct BViol {
    pub sig: String,
    pub detail: String,
    pub step: usize,
}

#[derive(Default, Clone)]
pub struct BStats {
    pub histories_full: u64,
    pub transitions: u64,
    pub outputs: u64,
    pub discontinuities: u64,
    pub backwards: u64,
    pub out_seq_wraps: u64,
    pub out_ts_wraps: u64,
    pub src_ts_wraps: u64,
    pub stamped_or_ext: u64,
    pub lenient: u64,
    pub viols: Vec<(BViol, String, String, Vec<Letter>)>,
}
impl BStats {
    pub fn merge(mut self, o: BStats) -> BStats {
        self.histories_full += o.histories_full;
        self.transitions += o.transitions;
        self.outputs += o.outputs;
        self.discontinuities += o.discontinuities;
        self.backwards += o.backwards;
        self.out_seq_wraps += o.out_seq_wraps;
        self.out_ts_wraps += o.out_ts_wraps;
        self.src_ts_wraps += o.src_ts_wraps;
        self.stamped_or_ext += o.stamped_or_ext;
        self.lenient += o.lenient;
        for v in o.viols {
            self.add(v);
        }
        self
    }
    pub fn add(&mut self, v: (BViol, String, String, Vec<Letter>)) {
        if let Some(e) = self.viols.iter_mut().find(|e| e.0.sig == v.0.sig) {
            if v.3.len() < e.3.len() {
                *e = v;
            }
        } else if self.viols.len() < 500 {
            self.viols.push(v);
        }
    }
}

pub fn effective_rules(table: &Table) -> Vec<RtpRewriteRule> {
    match &table.rules {
        Some(r) => r.clone(),
        // documented mapping of the legacy parameters: catch-all + DTMF rule
        None => {
            let p = table.legacy.unwrap();
            let mut v = vec![rule(None, p.fixed_out_ssrc, p.ssrc_offset, p.payload_type, None)];
            if let Some((s, d)) = p.dtmf_payload_type {
                v.push(rule(Some(s), p.fixed_out_ssrc, p.ssrc_offset, Some(d), None));
            }
            v
        }
    }
}

/// Replay one history on a fresh source transport + bridge and judge every step.
/// `verbose` prints each step (replay mode).
pub fn run(rig: &mut Rig, table: &Table, opts: &Opts, hist: &[Letter], st: &mut BStats, verbose: bool) -> Vec<BViol> {
    while rig.out.try_recv().is_ok() {}
    // the library draws the initial sequence number / timestamp offset of a new stream from
    // random_u32(); the values are forced so that every replay is deterministic (stream 1 starts
    // at output seq 65535 / offset 2^31, stream 2 at seq 0 / offset 2^32-1 when nothing is seeded)
    rustrtc::verif::clear_forced_u32();
    if opts.seq.is_none() && opts.ts_off.is_none() {
        rustrtc::verif::force_u32(&[0x1234_FFFF, 0x8000_0000, 0x4321_0000, 0xFFFF_FFFF]);
    }
    let src_t = rig.fresh_source(table, opts);
    let rules = effective_rules(table);
    let mut cur_seq = START_SEQ;
    let mut cur_ts = START_TS;
    let mut refs: [StreamRef; 2] = [StreamRef::default(), StreamRef::default()];
    let mut viols = vec![];
    for (i, l) in hist.iter().enumerate() {
        let s = l.stream as usize;
        let step = STEPS[l.step as usize];
        cur_seq[s] = cur_seq[s].wrapping_add(step.dseq);
        let old_ts = cur_ts[s];
        cur_ts[s] = cur_ts[s].wrapping_add(step.dts);
        if step.dts < 0x8000_0000 && cur_ts[s] < old_ts {
            st.src_ts_wraps += 1;
        }
        let src = Src { stream: l.stream, pt: if step.alt_pt { ALT_PT } else { SRC_PT[s] }, seq: cur_seq[s], ts: cur_ts[s] };
        let from = rig.from;
        super::poll_ready(src_t.receive(wire(&src), from, &mut rig.buf));
        st.transitions += 1;
        let mut outs = vec![];
        while let Ok((bytes, _, _)) = rig.out.try_recv() {
            outs.push(bytes);
        }
        let mut push = |kind: &str, detail: String| {
            viols.push(BViol { sig: format!("bridge;{kind};table={};step={}", table.name, step.name), detail: format!("step {i} ({}): {detail}", l.name()), step: i });
        };
        if outs.len() != 1 {
            push("output-count", format!("{} datagrams emitted for one forwarded packet", outs.len()));
            continue;
        }
        let Some(o) = parse_out(&outs[0]) else {
            push("output-unparseable", format!("emitted datagram is not RTP: {}", outs[0].iter().map(|b| format!("{b:02x}")).collect::<String>()));
            continue;
        };
        st.outputs += 1;
        if o.has_ext {
            st.stamped_or_ext += 1;
        }
        if verbose {
            println!("  step {i} {}: src pt={} seq={} ts={:#x}  ->  out ssrc={:#x} pt={} seq={} ts={:#x} ext={}", l.name(), src.pt, src.seq, src.ts, o.ssrc, o.pt, o.seq, o.ts, o.has_ext);
        }
        let r = &mut refs[s];
        let (ri, out_pt) = ref_rule(&rules, src.pt);
        // (1) stable output SSRC per (source stream, rule)
        match r.ssrc_by_rule.iter().find(|(x, _)| *x == ri) {
            None => r.ssrc_by_rule.push((ri, o.ssrc)),
            Some((_, first)) => {
                if *first != o.ssrc {
                    push("ssrc-unstable", format!("output SSRC {:#x} differs from {:#x} used earlier for the same source stream and rule", o.ssrc, first));
                }
            }
        }
        // (2) payload type per rule
        let want_pt = out_pt.unwrap_or(src.pt);
        if o.pt != want_pt {
            push("pt-wrong", format!("output PT {} but the matched rule maps source PT {} to {}", o.pt, src.pt, want_pt));
        }
        let diff = o.ts.wrapping_sub(src.ts);
        if r.n == 0 {
            r.hi = src.ts;
            r.offset = diff;
        } else {
            // (3) consecutive output sequence numbers in arrival order
            if o.seq != r.last_out_seq.wrapping_add(1) {
                push("seq-not-consecutive", format!("output seq {} follows {} for the same source stream", o.seq, r.last_out_seq));
            }
            if o.seq < r.last_out_seq {
                st.out_seq_wraps += 1;
            }
            // (4) timestamp differences preserved except across a source discontinuity
            let fwd = src.ts.wrapping_sub(r.hi);
            let from_prev = src.ts.wrapping_sub(r.prev_ts);
            let prev_mag = if from_prev < 0x8000_0000 { from_prev } else { 0u32.wrapping_sub(from_prev) };
            let in_order = fwd < 0x8000_0000;
            let discontinuity = in_order && fwd > DISCONTINUITY;
            if discontinuity {
                st.discontinuities += 1;
                r.offset = diff;
            } else if !in_order && prev_mag > DISCONTINUITY {
                // a late packet from the far side of a discontinuity: the statement does not say
                // which segment's offset it should carry, so any is accepted; the current
                // segment's offset stays in force for the packets that follow
                st.lenient += 1;
            } else if diff != r.offset {
                push(
                    "ts-delta",
                    format!("output timestamp {:#x} = source {:#x} + {:#x}, but the stream's offset since its last discontinuity is {:#x} (source step {} from newest in-order packet)", o.ts, src.ts, diff, r.offset, fwd as i32),
                );
                r.offset = diff;
            }
            if in_order {
                r.hi = src.ts;
            } else {
                st.backwards += 1;
            }
        }
        if r.n > 0 && step.dts <= DISCONTINUITY && o.ts < r.last_out_ts {
            st.out_ts_wraps += 1;
        }
        r.n += 1;
        r.last_out_seq = o.seq;
        r.last_out_ts = o.ts;
        r.prev_ts = src.ts;
    }
    rustrtc::verif::clear_forced_u32();
    viols
}

pub fn hist_json(table: &Table, opts: &Opts, h: &[Letter]) -> Value {
    json!({"part": "bridge", "table": table.name, "opts": opts.name, "history": h.iter().map(|l| l.name()).collect::<Vec<_>>()})
}

/// All histories of exactly `len` letters over `letters` whose first letters are `prefix`
/// (every shorter history is a prefix of one of them and is judged step by step).
pub fn enumerate(rig: &mut Rig, table: &Table, opts: &Opts, letters: &[Letter], prefix: &[Letter], len: usize, st: &mut BStats) {
    let k = letters.len();
    let free = len - prefix.len();
    let mut idx = vec![0usize; free];
    let mut h: Vec<Letter> = prefix.to_vec();
    h.resize(len, letters[0]);
    loop {
        for (j, ix) in idx.iter().enumerate() {
            h[prefix.len() + j] = letters[*ix];
        }
        let v = run(rig, table, opts, &h, st, false);
        st.histories_full += 1;
        for x in v {
            let cut = h[..=x.step].to_vec();
            st.add((x, table.name.to_string(), opts.name.to_string(), cut));
        }
        // next
        let mut j = free;
        loop {
            if j == 0 {
                return;
            }
            j -= 1;
            idx[j] += 1;
            if idx[j] < k {
                break;
            }
            idx[j] = 0;
        }
    }
}

pub fn letters_for(table: &Table, steps: &[u8]) -> Vec<Letter> {
    let mut v = vec![];
    for stream in 0..2u8 {
        for &s in steps {
            if STEPS[s as usize].alt_pt && !table.alt_matters {
                continue;
            }
            v.push(Letter { stream, step: s });
        }
    }
    v
}
