//! C19 helpers: `demux` (listener registry / demultiplexing history search) and `bridge`
//! (rewrite-bridge continuity enumeration). Both drive the real `RtpTransport`.
pub mod bridge;
pub mod demux;

use std::task::{Context, Poll};

/// Poll a future exactly once with a no-op waker. The RTP receive path of `RtpTransport`
/// (plain RTP, no SRTP) contains no suspension point, so `Pending` is a machinery failure.
pub fn poll_ready<F: std::future::Future<Output = ()>>(fut: F) {
    let mut fut = std::pin::pin!(fut);
    let mut cx = Context::from_waker(futures::task::noop_waker_ref());
    match fut.as_mut().poll(&mut cx) {
        Poll::Ready(()) => {}
        Poll::Pending => panic!("C19-HARNESS: RtpTransport::receive returned Pending"),
    }
}
