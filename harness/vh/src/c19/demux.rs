//! C19 part 1 — demultiplexing of inbound RTP to registered receivers.
//!
//! State of the search = (configuration, packet history). `World::build(cfg)` creates a fresh
//! real `RtpTransport`, applies the registration operations of `cfg` through the public
//! registration API and `World::feed` pushes one marshalled RTP packet through
//! `PacketReceiver::receive`; the per-listener channels are drained after every packet.
//!
//! The oracle is `Spec`, a reference demultiplexer written from the property statement
//! (RID -> MID -> SSRC -> unambiguous payload type -> nobody; a packet identified by RID or MID
//! teaches the SSRC -> receiver binding). The statement is silent about *closed* receivers, so
//! their registrations are treated as optional (honoured or already forgotten, at any time) and
//! the reference tracks the set of possible SSRC bindings; a delivery is accepted when some
//! admissible choice names the receiving listener, a drop is always accepted.
use bytes::Bytes;
use rustrtc::rtp::{RtpHeader, RtpPacket};
use rustrtc::transports::PacketReceiver;
use rustrtc::transports::ice::IceSocketWrapper;
use rustrtc::transports::ice::conn::IceConn;
use rustrtc::transports::rtp::RtpTransport;
use serde_json::{Value, json};
use std::collections::{HashMap, HashSet};
use std::net::SocketAddr;
use std::sync::{Arc, OnceLock};
use tokio::sync::{mpsc, watch};

pub const NL: usize = 3;
pub const SSRC: [u32; 3] = [0x1111_0001, 0x2222_0002, 0x3333_0003];
pub const PT: [u8; 3] = [96, 97, 111];
/// index 0,1 = registrable values (m1, m2 / r1, r2); index 2 = a value nobody registers.
pub const MID_STR: [&str; 3] = ["0", "1", "9"];
pub const RID_STR: [&str; 3] = ["hi", "lo", "zz"];
pub const BAD_UTF8: [u8; 2] = [0xC3, 0x28];
pub const MID_EXT_ID: u8 = 4;
pub const RID_EXT_ID: u8 = 10;
const SENTINEL_SSRC: u32 = 0xDEAD_BEEF;

// ───────────────────────────── registration operations ─────────────────────────────

#[derive(Clone, Copy, PartialEq, Eq, Hash, Debug, PartialOrd, Ord)]
pub enum Kind {
    Ssrc(u8),
    Rid(u8),
    Mid(u8),
    /// register_payload_list_listener with the PTs in the bit mask (replaces the list)
    PtList(u8),
    /// register_pt_listener (adds one PT)
    Pt(u8),
    Prov,
    /// RtpTransport::clear_listeners (listener field unused)
    Clear,
}

#[derive(Clone, Copy, PartialEq, Eq, Hash, Debug, PartialOrd, Ord)]
pub struct Op {
    pub l: u8,
    pub k: Kind,
}

impl Op {
    pub fn name(&self) -> String {
        let l = self.l;
        match self.k {
            Kind::Ssrc(s) => format!("L{l}.ssrc(s{})", s + 1),
            Kind::Rid(r) => format!("L{l}.rid(r{})", r + 1),
            Kind::Mid(m) => format!("L{l}.mid(m{})", m + 1),
            Kind::PtList(mask) => {
                let v: Vec<String> = (0..3).filter(|i| mask & (1 << i) != 0).map(|i| format!("p{}", i + 1)).collect();
                format!("L{l}.ptlist[{}]", v.join(","))
            }
            Kind::Pt(p) => format!("L{l}.pt(p{})", p + 1),
            Kind::Prov => format!("L{l}.prov"),
            Kind::Clear => "clear".into(),
        }
    }
    pub fn parse(s: &str) -> Option<Op> {
        if s == "clear" {
            return Some(Op { l: 0, k: Kind::Clear });
        }
        let (l, rest) = s.strip_prefix('L')?.split_once('.')?;
        let l: u8 = l.parse().ok()?;
        if l as usize >= NL {
            return None;
        }
        let num = |t: &str, pre: &str, suf: &str| -> Option<u8> {
            let n: u8 = t.strip_prefix(pre)?.strip_suffix(suf)?.parse().ok()?;
            if n >= 1 { Some(n - 1) } else { None }
        };
        let k = if rest == "prov" {
            Kind::Prov
        } else if let Some(v) = num(rest, "ssrc(s", ")") {
            Kind::Ssrc(v)
        } else if let Some(v) = num(rest, "rid(r", ")") {
            Kind::Rid(v)
        } else if let Some(v) = num(rest, "mid(m", ")") {
            Kind::Mid(v)
        } else if let Some(v) = num(rest, "pt(p", ")") {
            Kind::Pt(v)
        } else if let Some(inner) = rest.strip_prefix("ptlist[").and_then(|r| r.strip_suffix(']')) {
            let mut mask = 0u8;
            for part in inner.split(',').filter(|p| !p.is_empty()) {
                let n: u8 = part.strip_prefix('p')?.parse().ok()?;
                if !(1..=3).contains(&n) {
                    return None;
                }
                mask |= 1 << (n - 1);
            }
            Kind::PtList(mask)
        } else {
            return None;
        };
        Some(Op { l, k })
    }
}

#[derive(Clone, Copy, PartialEq, Eq, Hash, Debug)]
pub enum Stat {
    /// receiver dropped before any registration is made
    ClosedBefore,
    /// receiver dropped after all registrations, before the first packet
    ClosedAfter,
    /// capacity-1 queue pre-filled: every delivery attempt finds the queue full
    Full,
}
impl Stat {
    pub fn name(self) -> &'static str {
        match self {
            Stat::ClosedBefore => "closed-before",
            Stat::ClosedAfter => "closed-after",
            Stat::Full => "full",
        }
    }
    pub fn parse(s: &str) -> Option<Stat> {
        [Stat::ClosedBefore, Stat::ClosedAfter, Stat::Full].into_iter().find(|x| x.name() == s)
    }
}

#[derive(Clone, PartialEq, Eq, Hash, Debug)]
pub struct Cfg {
    pub ops: Vec<Op>,
    pub special: Option<(u8, Stat)>,
    pub mid_on: bool,
    pub rid_on: bool,
    /// how the header-extension block of every packet is laid out on the wire: 0 = as rustrtc's own
    /// encoder writes it (elements, then trailing padding); 1 = a filler element first and the
    /// MID / RID element(s) ending EXACTLY at the end of the block (no padding at all); 2 = a padding
    /// byte before / between the elements; 3 = RID before MID with the filler between them, exact fit
    pub layout: u8,
}

impl Cfg {
    pub fn json(&self) -> Value {
        json!({
            "ops": self.ops.iter().map(|o| o.name()).collect::<Vec<_>>(),
            "special": self.special.map(|(l, s)| json!({"listener": l, "status": s.name()})),
            "mid_ext_id_set": self.mid_on,
            "rid_ext_id_set": self.rid_on,
            "layout": self.layout,
        })
    }
    pub fn from_json(v: &Value) -> Option<Cfg> {
        let ops = v["ops"].as_array()?.iter().map(|s| Op::parse(s.as_str()?)).collect::<Option<Vec<_>>>()?;
        let special = if v["special"].is_null() {
            None
        } else {
            Some((v["special"]["listener"].as_u64()? as u8, Stat::parse(v["special"]["status"].as_str()?)?))
        };
        Some(Cfg { ops, special, mid_on: v["mid_ext_id_set"].as_bool()?, rid_on: v["rid_ext_id_set"].as_bool()?, layout: v["layout"].as_u64().unwrap_or(0) as u8 })
    }
    pub fn used(&self) -> [bool; NL] {
        let mut u = [false; NL];
        for o in &self.ops {
            if o.k != Kind::Clear {
                u[o.l as usize] = true;
            }
        }
        u
    }
}

// ───────────────────────────── packets ─────────────────────────────

/// Extension value code: 0 none, 1 = value 1 (m1/r1), 2 = value 2, 3 = unregistered value, 4 = non-UTF-8.
#[derive(Clone, Copy, PartialEq, Eq, Hash, Debug, PartialOrd, Ord)]
pub struct Pkt {
    pub s: u8,
    pub p: u8,
    pub mid: u8,
    pub rid: u8,
}
pub const N_PKT: usize = 3 * 3 * 5 * 5;

impl Pkt {
    pub fn idx(self) -> u16 {
        (((self.s as u16 * 3 + self.p as u16) * 5 + self.mid as u16) * 5) + self.rid as u16
    }
    pub fn from_idx(i: u16) -> Pkt {
        let rid = (i % 5) as u8;
        let mid = ((i / 5) % 5) as u8;
        let p = ((i / 25) % 3) as u8;
        let s = (i / 75) as u8;
        Pkt { s, p, mid, rid }
    }
    fn ext_name(c: u8, pre: &str) -> String {
        match c {
            0 => "none".into(),
            1 | 2 => format!("{pre}{c}"),
            3 => "unknown".into(),
            _ => "non-utf8".into(),
        }
    }
    fn ext_parse(s: &str, pre: &str) -> Option<u8> {
        Some(match s {
            "none" => 0,
            "unknown" => 3,
            "non-utf8" => 4,
            x => {
                let n: u8 = x.strip_prefix(pre)?.parse().ok()?;
                if !(1..=2).contains(&n) {
                    return None;
                }
                n
            }
        })
    }
    pub fn json(self) -> Value {
        json!({"ssrc": format!("s{}", self.s + 1), "pt": format!("p{}", self.p + 1),
               "mid": Self::ext_name(self.mid, "m"), "rid": Self::ext_name(self.rid, "r")})
    }
    pub fn from_json(v: &Value) -> Option<Pkt> {
        let s: u8 = v["ssrc"].as_str()?.strip_prefix('s')?.parse().ok()?;
        let p: u8 = v["pt"].as_str()?.strip_prefix('p')?.parse().ok()?;
        if !(1..=3).contains(&s) || !(1..=3).contains(&p) {
            return None;
        }
        Some(Pkt { s: s - 1, p: p - 1, mid: Self::ext_parse(v["mid"].as_str()?, "m")?, rid: Self::ext_parse(v["rid"].as_str()?, "r")? })
    }
    pub fn short(self) -> String {
        format!("s{}/p{}/mid={}/rid={}", self.s + 1, self.p + 1, Self::ext_name(self.mid, "m"), Self::ext_name(self.rid, "r"))
    }
    fn build_wire_layout(self, layout: u8) -> Bytes {
        if layout == 0 {
            return self.build_wire();
        }
        let i = self.idx();
        let mut h = RtpHeader::new(PT[self.p as usize], i, i as u32 * 160, SSRC[self.s as usize]);
        let val = |c: u8, tab: &[&str; 3]| -> Option<Vec<u8>> {
            match c {
                0 => None,
                1 | 2 | 3 => Some(tab[(c - 1) as usize].as_bytes().to_vec()),
                _ => Some(BAD_UTF8.to_vec()),
            }
        };
        let el = |id: u8, v: &[u8]| -> Vec<u8> {
            let mut e = vec![(id << 4) | (v.len() as u8 - 1)];
            e.extend_from_slice(v);
            e
        };
        let mid = val(self.mid, &MID_STR).map(|v| el(MID_EXT_ID, &v));
        let rid = val(self.rid, &RID_STR).map(|v| el(RID_EXT_ID, &v));
        // a filler element (id 5, an audio level as far as anyone is concerned) of total size f
        let filler = |n: usize| -> Vec<u8> {
            let f = match (4 - n % 4) % 4 {
                0 => 0,
                1 => 5,
                f => f,
            };
            if f == 0 { vec![] } else { el(5, &vec![0x7f; f - 1]) }
        };
        let mut data: Vec<u8> = vec![];
        match layout {
            1 => {
                let n = mid.as_ref().map_or(0, |e| e.len()) + rid.as_ref().map_or(0, |e| e.len());
                if n > 0 {
                    data.extend(filler(n));
                    data.extend(mid.iter().flatten());
                    data.extend(rid.iter().flatten());
                }
            }
            2 => {
                let els: Vec<&Vec<u8>> = mid.iter().chain(rid.iter()).collect();
                for e in &els {
                    data.push(0);
                    data.extend(e.iter());
                }
                while data.len() % 4 != 0 {
                    data.push(0);
                }
            }
            _ => {
                let n = mid.as_ref().map_or(0, |e| e.len()) + rid.as_ref().map_or(0, |e| e.len());
                if n > 0 {
                    data.extend(rid.iter().flatten());
                    data.extend(filler(n));
                    data.extend(mid.iter().flatten());
                }
            }
        }
        if !data.is_empty() {
            assert!(data.len() % 4 == 0);
            h.extension = Some(rustrtc::rtp::RtpHeaderExtension::new(0xBEDE, data));
        }
        let p = RtpPacket::new(h, vec![(i >> 8) as u8, i as u8, 0xAB, 0xCD]);
        Bytes::from(p.marshal().expect("marshal"))
    }
    fn build_wire(self) -> Bytes {
        let i = self.idx();
        let mut h = RtpHeader::new(PT[self.p as usize], i, i as u32 * 160, SSRC[self.s as usize]);
        let val = |c: u8, tab: &[&str; 3]| -> Option<Vec<u8>> {
            match c {
                0 => None,
                1 | 2 | 3 => Some(tab[(c - 1) as usize].as_bytes().to_vec()),
                _ => Some(BAD_UTF8.to_vec()),
            }
        };
        if let Some(v) = val(self.mid, &MID_STR) {
            h.set_extension(MID_EXT_ID, &v).expect("mid ext");
        }
        if let Some(v) = val(self.rid, &RID_STR) {
            h.set_extension(RID_EXT_ID, &v).expect("rid ext");
        }
        let p = RtpPacket::new(h, vec![(i >> 8) as u8, i as u8, 0xAB, 0xCD]);
        Bytes::from(p.marshal().expect("marshal"))
    }
}

pub fn wires() -> &'static Vec<Bytes> {
    wires_layout(0)
}

pub fn wires_layout(layout: u8) -> &'static Vec<Bytes> {
    static W: [OnceLock<Vec<Bytes>>; 4] = [OnceLock::new(), OnceLock::new(), OnceLock::new(), OnceLock::new()];
    W[layout as usize % 4].get_or_init(|| (0..N_PKT as u16).map(|i| Pkt::from_idx(i).build_wire_layout(layout % 4)).collect())
}

/// Packet alphabet used for a configuration (stated reduction): SSRC {s1,s2,s3}; PT = payload
/// types mentioned by the registration set plus the lowest unmentioned one; MID/RID extension =
/// {none, unregistered value, non-UTF-8} plus the registered values — a never-registered m2/r2
/// is represented by the unregistered value; when the transport's extension id is unset (the
/// extension must be ignored): {none, one registered-or-m1 value}.
pub fn alphabet(cfg: &Cfg) -> Vec<Pkt> {
    let mut pt_m = 0u8;
    let mut mid_m = 0u8;
    let mut rid_m = 0u8;
    for o in &cfg.ops {
        match o.k {
            Kind::PtList(m) => pt_m |= m,
            Kind::Pt(p) => pt_m |= 1 << p,
            Kind::Mid(m) => mid_m |= 1 << m,
            Kind::Rid(r) => rid_m |= 1 << r,
            _ => {}
        }
    }
    let mut pts: Vec<u8> = (0..3).filter(|p| pt_m & (1 << p) != 0).collect();
    if let Some(f) = (0..3).find(|p| pt_m & (1 << p) == 0) {
        pts.push(f);
    }
    let ext_dom = |on: bool, mask: u8| -> Vec<u8> {
        let regd: Vec<u8> = (0..2).filter(|m| mask & (1 << m) != 0).map(|m| m + 1).collect();
        if on {
            let mut v = vec![0u8];
            v.extend(regd);
            v.push(3);
            v.push(4);
            v
        } else {
            vec![0, *regd.first().unwrap_or(&1)]
        }
    };
    let mids = ext_dom(cfg.mid_on, mid_m);
    let rids = ext_dom(cfg.rid_on, rid_m);
    let mut out = vec![];
    // simplest first: no extensions, then MID, then RID
    for &rid in &rids {
        for &mid in &mids {
            for &p in &pts {
                for s in 0..3u8 {
                    out.push(Pkt { s, p, mid, rid });
                }
            }
        }
    }
    out
}

// ───────────────────────────── the real system ─────────────────────────────

pub fn mk_conn() -> Arc<IceConn> {
    let (_tx, rx) = watch::channel(None::<IceSocketWrapper>);
    IceConn::new(rx, "127.0.0.1:1234".parse().unwrap(), None)
}

fn src_addr() -> SocketAddr {
    static A: OnceLock<SocketAddr> = OnceLock::new();
    *A.get_or_init(|| "127.0.0.1:5000".parse().unwrap())
}

type Item = (RtpPacket, SocketAddr);

pub struct World {
    pub t: RtpTransport,
    rx: [Option<mpsc::Receiver<Item>>; NL],
    full: Option<u8>,
    buf: Vec<u8>,
    layout: u8,
    /// one more sender per listener, for a registration made after the world was built
    late_tx: [Option<mpsc::Sender<Item>>; NL],
}

#[derive(Clone, Copy, PartialEq, Eq, Hash, Debug, Default)]
pub struct Obs {
    /// bit l set = listener l received this packet
    pub delivered: u8,
    /// number of items that appeared on listener queues (must equal popcount(delivered))
    pub items: u8,
    /// an item that is not the packet just fed appeared
    pub foreign: bool,
    /// has_listener(s1..s3) after the step
    pub bound: u8,
}

impl World {
    pub fn build(cfg: &Cfg, conn: &Arc<IceConn>) -> World {
        let t = RtpTransport::new(conn.clone(), false);
        t.set_sdes_mid_extension_id(if cfg.mid_on { Some(MID_EXT_ID) } else { None });
        t.set_rid_extension_id(if cfg.rid_on { Some(RID_EXT_ID) } else { None });
        let used = cfg.used();
        let mut tx: [Option<mpsc::Sender<Item>>; NL] = [None, None, None];
        let mut rx: [Option<mpsc::Receiver<Item>>; NL] = [None, None, None];
        let mut full = None;
        for l in 0..NL {
            if !used[l] {
                continue;
            }
            let st = cfg.special.filter(|(sl, _)| *sl as usize == l).map(|(_, s)| s);
            let cap = if st == Some(Stat::Full) { 1 } else { 2 };
            let (a, b) = mpsc::channel::<Item>(cap);
            if st == Some(Stat::Full) {
                let h = RtpHeader::new(0, 0, 0, SENTINEL_SSRC);
                a.try_send((RtpPacket::new(h, vec![0]), src_addr())).expect("prefill");
                full = Some(l as u8);
            }
            tx[l] = Some(a);
            rx[l] = if st == Some(Stat::ClosedBefore) { None } else { Some(b) };
        }
        for o in &cfg.ops {
            if o.k == Kind::Clear {
                t.clear_listeners();
                continue;
            }
            let s = tx[o.l as usize].as_ref().unwrap().clone();
            match o.k {
                Kind::Ssrc(i) => t.register_listener_sync(SSRC[i as usize], s),
                Kind::Rid(i) => t.register_rid_listener(RID_STR[i as usize].to_string(), s),
                Kind::Mid(i) => t.register_mid_listener(MID_STR[i as usize].to_string(), s),
                Kind::PtList(m) => t.register_payload_list_listener((0..3).filter(|i| m & (1 << i) != 0).map(|i| PT[i]).collect(), s),
                Kind::Pt(i) => t.register_pt_listener(PT[i as usize], s),
                Kind::Prov => t.register_provisional_listener(s),
                Kind::Clear => unreachable!(),
            }
        }
        if let Some((l, Stat::ClosedAfter)) = cfg.special {
            rx[l as usize] = None;
        }
        World { t, rx, full, buf: Vec::with_capacity(256), layout: cfg.layout, late_tx: tx }
    }

    pub fn feed(&mut self, p: Pkt) -> Obs {
        let wire = wires_layout(self.layout)[p.idx() as usize].clone();
        super::poll_ready(self.t.receive(wire, src_addr(), &mut self.buf));
        let mut o = Obs::default();
        for l in 0..NL {
            if self.full == Some(l as u8) {
                // capacity 1 and the sentinel is never removed: nothing can have been queued.
                if let Some(rx) = &self.rx[l] {
                    if rx.len() != 1 {
                        o.foreign = true;
                    }
                }
                continue;
            }
            if let Some(rx) = &mut self.rx[l] {
                while let Ok((pk, _)) = rx.try_recv() {
                    o.items += 1;
                    o.delivered |= 1 << l;
                    if pk.header.sequence_number != p.idx() || pk.header.ssrc != SSRC[p.s as usize] || pk.header.payload_type != PT[p.p as usize] {
                        o.foreign = true;
                    }
                }
            }
        }
        for (i, s) in SSRC.iter().enumerate() {
            if self.t.has_listener(*s) {
                o.bound |= 1 << i;
            }
        }
        o
    }
}

// ───────────────────────────── concurrent registration / delivery ─────────────────────────────
//
// The socket read loop delivers packets while signaling tasks (a renegotiation) register and clear
// receivers. Two real threads under `crate::csched` (hook H6 covers the registry mutex): thread 1
// delivers one packet, thread 2 performs one registration operation; every order of passing the
// mutex's lock / unlock points is executed. Oracle: linearizability against the real transport run
// sequentially - who received the packet, who receives the SAME packet when it is delivered once more
// afterwards, and which SSRCs are bound, must be what one of the two sequential orders gives.

pub type ConcOutcome = (u8, u8, u8, bool);

/// a registration made on an existing world (`late_tx` keeps one sender per listener)
fn late_op_fn(w: &World, o: Op) -> Box<dyn FnOnce() + Send + 'static> {
    let tp = &w.t as *const RtpTransport as usize;
    // SAFETY (both closures): the world outlives the threads - run_schedule joins them before it
    // returns; on a deadlock the caller leaks the world
    if o.k == Kind::Clear {
        return Box::new(move || {
            let _ = unsafe { &*(tp as *const RtpTransport) }.clear_listeners();
        });
    }
    let s = w.late_tx[o.l as usize].as_ref().expect("listener in use").clone();
    Box::new(move || {
        let t = unsafe { &*(tp as *const RtpTransport) };
        match o.k {
            Kind::Ssrc(i) => t.register_listener_sync(SSRC[i as usize], s),
            Kind::Rid(i) => t.register_rid_listener(RID_STR[i as usize].to_string(), s),
            Kind::Mid(i) => t.register_mid_listener(MID_STR[i as usize].to_string(), s),
            Kind::PtList(m) => t.register_payload_list_listener((0..3).filter(|i| m & (1 << i) != 0).map(|i| PT[i]).collect(), s),
            Kind::Pt(i) => t.register_pt_listener(PT[i as usize], s),
            Kind::Prov => t.register_provisional_listener(s),
            Kind::Clear => unreachable!(),
        }
    })
}

fn feed_fn(w: &World, p: Pkt) -> Box<dyn FnOnce() + Send + 'static> {
    let tp = &w.t as *const RtpTransport as usize;
    let wire = wires_layout(w.layout)[p.idx() as usize].clone();
    Box::new(move || {
        let t = unsafe { &*(tp as *const RtpTransport) };
        let mut buf = Vec::with_capacity(256);
        super::poll_ready(t.receive(wire, src_addr(), &mut buf));
    })
}

impl World {
    /// what is queued right now, per listener (bit mask), without feeding anything
    fn drain(&mut self) -> u8 {
        let mut d = 0u8;
        for l in 0..NL {
            if let Some(rx) = &mut self.rx[l] {
                while rx.try_recv().is_ok() {
                    d |= 1 << l;
                }
            }
        }
        d
    }
}

/// `order`: None = the two threads under `schedule`; Some(true) = packet then operation
/// sequentially; Some(false) = operation then packet.
pub fn conc_run(cfg: &Cfg, p: Pkt, late: Op, order: Option<bool>, schedule: &[usize], conn: &Arc<IceConn>) -> (Option<crate::csched::Execution>, ConcOutcome) {
    let mut w = World::build(cfg, conn);
    let mut exec = None;
    match order {
        Some(first_packet) => {
            let (a, b) = (feed_fn(&w, p), late_op_fn(&w, late));
            if first_packet {
                a();
                b();
            } else {
                b();
                a();
            }
        }
        None => {
            let bodies = vec![feed_fn(&w, p), late_op_fn(&w, late)];
            let x = crate::csched::run_schedule(bodies, schedule);
            if x.deadlock {
                std::mem::forget(w);
                return (Some(x), (0, 0, 0, true));
            }
            exec = Some(x);
        }
    }
    let first = w.drain();
    let probe = w.feed(p);
    (exec, (first, probe.delivered, probe.bound, probe.foreign))
}

#[derive(Default)]
pub struct ConcStats {
    pub cases: u64,
    pub schedules: u64,
    pub racy_cases: u64,
    pub viol: Vec<(String, String, Value)>,
}

pub fn conc_json(cfg: &Cfg, p: Pkt, late: Op, schedule: &[usize]) -> Value {
    json!({"part": "demux-concurrent", "cfg": cfg.json(), "packet": p.json(), "late_op": late.name(), "schedule": schedule})
}

pub fn conc_cases(thorough: bool) -> Vec<(Cfg, Pkt, Op)> {
    let op = |l: u8, k: Kind| Op { l, k };
    // initial registries: one or two registrations for listener 0 (and 2), optionally with listener 0's
    // receiver already gone
    let bases: Vec<Vec<Op>> = vec![
        vec![op(0, Kind::Ssrc(0))],
        vec![op(0, Kind::Rid(0))],
        vec![op(0, Kind::Mid(0))],
        vec![op(0, Kind::PtList(1))],
        vec![op(0, Kind::Prov)],
        vec![op(0, Kind::Ssrc(0)), op(2, Kind::PtList(1))],
        vec![op(0, Kind::Mid(0)), op(2, Kind::Prov)],
        vec![op(0, Kind::PtList(1)), op(2, Kind::Prov)],
    ];
    let lates = [op(1, Kind::Ssrc(0)), op(1, Kind::Rid(0)), op(1, Kind::Mid(0)), op(1, Kind::PtList(1)), op(1, Kind::Pt(0)), op(1, Kind::Prov), op(0, Kind::Clear), op(0, Kind::Ssrc(0))];
    let pkts = [Pkt { s: 0, p: 0, mid: 0, rid: 0 }, Pkt { s: 0, p: 0, mid: 1, rid: 0 }, Pkt { s: 0, p: 0, mid: 0, rid: 1 }, Pkt { s: 1, p: 0, mid: 1, rid: 0 }];
    let mut out = vec![];
    for b in &bases {
        let specials: Vec<Option<(u8, Stat)>> = if thorough { vec![None, Some((0, Stat::ClosedAfter)), Some((0, Stat::ClosedBefore)), Some((0, Stat::Full))] } else { vec![None, Some((0, Stat::ClosedAfter))] };
        for sp in specials {
            for late in lates {
                // listener 1 needs a channel: `used()` only covers the initial ops, so give it one
                // through a harmless initial op when it registers late
                let mut ops = b.clone();
                if late.l == 1 {
                    ops.push(op(1, Kind::Ssrc(2)));
                }
                let cfg = Cfg { ops, special: sp, mid_on: true, rid_on: true, layout: 0 };
                for p in pkts {
                    out.push((cfg.clone(), p, late));
                }
            }
        }
    }
    out
}

pub fn conc_explore(cases: &[(Cfg, Pkt, Op)]) -> ConcStats {
    use rayon::prelude::*;
    let parts: Vec<ConcStats> = cases
        .par_iter()
        .map(|(cfg, p, late)| {
            let conn = mk_conn();
            let seq = [conc_run(cfg, *p, *late, Some(true), &[], &conn).1, conc_run(cfg, *p, *late, Some(false), &[], &conn).1];
            let mut st = ConcStats { cases: 1, ..Default::default() };
            let mut outcomes: std::collections::HashSet<ConcOutcome> = Default::default();
            let last = std::cell::Cell::new(None);
            let ex = crate::csched::explore(
                None,
                |schedule| {
                    let (x, o) = conc_run(cfg, *p, *late, None, schedule, &conn);
                    last.set(Some(o));
                    x.expect("execution")
                },
                |x| {
                    let o = last.take().expect("outcome");
                    outcomes.insert(o);
                    if x.deadlock {
                        st.viol.push((format!("demux-concurrent;deadlock;late={}", late.name()), format!("schedule {}", x.schedule().join(" ")), conc_json(cfg, *p, *late, &x.choices())));
                        return false;
                    }
                    if !seq.contains(&o) && st.viol.is_empty() {
                        let m = |b: u8| -> String { (0..NL).filter(|l| b & (1 << l) != 0).map(|l| format!("L{l}")).collect::<Vec<_>>().join("+") };
                        st.viol.push((
                            format!("demux-concurrent;not-linearizable;registry={};status={};late={};packet={};first={};again={}", cfg.ops.iter().map(|o| o.name()).collect::<Vec<_>>().join(","), cfg.special.map_or("open".to_string(), |(l, s)| format!("L{l}:{}", s.name())), late.name(), p.short(), m(o.0), m(o.1)),
                            format!("packet {} delivered while {} runs: received by [{}], the same packet delivered again afterwards by [{}], bound SSRC mask {:#b}; packet-then-operation gives {:?}, operation-then-packet gives {:?}; schedule: {}", p.short(), late.name(), m(o.0), m(o.1), o.2, seq[0], seq[1], x.schedule().join(" ")),
                            conc_json(cfg, *p, *late, &x.choices()),
                        ));
                    }
                    true
                },
            );
            st.schedules = ex.schedules;
            st.racy_cases = u64::from(outcomes.len() >= 2);
            st
        })
        .collect();
    let mut total = ConcStats::default();
    for s in parts {
        total.cases += s.cases;
        total.schedules += s.schedules;
        total.racy_cases += s.racy_cases;
        total.viol.extend(s.viol);
    }
    total
}

// ───────────────────────────── reference demultiplexer ─────────────────────────────

#[derive(Clone, Copy, PartialEq, Eq, Hash, Debug)]
pub enum Via {
    Rid,
    Mid,
    Ssrc,
    Pt,
    Prov,
    Nobody,
}
impl Via {
    pub fn name(self) -> &'static str {
        match self {
            Via::Rid => "rid",
            Via::Mid => "mid",
            Via::Ssrc => "ssrc",
            Via::Pt => "pt",
            Via::Prov => "prov-fallback",
            Via::Nobody => "nobody",
        }
    }
    fn bit(self) -> u8 {
        1 << (self as u8)
    }
    pub fn names(mask: u8) -> String {
        let all = [Via::Rid, Via::Mid, Via::Ssrc, Via::Pt, Via::Prov, Via::Nobody];
        let v: Vec<&str> = all.iter().filter(|x| mask & x.bit() != 0).map(|x| x.name()).collect();
        v.join("|")
    }
}

const UNBOUND: u8 = 1 << 3;

/// Reference demultiplexer written from the property statement: RID -> MID -> SSRC ->
/// unambiguous payload type -> nobody (single-provisional fallback tolerated only when no other
/// listener lists the payload type); identification by RID, MID or payload type binds the SSRC.
///
/// The statement is silent about a *closed* receiver, so its registrations (and SSRC bindings
/// that point at it) are optional: each may be honoured (the packet is swallowed) or already
/// forgotten, independently and at any time; a packet identified for the closed receiver may or
/// may not rebind the SSRC. The reference therefore tracks, per SSRC, the *set* of possible
/// bindings, and a delivery is accepted when some admissible choice names the receiving listener.
#[derive(Clone, PartialEq, Eq, Hash, Debug)]
pub struct Spec {
    rid: [Option<u8>; 2],
    mid: [Option<u8>; 2],
    pts: [u8; NL],
    prov: [bool; NL],
    /// per SSRC: bit l = may be bound to listener l, bit 3 = may be unbound
    pub poss: [u8; 3],
    closed: Option<u8>,
    mid_on: bool,
    rid_on: bool,
}

#[derive(Clone, Copy, PartialEq, Eq, Debug, Default)]
pub struct Decision {
    /// listeners that some admissible choice identifies for the packet
    pub allowed: u8,
    /// identification routes over all admissible choices (Via bits)
    pub vias: u8,
    /// route of a choice consistent with the observed delivery (Via bit, 0 if none)
    pub via_taken: u8,
    /// the closed receiver is among the identified ones
    pub names_closed: bool,
    /// observed delivery is admissible
    pub ok: bool,
}

impl Spec {
    pub fn new(cfg: &Cfg) -> Spec {
        let mut r = Spec { rid: [None; 2], mid: [None; 2], pts: [0; NL], prov: [false; NL], poss: [UNBOUND; 3], closed: None, mid_on: cfg.mid_on, rid_on: cfg.rid_on };
        if let Some((l, Stat::ClosedBefore | Stat::ClosedAfter)) = cfg.special {
            r.closed = Some(l);
        }
        for o in &cfg.ops {
            let l = o.l;
            match o.k {
                Kind::Ssrc(i) => r.poss[i as usize] = 1 << l,
                Kind::Rid(i) => r.rid[i as usize] = Some(l),
                Kind::Mid(i) => r.mid[i as usize] = Some(l),
                Kind::PtList(m) => r.pts[l as usize] = m,
                Kind::Pt(i) => r.pts[l as usize] |= 1 << i,
                Kind::Prov => r.prov[l as usize] = true,
                Kind::Clear => {
                    r.rid = [None; 2];
                    r.mid = [None; 2];
                    r.poss = [UNBOUND; 3];
                    r.pts = [0; NL];
                    r.prov = [false; NL];
                }
            }
        }
        r.close_over();
        r
    }
    /// a binding to the closed receiver may already have been forgotten
    fn close_over(&mut self) {
        if let Some(c) = self.closed {
            for p in self.poss.iter_mut() {
                if *p & (1 << c) != 0 {
                    *p |= UNBOUND;
                }
            }
        }
    }
    /// Judge the observed delivery (`delivered` = receiving listener, None = dropped) and advance.
    pub fn step(&mut self, p: Pkt, delivered: Option<u8>) -> Decision {
        let c = self.closed;
        let is_c = |l: Option<u8>| l.is_some() && l == c;
        let rid_t = if self.rid_on && (1..=2).contains(&p.rid) { self.rid[(p.rid - 1) as usize] } else { None };
        let mid_t = if self.mid_on && (1..=2).contains(&p.mid) { self.mid[(p.mid - 1) as usize] } else { None };
        let mut live_listing = 0u8;
        let mut live_provs = 0u8;
        for l in 0..NL {
            if Some(l as u8) == c {
                continue;
            }
            if self.pts[l] & (1 << p.p) != 0 {
                live_listing |= 1 << l;
            }
            if self.prov[l] {
                live_provs |= 1 << l;
            }
        }
        // optional facts (only those that exist and concern the closed receiver vary)
        let opt = [is_c(rid_t), is_c(mid_t), c.is_some_and(|c| self.pts[c as usize] & (1 << p.p) != 0), c.is_some_and(|c| self.prov[c as usize])];
        let cbit = c.map(|c| 1u8 << c).unwrap_or(0);
        let poss = self.poss[p.s as usize];
        let mut d = Decision::default();
        let mut newposs_ok = 0u8;
        let mut newposs_all = 0u8;
        for combo in 0u8..16 {
            // skip combos that toggle a fact which is not optional
            if (0..4).any(|i| !opt[i] && combo & (1 << i) != 0) {
                continue;
            }
            let present = |i: usize| !opt[i] || combo & (1 << i) == 0;
            for vbit in 0..4u8 {
                if poss & (1 << vbit) == 0 {
                    continue;
                }
                let (t, via) = if rid_t.is_some() && present(0) {
                    (rid_t, Via::Rid)
                } else if mid_t.is_some() && present(1) {
                    (mid_t, Via::Mid)
                } else if vbit < 3 {
                    (Some(vbit), Via::Ssrc)
                } else {
                    let listing = live_listing | if opt[2] && present(2) { cbit } else { 0 };
                    let provs = live_provs | if opt[3] && present(3) { cbit } else { 0 };
                    if listing.count_ones() == 1 {
                        (Some(listing.trailing_zeros() as u8), Via::Pt)
                    } else if provs.count_ones() == 1 && listing & !provs == 0 {
                        (Some(provs.trailing_zeros() as u8), Via::Prov)
                    } else {
                        (None, Via::Nobody)
                    }
                };
                d.vias |= via.bit();
                if let Some(t) = t {
                    d.allowed |= 1 << t;
                    if Some(t) == c {
                        d.names_closed = true;
                    }
                }
                let binds = matches!(via, Via::Rid | Via::Mid | Via::Pt);
                let mut np = if binds { 1u8 << t.unwrap() } else { 1 << vbit };
                if binds && (t == c || via == Via::Pt) {
                    // swallowed by the closed receiver: rebinding optional; binding learnt from
                    // a payload type (RFC 8843 9.2, what the transport does) is accepted, not demanded
                    np |= 1 << vbit;
                }
                newposs_all |= np;
                let consistent = match delivered {
                    None => true,
                    Some(x) => t == Some(x) && t != c,
                };
                if consistent {
                    newposs_ok |= np;
                    if d.via_taken == 0 {
                        d.via_taken = via.bit();
                    }
                }
            }
        }
        d.ok = newposs_ok != 0;
        self.poss[p.s as usize] = if d.ok { newposs_ok } else { newposs_all };
        self.close_over();
        d
    }
    /// some receiver (open or closed) lists the packet's payload type
    pub fn lists_pt(&self, p: Pkt) -> bool {
        self.pts.iter().any(|m| m & (1 << p.p) != 0)
    }
    /// Which registered keys of listener `l` match packet `p` (for signatures)?
    pub fn matching_keys(&self, l: u8, p: Pkt) -> String {
        let mut v = vec![];
        if self.rid_on && (1..=2).contains(&p.rid) && self.rid[(p.rid - 1) as usize] == Some(l) {
            v.push("rid");
        }
        if self.mid_on && (1..=2).contains(&p.mid) && self.mid[(p.mid - 1) as usize] == Some(l) {
            v.push("mid");
        }
        if self.poss[p.s as usize] & (1 << l) != 0 {
            v.push("ssrc");
        }
        if self.pts[l as usize] & (1 << p.p) != 0 {
            v.push("pt");
        }
        if self.prov[l as usize] {
            v.push("prov");
        }
        if v.is_empty() { "nothing".into() } else { v.join("+") }
    }
}

// ───────────────────────────── one replay ─────────────────────────────

#[derive(Clone, Debug)]
pub struct Viol {
    pub sig: String,
    pub detail: String,
    pub step: usize,
}

/// Bookkeeping model of the transport's registry *as implemented* (lazy pruning of closed
/// senders included). It is used only as the key of the canonical-state merge of pass B — never
/// as an oracle — and is itself checked at every step against the observed delivery; a history on
/// which it mispredicts is never merged (`off_model`).
/// Which of the behaviours the bookkeeping model has to mirror. Measured on the real transport
/// by four probes at start-up (`calibrate`), so that the merge key keeps tracking the transport
/// when one of the known registry defects is repaired.
#[derive(Clone, Copy, PartialEq, Eq, Hash, Debug, Default)]
pub struct Flavor {
    /// clear_listeners() also forgets MID registrations
    pub clear_mid: bool,
    /// the provisional fallback is skipped when some receiver lists the payload type
    pub prov_unlisted: bool,
    /// payload-type routes of closed receivers are ignored
    pub pt_skips_closed: bool,
    /// an SSRC is never bound to a closed receiver and a foreign SSRC entry survives its removal
    pub no_closed_bind: bool,
}

static FLAVOR: OnceLock<Flavor> = OnceLock::new();

pub fn flavor() -> Flavor {
    *FLAVOR.get().unwrap_or(&Flavor { clear_mid: false, prov_unlisted: false, pt_skips_closed: false, no_closed_bind: false })
}

/// Probe the real transport once. Each probe is a two- or three-operation configuration plus one
/// packet whose observable outcome differs between the two behaviours.
pub fn calibrate() -> Flavor {
    let conn = mk_conn();
    let op = |l: u8, k: Kind| Op { l, k };
    let plain = Pkt { s: 0, p: 0, mid: 0, rid: 0 };
    let mut f = Flavor::default();
    {
        let cfg = Cfg { ops: vec![op(0, Kind::Mid(0)), op(0, Kind::Clear)], special: None, mid_on: true, rid_on: true, layout: 0 };
        let mut w = World::build(&cfg, &conn);
        f.clear_mid = w.feed(Pkt { mid: 1, ..plain }).delivered == 0;
    }
    {
        let cfg = Cfg { ops: vec![op(0, Kind::PtList(1)), op(1, Kind::PtList(1)), op(2, Kind::Prov)], special: None, mid_on: true, rid_on: true, layout: 0 };
        let mut w = World::build(&cfg, &conn);
        f.prov_unlisted = w.feed(plain).delivered == 0;
    }
    {
        let cfg = Cfg { ops: vec![op(0, Kind::PtList(1)), op(1, Kind::PtList(1))], special: Some((0, Stat::ClosedAfter)), mid_on: true, rid_on: true, layout: 0 };
        let mut w = World::build(&cfg, &conn);
        f.pt_skips_closed = w.feed(plain).delivered == 0b010;
    }
    {
        let cfg = Cfg { ops: vec![op(0, Kind::Ssrc(0)), op(1, Kind::Rid(0))], special: Some((1, Stat::ClosedAfter)), mid_on: true, rid_on: true, layout: 0 };
        let mut w = World::build(&cfg, &conn);
        f.no_closed_bind = w.feed(Pkt { rid: 1, ..plain }).bound & 1 != 0;
    }
    let _ = FLAVOR.set(f);
    f
}

#[derive(Clone, PartialEq, Eq, Hash, Debug)]
pub struct Lazy {
    by_ssrc: [Option<u8>; 3],
    by_rid: [Option<u8>; 2],
    by_mid: [Option<u8>; 2],
    /// per listener: Some((pt mask, provisional)) when a route exists
    routes: [Option<(u8, bool)>; NL],
    closed: [bool; NL],
    full: [bool; NL],
    mid_on: bool,
    rid_on: bool,
    fl: Flavor,
}

impl Lazy {
    fn new(cfg: &Cfg) -> Lazy {
        let mut z = Lazy { by_ssrc: [None; 3], by_rid: [None; 2], by_mid: [None; 2], routes: [None; NL], closed: [false; NL], full: [false; NL], mid_on: cfg.mid_on, rid_on: cfg.rid_on, fl: flavor() };
        match cfg.special {
            Some((l, Stat::ClosedBefore)) => z.closed[l as usize] = true,
            Some((l, Stat::Full)) => z.full[l as usize] = true,
            _ => {}
        }
        for o in &cfg.ops {
            let l = o.l;
            match o.k {
                Kind::Ssrc(i) => z.bind(i, l),
                Kind::Rid(i) => {
                    z.prune(|z| &mut z.by_rid[..]);
                    z.by_rid[i as usize] = Some(l);
                }
                Kind::Mid(i) => {
                    z.by_mid[i as usize] = Some(l);
                    z.route(l);
                }
                Kind::PtList(m) => z.route(l).0 = m,
                Kind::Pt(i) => z.route(l).0 |= 1 << i,
                Kind::Prov => z.route(l).1 = true,
                Kind::Clear => {
                    z.by_ssrc = [None; 3];
                    z.by_rid = [None; 2];
                    z.routes = [None; NL];
                    if z.fl.clear_mid {
                        z.by_mid = [None; 2];
                    }
                }
            }
        }
        if let Some((l, Stat::ClosedAfter)) = cfg.special {
            z.closed[l as usize] = true;
        }
        z
    }
    fn prune(&mut self, f: impl Fn(&mut Lazy) -> &mut [Option<u8>]) {
        let closed = self.closed;
        for e in f(self).iter_mut() {
            if let Some(l) = *e {
                if closed[l as usize] {
                    *e = None;
                }
            }
        }
    }
    fn bind(&mut self, s: u8, l: u8) {
        self.prune(|z| &mut z.by_ssrc[..]);
        self.by_ssrc[s as usize] = Some(l);
    }
    fn route(&mut self, l: u8) -> &mut (u8, bool) {
        if self.routes[l as usize].is_none() {
            for x in 0..NL {
                if self.closed[x] {
                    self.routes[x] = None;
                }
            }
            self.routes[l as usize] = Some((0, false));
        }
        self.routes[l as usize].as_mut().unwrap()
    }
    /// predicted receiving listener (None = nothing is queued anywhere)
    fn receive(&mut self, p: Pkt) -> Option<u8> {
        self.receive_via(p).0
    }
    /// predicted receiving listener and the route the transport took to select it
    fn receive_via(&mut self, p: Pkt) -> (Option<u8>, Via) {
        let mut via = Via::Nobody;
        let r = self.receive_inner(p, &mut via);
        (r, via)
    }
    fn receive_inner(&mut self, p: Pkt, via: &mut Via) -> Option<u8> {
        let mut sel = None;
        let mut bind = false;
        if self.rid_on && (1..=2).contains(&p.rid) {
            sel = self.by_rid[(p.rid - 1) as usize];
            bind = sel.is_some();
            if bind {
                *via = Via::Rid;
            }
        }
        if sel.is_none() && self.mid_on && (1..=2).contains(&p.mid) {
            sel = self.by_mid[(p.mid - 1) as usize];
            bind = sel.is_some();
            if bind {
                *via = Via::Mid;
            }
        }
        if sel.is_none() {
            sel = self.by_ssrc[p.s as usize];
            bind = false;
            if sel.is_some() {
                *via = Via::Ssrc;
            }
        }
        let mut listing = 0u8;
        let mut provs = 0u8;
        for l in 0..NL {
            if let Some(r) = self.routes[l] {
                if r.0 & (1 << p.p) != 0 && !(self.fl.pt_skips_closed && self.closed[l]) {
                    listing |= 1 << l;
                }
                if r.1 {
                    provs |= 1 << l;
                }
            }
        }
        if sel.is_none() && listing.count_ones() == 1 {
            sel = Some(listing.trailing_zeros() as u8);
            bind = true;
            *via = Via::Pt;
        }
        if sel.is_none() {
            if provs.count_ones() == 1 && !(self.fl.prov_unlisted && listing != 0) {
                sel = Some(provs.trailing_zeros() as u8);
                *via = Via::Prov;
            }
            bind = false;
        }
        let l = sel?;
        if bind && !(self.fl.no_closed_bind && self.closed[l as usize]) {
            self.bind(p.s, l);
        }
        if self.closed[l as usize] {
            if !self.fl.no_closed_bind {
                self.by_ssrc[p.s as usize] = None;
            }
            for m in [&mut self.by_ssrc[..], &mut self.by_rid[..], &mut self.by_mid[..]] {
                for e in m.iter_mut() {
                    if *e == Some(l) {
                        *e = None;
                    }
                }
            }
            self.routes[l as usize] = None;
            return None;
        }
        if self.full[l as usize] {
            return None;
        }
        Some(l)
    }
}

#[derive(Clone, PartialEq, Eq, Hash, Debug)]
pub struct Canon {
    /// packed: reference SSRC bindings (void reading, keep reading), has_listener bits,
    /// bookkeeping model (by_ssrc, by_rid, by_mid, routes, closed mask)
    pub key: [u8; 18],
    /// a history on which the transport deviated from the reference (a violation was reported)
    /// or from the bookkeeping model is never merged with another one
    deviant: Option<Vec<Pkt>>,
}
impl Canon {
    pub fn is_deviant(&self) -> bool {
        self.deviant.is_some()
    }
    fn pack(poss: &[u8; 3], bound: u8, z: &Lazy) -> [u8; 18] {
        let o = |x: Option<u8>| x.unwrap_or(0xFF);
        let mut k = [0u8; 18];
        for i in 0..3 {
            k[i] = poss[i];
            k[7 + i] = o(z.by_ssrc[i]);
            k[14 + i] = match z.routes[i] {
                None => 0xFF,
                Some((m, pr)) => m | (pr as u8) << 3,
            };
        }
        k[6] = bound;
        k[10] = o(z.by_rid[0]);
        k[11] = o(z.by_rid[1]);
        k[12] = o(z.by_mid[0]);
        k[13] = o(z.by_mid[1]);
        k[17] = (z.closed[0] as u8) | (z.closed[1] as u8) << 1 | (z.closed[2] as u8) << 2;
        k
    }
}

pub const MAXH: usize = 8;

pub struct Run {
    /// steps at which the bookkeeping model mispredicted the observed delivery
    pub off_model: u32,
    pub n: usize,
    pub obs: [Obs; MAXH],
    pub dec: [Decision; MAXH],
    pub viols: Vec<Viol>,
    pub canon: Canon,
}

fn lname(l: u8) -> String {
    format!("L{l}")
}

/// Replay `hist` on a fresh transport and judge every step.
pub fn run(cfg: &Cfg, hist: &[Pkt], conn: &Arc<IceConn>) -> Run {
    assert!(hist.len() <= MAXH, "C19-HARNESS: history too long");
    let mut w = World::build(cfg, conn);
    let mut spec = Spec::new(cfg);
    let mut lz = Lazy::new(cfg);
    let has_clear = cfg.ops.iter().any(|o| o.k == Kind::Clear);
    let mut out = Run { off_model: 0, n: hist.len(), obs: [Obs::default(); MAXH], dec: [Decision::default(); MAXH], viols: vec![], canon: Canon { key: [0; 18], deviant: None } };
    let mut bound = 0u8;
    // an earlier packet of this history reached the provisional receiver although some receiver
    // lists its payload type (the known ambiguous-PT fallback): later deviations are its echo
    let mut ambiguous_fallback_seen = false;
    let status = match cfg.special {
        None => "open",
        Some((_, Stat::Full)) => "full",
        Some(_) => "closed",
    };
    for (i, p) in hist.iter().enumerate() {
        let o = w.feed(*p);
        bound = o.bound;
        let (predicted, lazy_via) = lz.receive_via(*p);
        let earlier_fallback = ambiguous_fallback_seen;
        let lazy_bound = (0..3).fold(0u8, |m, i| m | ((lz.by_ssrc[i].is_some() as u8) << i));
        if predicted.map(|l| 1u8 << l).unwrap_or(0) != o.delivered || lazy_bound != o.bound {
            out.off_model += 1;
        }
        if o.foreign {
            out.viols.push(Viol { sig: "demux;foreign-item".into(), detail: format!("step {i}: a listener queue held an item that is not the packet just fed ({})", p.short()), step: i });
        }
        let multi = o.items as u32 != o.delivered.count_ones() || o.delivered.count_ones() > 1;
        let delivered = if o.delivered != 0 && !multi { Some(o.delivered.trailing_zeros() as u8) } else { None };
        let before = if delivered.is_some() { Some(spec.clone()) } else { None };
        let d = spec.step(*p, delivered);
        if multi {
            out.viols.push(Viol {
                sig: format!("demux;multi-delivery;receivers={status}"),
                detail: format!("step {i}: packet {} appeared {} time(s) on listeners mask {:03b}", p.short(), o.items, o.delivered),
                step: i,
            });
        } else if let (Some(x), false) = (delivered, d.ok) {
            let got = before.as_ref().unwrap().matching_keys(x, *p);
            let wants = Via::names(d.vias);
            let cmask = match cfg.special {
                Some((l, Stat::ClosedBefore | Stat::ClosedAfter)) => 1u8 << l,
                _ => 0,
            };
            let want_class = if d.allowed == 0 {
                "nobody"
            } else if d.allowed & !cmask == 0 {
                "closed-receiver"
            } else {
                "other-receiver"
            };
            let who: Vec<String> = (0..NL as u8).filter(|l| d.allowed & (1 << l) != 0).map(lname).collect();
            out.viols.push(Viol {
                sig: format!("demux;misdelivery;got={got};want={want_class};receivers={status}{}{}", if has_clear { ";after-clear" } else { "" }, if earlier_fallback { ";after-ambiguous-pt-fallback" } else { "" }),
                detail: format!(
                    "step {i}: packet {} was delivered to {} (its registered keys matching the packet: {got}); the statement identifies {} (by {wants}){}",
                    p.short(),
                    lname(x),
                    if who.is_empty() { "nobody".to_string() } else { who.join(" or ") },
                    if status == "closed" { " under every admissible treatment of the closed receiver's registrations" } else { "" }
                ),
                step: i,
            });
        }
        if delivered.is_some() && predicted == delivered && lazy_via == Via::Prov && spec.lists_pt(*p) {
            ambiguous_fallback_seen = true;
        }
        out.obs[i] = o;
        out.dec[i] = d;
    }
    if hist.is_empty() {
        for (i, s) in SSRC.iter().enumerate() {
            if w.t.has_listener(*s) {
                bound |= 1 << i;
            }
        }
    }
    let deviant = if out.viols.is_empty() && out.off_model == 0 { None } else { Some(hist.to_vec()) };
    out.canon = Canon { key: Canon::pack(&spec.poss, bound, &lz), deviant };
    out
}

// ───────────────────────────── enumeration of configurations ─────────────────────────────

pub fn kinds(thorough: bool) -> Vec<Kind> {
    let mut v = vec![
        Kind::Ssrc(0),
        Kind::Ssrc(1),
        Kind::Rid(0),
        Kind::Mid(0),
        Kind::Mid(1),
        Kind::PtList(0b001),
        Kind::PtList(0b011),
        Kind::Pt(1),
        Kind::Prov,
    ];
    if thorough {
        v.extend([Kind::Rid(1), Kind::PtList(0b110), Kind::Pt(0)]);
    }
    v
}

fn conflicts(ops: &[Op]) -> bool {
    for (i, a) in ops.iter().enumerate() {
        for b in &ops[i + 1..] {
            let c = match (a.k, b.k) {
                (Kind::Ssrc(x), Kind::Ssrc(y)) | (Kind::Rid(x), Kind::Rid(y)) | (Kind::Mid(x), Kind::Mid(y)) => x == y && a.l != b.l,
                (Kind::PtList(_), Kind::PtList(_)) | (Kind::PtList(_), Kind::Pt(_)) | (Kind::Pt(_), Kind::PtList(_)) => a.l == b.l,
                _ => false,
            };
            if c {
                return true;
            }
        }
    }
    false
}

const PERMS: [[u8; 3]; 6] = [[0, 1, 2], [0, 2, 1], [1, 0, 2], [1, 2, 0], [2, 0, 1], [2, 1, 0]];

/// All registration sets (combinations of distinct operations) of size <= `max_ops`, one
/// representative per orbit of the listener-renaming group (listeners are interchangeable:
/// the transport tells them apart only by channel identity).
pub fn reg_sets(kinds: &[Kind], max_ops: usize) -> Vec<Vec<Op>> {
    let nk = kinds.len();
    let n = nk * NL;
    let op_of = |i: usize| Op { l: (i / nk) as u8, k: kinds[i % nk] };
    let mut out = vec![];
    let mut cur: Vec<usize> = vec![];
    fn rec(start: usize, n: usize, max: usize, cur: &mut Vec<usize>, f: &mut dyn FnMut(&[usize])) {
        f(cur);
        if cur.len() == max {
            return;
        }
        for i in start..n {
            cur.push(i);
            rec(i + 1, n, max, cur, f);
            cur.pop();
        }
    }
    rec(0, n, max_ops, &mut cur, &mut |c: &[usize]| {
        // canonical iff no listener permutation gives a lexicographically smaller sorted index list
        let canonical = PERMS.iter().all(|pm| {
            let mut img: Vec<usize> = c.iter().map(|i| pm[i / nk] as usize * nk + i % nk).collect();
            img.sort_unstable();
            img.as_slice() >= c
        });
        if canonical {
            out.push(c.iter().map(|i| op_of(*i)).collect::<Vec<Op>>());
        }
    });
    out.sort_by_key(|s| s.len());
    out
}

/// Configurations derived from one registration set: application order (ascending, plus
/// descending when two operations conflict on a key), special receiver status, extension ids.
pub fn cfgs_for(set: &[Op], with_full: bool) -> Vec<Cfg> {
    let mut orders = vec![set.to_vec()];
    if conflicts(set) {
        let mut r = set.to_vec();
        r.reverse();
        orders.push(r);
    }
    let has_mid = set.iter().any(|o| matches!(o.k, Kind::Mid(_)));
    let has_rid = set.iter().any(|o| matches!(o.k, Kind::Rid(_)));
    let mut exts = vec![(true, true)];
    if has_mid {
        exts.push((false, true));
    }
    if has_rid {
        exts.push((true, false));
    }
    if has_mid && has_rid {
        exts.push((false, false));
    }
    let mut out = vec![];
    for ops in &orders {
        let base = Cfg { ops: ops.clone(), special: None, mid_on: true, rid_on: true, layout: 0 };
        let used = base.used();
        let mut specials = vec![None];
        for l in 0..NL as u8 {
            if used[l as usize] {
                specials.push(Some((l, Stat::ClosedAfter)));
                specials.push(Some((l, Stat::ClosedBefore)));
                if with_full {
                    specials.push(Some((l, Stat::Full)));
                }
            }
        }
        for sp in &specials {
            for (m, r) in &exts {
                // extension-id variants only on the plain receiver status (they multiply otherwise)
                if (!*m || !*r) && sp.is_some() {
                    continue;
                }
                out.push(Cfg { ops: ops.clone(), special: *sp, mid_on: *m, rid_on: *r, layout: 0 });
                // wire-layout variants on the plain receiver status with both extension ids known
                if sp.is_none() && *m && *r {
                    for layout in 1..=3u8 {
                        out.push(Cfg { ops: ops.clone(), special: None, mid_on: true, rid_on: true, layout });
                    }
                }
            }
        }
    }
    out
}

// ───────────────────────────── exploration of one configuration ─────────────────────────────

#[derive(Default, Clone)]
pub struct Stats {
    pub cfgs: u64,
    pub histories_nodedup: u64,
    pub histories_dedup: u64,
    pub canon_states: u64,
    pub transitions: u64,
    pub reg_ops: u64,
    pub merged_pairs_checked: u64,
    pub deviant_not_expanded: u64,
    pub off_model_histories: u64,
    pub delivered_via: [u64; 6], // rid, mid, ssrc, pt, prov, unidentified (= violations)
    pub dropped_identified: u64,
    pub dropped_nobody: u64,
    pub to_closed: u64,
    pub max_alphabet: u64,
    pub machinery: Vec<String>,
    pub abstraction_mismatch_cfgs: u64,
    pub viols: Vec<(Viol, Cfg, Vec<Pkt>)>,
}

impl Stats {
    pub fn merge(mut self, o: Stats) -> Stats {
        self.cfgs += o.cfgs;
        self.histories_nodedup += o.histories_nodedup;
        self.histories_dedup += o.histories_dedup;
        self.canon_states += o.canon_states;
        self.transitions += o.transitions;
        self.reg_ops += o.reg_ops;
        self.merged_pairs_checked += o.merged_pairs_checked;
        self.deviant_not_expanded += o.deviant_not_expanded;
        self.off_model_histories += o.off_model_histories;
        for i in 0..6 {
            self.delivered_via[i] += o.delivered_via[i];
        }
        self.dropped_identified += o.dropped_identified;
        self.dropped_nobody += o.dropped_nobody;
        self.to_closed += o.to_closed;
        self.max_alphabet = self.max_alphabet.max(o.max_alphabet);
        self.abstraction_mismatch_cfgs += o.abstraction_mismatch_cfgs;
        for m in o.machinery {
            if self.machinery.len() < 20 {
                self.machinery.push(m);
            }
        }
        for v in o.viols {
            self.add_viol(v);
        }
        self
    }
    fn cost(c: &Cfg, h: &[Pkt]) -> (usize, usize, usize) {
        (c.ops.len() + h.len(), c.special.is_some() as usize + (!c.mid_on) as usize + (!c.rid_on) as usize, c.ops.len())
    }
    /// keep the smallest counterexample per signature
    pub fn add_viol(&mut self, v: (Viol, Cfg, Vec<Pkt>)) {
        if let Some(e) = self.viols.iter_mut().find(|e| e.0.sig == v.0.sig) {
            if Self::cost(&v.1, &v.2) < Self::cost(&e.1, &e.2) {
                *e = v;
            }
        } else if self.viols.len() < 500 {
            self.viols.push(v);
        }
    }
}

fn tally(st: &mut Stats, _cfg: &Cfg, r: &Run) {
    // classify the last step only (each history's last step is a distinct event)
    let i = r.n - 1;
    let o = r.obs[i];
    let d = r.dec[i];
    if o.delivered != 0 {
        let k = [Via::Rid, Via::Mid, Via::Ssrc, Via::Pt, Via::Prov].iter().position(|v| d.via_taken == v.bit()).unwrap_or(5);
        st.delivered_via[k] += 1;
    } else if d.allowed != 0 {
        st.dropped_identified += 1;
        if d.names_closed {
            st.to_closed += 1;
        }
    } else {
        st.dropped_nobody += 1;
    }
}

/// Pass A: every packet sequence of length <= d1 over the configuration's alphabet (no
/// abstraction).  Pass B: breadth-first search to depth d2 expanding a history only when the
/// canonical state it reaches is new.  Cross-check of the abstraction: histories of length < d1
/// that pass B would merge must have identical successor observations for every next packet.
pub fn explore(cfg: &Cfg, d1: usize, d2: usize, conn: &Arc<IceConn>) -> Stats {
    let mut st = Stats::default();
    st.cfgs = 1;
    let alpha = alphabet(cfg);
    let k = alpha.len();
    st.max_alphabet = k as u64;
    // ---- pass A ----
    // successor digest per history of length < d1, keyed by canon
    let mut by_canon: HashMap<Canon, (u64, Vec<Pkt>)> = HashMap::new();
    let mut mismatch = false;
    let mut stack: Vec<Vec<Pkt>> = vec![vec![]];
    let r0 = run(cfg, &[], conn);
    st.reg_ops += cfg.ops.len() as u64;
    st.histories_nodedup += 1;
    let mut canon_of: HashMap<Vec<Pkt>, Canon> = HashMap::new();
    canon_of.insert(vec![], r0.canon.clone());
    while let Some(h) = stack.pop() {
        if h.len() >= d1 {
            continue;
        }
        let mut digest: u64 = 0xcbf29ce484222325;
        let mut mix = |x: u64| {
            digest ^= x;
            digest = digest.wrapping_mul(0x100000001b3);
        };
        for a in &alpha {
            let mut h2 = h.clone();
            h2.push(*a);
            let r = run(cfg, &h2, conn);
            st.histories_nodedup += 1;
            st.transitions += h2.len() as u64;
            st.reg_ops += cfg.ops.len() as u64;
            tally(&mut st, cfg, &r);
            if r.off_model > 0 {
                st.off_model_histories += 1;
            }
            for v in r.viols.iter().filter(|v| v.step == h2.len() - 1) {
                st.add_viol((v.clone(), cfg.clone(), h2.clone()));
            }
            let o = r.obs[h2.len() - 1];
            mix(o.delivered as u64 | (o.bound as u64) << 8 | (r.viols.iter().any(|v| v.step == h2.len() - 1) as u64) << 16);
            if r.canon.is_deviant() {
                mix(0xdead);
            } else {
                for b in r.canon.key {
                    mix(b as u64);
                }
            }
            if h2.len() < d1 {
                canon_of.insert(h2.clone(), r.canon.clone());
                stack.push(h2);
            }
        }
        let c = canon_of.get(&h).cloned().unwrap();
        match by_canon.get(&c) {
            None => {
                by_canon.insert(c, (digest, h.clone()));
            }
            Some((d, other)) => {
                st.merged_pairs_checked += 1;
                if *d != digest {
                    mismatch = true;
                    st.machinery.push(format!(
                        "abstraction unsound: histories {:?} and {:?} reach the same canonical state but differ in a successor observation (cfg {})",
                        other.iter().map(|p| p.short()).collect::<Vec<_>>(),
                        h.iter().map(|p| p.short()).collect::<Vec<_>>(),
                        cfg.json()
                    ));
                }
            }
        }
    }
    if mismatch {
        st.abstraction_mismatch_cfgs += 1;
    }
    // ---- pass B ----
    if d2 > d1 {
        let mut seen: HashSet<Canon> = HashSet::new();
        seen.insert(r0.canon.clone());
        let mut frontier: Vec<Vec<Pkt>> = vec![vec![]];
        for _depth in 1..=d2 {
            let mut next = vec![];
            for h in &frontier {
                for a in &alpha {
                    let mut h2 = h.clone();
                    h2.push(*a);
                    let r = run(cfg, &h2, conn);
                    st.histories_dedup += 1;
                    st.transitions += h2.len() as u64;
                    st.reg_ops += cfg.ops.len() as u64;
                    if h2.len() > d1 {
                        tally(&mut st, cfg, &r);
                    }
                    for v in r.viols.iter().filter(|v| v.step == h2.len() - 1) {
                        st.add_viol((v.clone(), cfg.clone(), h2.clone()));
                    }
                    if r.canon.is_deviant() {
                        // already reported; the reference no longer tracks the transport
                        st.deviant_not_expanded += 1;
                    } else if seen.insert(r.canon.clone()) {
                        next.push(h2);
                    }
                }
            }
            if next.is_empty() {
                break;
            }
            frontier = next;
        }
        st.canon_states += seen.len() as u64;
    }
    st
}
