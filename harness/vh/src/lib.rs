//! Harness library: shared machinery for the checks that link the real rustrtc crate.
pub use vcore::*;
