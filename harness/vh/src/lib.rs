//! Harness library: shared machinery for the checks that link the real rustrtc crate.
pub use vcore::*;
pub mod sctp_sim;
pub mod sim;
pub mod wire;
pub mod srtp_common;
pub mod c15;
pub mod sctp_props;
pub mod dtls_sim;
pub mod explorer;
pub mod c07;
pub mod c07live;
pub mod c17sctp;
pub mod c19;
pub mod dtls_attacker;
pub mod c14pc;
pub mod dtls_ref;
pub mod csched;
