//! C17, transport-level part (engine E2): the peer ends the SCTP association (ABORT, SHUTDOWN,
//! SHUTDOWN-ACK) at EVERY datagram boundary of the association's life, on the deterministic
//! simulator; the terminating chunk is sealed under the genuine peer's DTLS keys, i.e. it is what
//! a closing peer sends. Oracle: the transport reports a close reason, every channel that saw
//! Open sees Close exactly once and then end-of-stream, blocked and subsequent send_data calls
//! return, and the association's runner task ends.

use crate::sim::{self, Dgram, End, EndCfg, Side};
use crate::wire;
use rayon::prelude::*;
use rustrtc::transports::datachannel::{DataChannelConfig, DataChannelEvent};
use serde_json::json;
use std::time::Duration;

#[derive(Clone, Copy, Debug, PartialEq, Eq)]
pub enum PeerEnd {
    Abort,
    Shutdown,
    ShutdownAck,
    /// the peer (or the path to it) vanishes: nothing is delivered in either direction any more
    Silent,
}

/// The victim's application load: how many channels have a sender that keeps the window full, and
/// whether the peer's datagrams are withheld for 400 ms (virtual) before the terminating chunk so
/// that every sender is parked on flow control when the association ends.
#[derive(Clone, Copy, Debug, PartialEq, Eq)]
pub struct Load {
    pub small_window: bool,
    pub senders: usize,
    pub stall: bool,
}

#[derive(Clone, Debug, Default)]
pub struct Obs {
    pub k_total: usize,
    pub injected: bool,
    pub close_reason: Option<String>,
    pub opens: usize,
    pub closes: usize,
    pub ended: bool,
    pub send_after_returned: bool,
    pub send_after_ok: bool,
    pub blocked_sender_returned: bool,
    pub senders_parked_at_event: usize,
    pub senders_returned: usize,
    pub runner_finished: bool,
    pub panic: Option<String>,
}

fn seal(crypto: &rustrtc::transports::dtls::SessionCrypto, sender: Side, seq: u64, plaintext: &[u8]) -> Vec<u8> {
    use aes_gcm::aead::{Aead, Payload};
    let (cipher, iv) = match sender {
        Side::A => (&crypto.client_write_cipher, &crypto.keys.client_write_iv),
        Side::B => (&crypto.server_write_cipher, &crypto.keys.server_write_iv),
    };
    let full_seq = (1u64 << 48) | seq;
    let mut nonce = [0u8; 12];
    nonce[..4].copy_from_slice(iv);
    nonce[4..].copy_from_slice(&full_seq.to_be_bytes());
    let mut aad = [0u8; 13];
    aad[..8].copy_from_slice(&full_seq.to_be_bytes());
    aad[8] = 23;
    aad[9] = 0xfe;
    aad[10] = 0xfd;
    aad[11..13].copy_from_slice(&(plaintext.len() as u16).to_be_bytes());
    let ct = cipher.encrypt(aes_gcm::Nonce::from_slice(&nonce), Payload { msg: plaintext, aad: &aad }).expect("seal");
    let mut body = full_seq.to_be_bytes().to_vec();
    body.extend_from_slice(&ct);
    wire::encode_record(23, 1, seq, &body)
}

/// Run the association; after `k` post-handshake (application) datagrams have been delivered, the
/// peer of `victim` sends the terminating chunk. `k = usize::MAX` = fault-free (measures K).
pub fn run(ev: PeerEnd, victim: Side, k: usize, load: Load, seed: u64) -> Option<Obs> {
    let small_window = load.small_window;
    sim::run_with_watchdog(seed, Duration::from_secs(15), move || {
        Box::pin(async move {
            crate::LAST_PANIC_LOC.with(|l| l.borrow_mut().clear());
            let (net_tx, mut net_rx) = tokio::sync::mpsc::unbounded_channel();
            let certs = sim::certs();
            let mut rtc = sim::default_rtc();
            if small_window {
                rtc.sctp_receive_window = 4096;
                rtc.sctp_max_buffered_amount = 8192;
            }
            let chan: Vec<(u16, DataChannelConfig)> = (0..load.senders.max(1) as u16).map(|i| (i, DataChannelConfig { ordered: true, negotiated: Some(i), ..Default::default() })).collect();
            let cfg = EndCfg { with_sctp: true, channels: chan, expected_fingerprint: None, rtc };
            let mut a = sim::mk_end(Side::A, certs.a.clone(), net_tx.clone(), &cfg).await;
            let mut b = sim::mk_end(Side::B, certs.b.clone(), net_tx.clone(), &cfg).await;
            drop(net_tx);
            let mut obs = Obs::default();
            let mut buf = Vec::new();
            let v: &End = if victim == Side::A { &a } else { &b };
            let p: &End = if victim == Side::A { &b } else { &a };
            // the victim's application: a sender that keeps the window full (blocks in send_data when
            // small_window) and the event collector
            let n_msgs = if small_window { 40 } else { 3 };
            let in_call = std::sync::Arc::new(std::sync::atomic::AtomicUsize::new(0));
            let mut senders = vec![];
            for ch in 0..load.senders.max(1) as u16 {
                let vsctp = v.sctp.clone().unwrap();
                let in_call = in_call.clone();
                senders.push(tokio::spawn(async move {
                    for i in 0..n_msgs {
                        let payload = vec![i as u8; if small_window { 1100 } else { 20 }];
                        in_call.fetch_add(1, std::sync::atomic::Ordering::SeqCst);
                        let r = vsctp.send_data(ch, &payload).await;
                        in_call.fetch_sub(1, std::sync::atomic::Ordering::SeqCst);
                        if r.is_err() {
                            break;
                        }
                        tokio::time::sleep(Duration::from_millis(5)).await;
                    }
                }));
            }
            let psctp = p.sctp.clone().unwrap();
            let peer_sender = tokio::spawn(async move {
                for i in 0..3u8 {
                    let _ = psctp.send_data(0, &[i; 30]).await;
                    tokio::time::sleep(Duration::from_millis(7)).await;
                }
            });
            let events = std::sync::Arc::new(parking_lot::Mutex::new((0usize, 0usize, false)));
            let ev2 = events.clone();
            let vdc = v.dcs[0].clone();
            let collector = tokio::spawn(async move {
                loop {
                    match vdc.recv().await {
                        Some(DataChannelEvent::Open) => ev2.lock().0 += 1,
                        Some(DataChannelEvent::Close) => ev2.lock().1 += 1,
                        Some(_) => {}
                        None => {
                            ev2.lock().2 = true;
                            break;
                        }
                    }
                }
            });
            let vaddr = v.local;
            let paddr = p.local;
            let mut delivered_app = 0usize;
            let mut injected = false;
            // A peer that sent SHUTDOWN completes the shutdown handshake (SHUTDOWN-COMPLETE after our
            // SHUTDOWN-ACK) and is gone afterwards: nothing more is exchanged. The victim then has
            // its heartbeat/retransmission limits (5 minutes by default: 20 missed heartbeats) to notice.
            let mut peer_gone = false;
            let mut complete_sent = false;
            let start = tokio::time::Instant::now();
            let horizon = if matches!(ev, PeerEnd::Shutdown | PeerEnd::Silent) { Duration::from_secs(420) } else { Duration::from_secs(8) };
            let mut injected_at = None;
            let mut stall_until: Option<tokio::time::Instant> = None;
            loop {
                if (tokio::time::Instant::now() - start) > horizon {
                    break;
                }
                let both = sim::crypto_of(&a).is_some() && sim::crypto_of(&b).is_some();
                // the peer can only end an association that exists: wait for the victim's Open
                let open = events.lock().0 > 0;
                if both && open && !injected && delivered_app >= k && load.stall && stall_until.is_none() {
                    stall_until = Some(tokio::time::Instant::now() + Duration::from_millis(400));
                }
                let stall_over = !load.stall || stall_until.map_or(false, |t| tokio::time::Instant::now() >= t);
                if both && open && !injected && delivered_app >= k && stall_over {
                    injected = true;
                    obs.senders_parked_at_event = in_call.load(std::sync::atomic::Ordering::SeqCst);
                    obs.injected = true;
                    let c = sim::crypto_of(&a).unwrap();
                    let chunk = match ev {
                        PeerEnd::Abort => wire::raw_chunk(6, 0, &[]),
                        PeerEnd::Shutdown => wire::raw_chunk(7, 0, &0u32.to_be_bytes()),
                        PeerEnd::ShutdownAck => wire::raw_chunk(8, 0, &[]),
                        PeerEnd::Silent => vec![],
                    };
                    if ev != PeerEnd::Silent {
                        let pkt = wire::build_sctp(5000, 5000, 0, &[chunk]);
                        let data = seal(&c, victim.other(), 0x9000, &pkt);
                        sim::deliver(&a, &b, &Dgram { data, from: paddr, to: vaddr }, &mut buf).await;
                    }
                    injected_at = Some(tokio::time::Instant::now());
                    if matches!(ev, PeerEnd::Shutdown | PeerEnd::Silent) {
                        peer_gone = true;
                    }
                }
                match sim::next_dgram(&mut net_rx, Duration::from_millis(200)).await {
                    Some(d) => {
                        let is_app = both && wire::dtls_records(&d.data).iter().all(|r| r.ctype == 23);
                        if peer_gone {
                            // the first thing the victim sends after SHUTDOWN is its SHUTDOWN-ACK:
                            // the departing peer answers SHUTDOWN-COMPLETE, then silence both ways
                            if ev == PeerEnd::Shutdown && d.from == vaddr && !complete_sent {
                                complete_sent = true;
                                let c = sim::crypto_of(&a).unwrap();
                                let pkt = wire::build_sctp(5000, 5000, 0, &[wire::raw_chunk(14, 0, &[])]);
                                let data = seal(&c, victim.other(), 0x9001, &pkt);
                                sim::deliver(&a, &b, &Dgram { data, from: paddr, to: vaddr }, &mut buf).await;
                            }
                            continue;
                        }
                        if stall_until.is_some() && !injected && d.from == paddr {
                            continue; // the peer's acknowledgements are withheld: the victim's senders park
                        }
                        sim::deliver(&a, &b, &d, &mut buf).await;
                        if is_app {
                            delivered_app += 1;
                        }
                    }
                    None => {
                        if k == usize::MAX && (tokio::time::Instant::now() - start) > Duration::from_millis(2500) {
                            break; // fault-free run complete
                        }
                        if let Some(t0) = injected_at {
                            // stop once the victim reports the close, or (non-SHUTDOWN events) after 2.5 s
                            let closed = v.sctp.as_ref().map_or(false, |s| s.close_reason().is_some());
                            if closed && (tokio::time::Instant::now() - t0) > Duration::from_millis(500) {
                                break;
                            }
                            if !matches!(ev, PeerEnd::Shutdown | PeerEnd::Silent) && (tokio::time::Instant::now() - t0) > Duration::from_millis(2500) {
                                break;
                            }
                        }
                    }
                }
            }
            obs.k_total = delivered_app;
            // grace period for the victim to settle
            tokio::time::sleep(Duration::from_millis(1000)).await;
            let vs = v.sctp.clone().unwrap();
            obs.close_reason = vs.close_reason();
            // a subsequent send must return promptly
            match tokio::time::timeout(Duration::from_millis(2000), vs.send_data(0, b"after")).await {
                Ok(r) => {
                    obs.send_after_returned = true;
                    obs.send_after_ok = r.is_ok();
                }
                Err(_) => obs.send_after_returned = false,
            }
            tokio::time::sleep(Duration::from_millis(500)).await;
            obs.senders_returned = senders.iter().filter(|h| h.is_finished()).count();
            obs.blocked_sender_returned = obs.senders_returned == senders.len();
            let e = events.lock().clone();
            obs.opens = e.0;
            obs.closes = e.1;
            obs.ended = e.2;
            // tasks[1] is the SCTP runner
            obs.runner_finished = v.tasks.get(1).map(|h| h.is_finished()).unwrap_or(false);
            for h in &senders {
                h.abort();
            }
            peer_sender.abort();
            collector.abort();
            let loc = crate::LAST_PANIC_LOC.with(|l| l.borrow().clone());
            if !loc.is_empty() {
                obs.panic = Some(loc);
            }
            for h in a.tasks.drain(..).chain(b.tasks.drain(..)) {
                h.abort();
            }
            obs
        })
    })
}

fn judge(ev: PeerEnd, o: &Obs) -> Vec<(String, String)> {
    let mut out = vec![];
    if let Some(p) = &o.panic {
        out.push((format!("panic[{}]", crate::panic_class(p)), p.clone()));
    }
    if o.close_reason.is_none() {
        out.push(("no_close_reason".into(), format!("close_reason() is None after the peer's {ev:?}")));
    }
    if o.opens > 0 && o.closes != 1 {
        out.push((format!("close_event_count={}", o.closes.min(2)), format!("channel saw Open {} time(s) and Close {} time(s)", o.opens, o.closes)));
    }
    if o.opens > 0 && !o.ended {
        out.push(("channel_stream_not_ended".into(), "DataChannel::recv() never returned None after the association ended".into()));
    }
    if !o.send_after_returned {
        out.push(("hang:send_data_after_close".into(), "send_data() did not return within 2 s (virtual)".into()));
    }
    if !o.blocked_sender_returned {
        out.push(("hang:blocked_sender".into(), format!("{} sender(s) were inside send_data() when the association ended; only {} sender task(s) ever returned", o.senders_parked_at_event, o.senders_returned)));
    }
    if !o.runner_finished {
        out.push(("runner_task_still_alive".into(), "the association's runner task did not end".into()));
    }
    out
}

impl Load {
    pub fn name(&self) -> String {
        let mut n = String::from(if self.small_window { "small" } else { "default" });
        if self.senders > 1 {
            n += &format!("+{}senders", self.senders);
        }
        if self.stall {
            n += "+stalled";
        }
        n
    }
    fn from_name(n: &str) -> Load {
        let senders = n.split('+').find_map(|p| p.strip_suffix("senders").and_then(|x| x.parse().ok())).unwrap_or(1);
        Load { small_window: n.starts_with("small"), senders, stall: n.contains("stalled") }
    }
}

pub fn sctp_part(rep: &mut crate::Report, thorough: bool, seed: u64) -> u64 {
    let mut n = 0u64;
    let mut loads = vec![
        Load { small_window: false, senders: 1, stall: false },
        Load { small_window: true, senders: 1, stall: false },
        Load { small_window: true, senders: 2, stall: true },
    ];
    if thorough {
        loads.push(Load { small_window: true, senders: 1, stall: true });
        loads.push(Load { small_window: true, senders: 2, stall: false });
        loads.push(Load { small_window: true, senders: 3, stall: true });
    }
    for load in loads {
        for victim in [Side::A, Side::B] {
            let base = run(PeerEnd::Abort, victim, usize::MAX, load, seed).unwrap_or_else(|| crate::machinery_failure("c17 sctp baseline hit the watchdog"));
            let kmax = base.k_total.min(if thorough { 400 } else { 60 });
            if kmax < 5 {
                crate::machinery_failure(&format!("c17 sctp: only {} datagram boundaries", base.k_total));
            }
            let mut cases = vec![];
            for ev in [PeerEnd::Abort, PeerEnd::Shutdown, PeerEnd::ShutdownAck, PeerEnd::Silent] {
                for k in 0..=kmax {
                    cases.push((ev, k));
                }
            }
            let results: Vec<((PeerEnd, usize), Option<Obs>)> = cases.par_iter().map(|c| (*c, run(c.0, victim, c.1, load, seed))).collect();
            let mut all_parked = 0u64;
            for ((ev, k), o) in results {
                n += 1;
                let replay = json!({"part": "sctp", "event": format!("{ev:?}"), "victim": victim.name(), "k": k, "load": load.name()});
                match o {
                    None => rep.violation(crate::Violation { signature: format!("sctp-level;hang:execution;event=peer-{ev:?};load={}", load.name()), detail: format!("watchdog at datagram boundary {k}"), replay }),
                    Some(o) => {
                        if !o.injected {
                            continue;
                        }
                        if o.senders_parked_at_event >= load.senders {
                            all_parked += 1;
                        }
                        for (kind, detail) in judge(ev, &o) {
                            rep.violation(crate::Violation {
                                signature: format!("sctp-level;{kind};event=peer-{ev:?};load={}", load.name()),
                                detail: format!("{detail} (victim {}, after {k} association datagrams)", victim.name()),
                                replay: replay.clone(),
                            });
                        }
                    }
                }
            }
            if load.stall && all_parked == 0 {
                crate::machinery_failure(&format!("c17 sctp: load {} never had every sender parked in send_data at the event", load.name()));
            }
            rep.add("sctp_level_datagram_boundaries", kmax as u64 + 1);
            rep.add("sctp_level_cases_with_every_sender_parked", all_parked);
        }
    }
    rep.set("sctp_level_executions", n);
    n
}

pub fn replay(r: &serde_json::Value, seed: u64) -> i32 {
    let ev = match r["event"].as_str().unwrap_or("") {
        "Abort" => PeerEnd::Abort,
        "Shutdown" => PeerEnd::Shutdown,
        "Silent" => PeerEnd::Silent,
        _ => PeerEnd::ShutdownAck,
    };
    let victim = if r["victim"] == "A" { Side::A } else { Side::B };
    let k = r["k"].as_u64().unwrap_or(0) as usize;
    let load = match r["load"].as_str() {
        Some(n) => Load::from_name(n),
        None => Load { small_window: r["small_window"].as_bool().unwrap_or(false), senders: 1, stall: false },
    };
    let mut bad = false;
    for round in 0..2 {
        let o = run(ev, victim, k, load, seed);
        let vs = o.as_ref().map(|o| judge(ev, o));
        println!("replay {round}: {o:?}\n  verdicts={vs:?}");
        bad |= vs.map_or(true, |v| !v.is_empty());
    }
    if bad { 1 } else { 0 }
}
