//! Generic deviation-bounded explorer (see vcore::explore for the chooser): runs level by level
//! (0, 1, 2, ... deviations), in parallel within a level, replays violating histories twice and a
//! prefix of the passing ones once, and insists on identical trace hashes.
use crate::explore::{Chooser, frontier_children};
use rayon::prelude::*;

pub struct Verdict {
    pub kind: String,
    pub detail: String,
}

#[derive(Default)]
pub struct Stats {
    pub histories: u64,
    pub choice_points_total: u64,
    pub distinct_traces: std::collections::BTreeSet<u64>,
    pub by_level: Vec<u64>,
    pub livelocks: u64,
    pub replays_checked: u64,
    pub baseline_points: usize,
    pub capped: bool,
}

pub trait Execution: Send {
    fn trace_hash(&self) -> u64;
}

pub fn explore<O: Execution>(
    name: &str,
    run: &(dyn Fn(Vec<(usize, usize)>) -> (Chooser, Option<O>) + Sync),
    bound: usize,
    max_histories: u64,
    double_run: u64,
    oracle: &(dyn Fn(&O) -> Vec<Verdict> + Sync),
    livelock_is_violation: bool,
    require_determinism: bool,
    mut on_violation: impl FnMut(&[(usize, usize)], &[(usize, String)], Option<&O>, &Verdict),
    mut on_history: impl FnMut(&[(usize, usize)], &[(usize, String)], &O, usize),
) -> Stats {
    let mut stats = Stats::default();
    let mut level: Vec<Vec<(usize, usize)>> = vec![vec![]];
    for depth in 0..=bound {
        if level.is_empty() {
            break;
        }
        if stats.histories + level.len() as u64 > max_histories {
            level.truncate(max_histories.saturating_sub(stats.histories) as usize);
            stats.capped = true;
        }
        let results: Vec<(Vec<(usize, usize)>, (Chooser, Option<O>))> = level.par_iter().map(|d| (d.clone(), run(d.clone()))).collect();
        stats.by_level.push(results.len() as u64);
        let mut next = vec![];
        for (i, (devs, (chooser, obs))) in results.iter().enumerate() {
            stats.histories += 1;
            if let Some(e) = &chooser.error {
                crate::machinery_failure(&format!("{name}: {e} (history {devs:?})"));
            }
            let Some(obs) = obs else {
                stats.livelocks += 1;
                if livelock_is_violation {
                    let v = Verdict { kind: "livelock".into(), detail: "real-time watchdog fired: the execution did not finish".into() };
                    on_violation(devs, &chooser.points, None, &v);
                } else {
                    crate::machinery_failure(&format!("{name}: watchdog fired on history {devs:?}"));
                }
                continue;
            };
            if depth == 0 {
                stats.baseline_points = chooser.points.len();
            }
            stats.choice_points_total += chooser.points.len() as u64;
            stats.distinct_traces.insert(obs.trace_hash());
            let verdicts = oracle(obs);
            let need = !verdicts.is_empty() || (i as u64) < double_run;
            if need {
                for _ in 0..if verdicts.is_empty() { 1 } else { 2 } {
                    let (_, again) = run(devs.clone());
                    stats.replays_checked += 1;
                    let h2 = again.as_ref().map(|o| o.trace_hash());
                    if h2 != Some(obs.trace_hash()) && require_determinism {
                        crate::machinery_failure(&format!("{name}: nondeterministic replay of history {devs:?}: {:x} then {h2:?}", obs.trace_hash()));
                    }
                }
            }
            for v in &verdicts {
                on_violation(devs, &chooser.points, Some(obs), v);
            }
            on_history(devs, &chooser.points, obs, verdicts.len());
            if depth < bound {
                next.extend(frontier_children(devs, &chooser.points));
            }
        }
        level = next;
    }
    stats
}
