//! Oracles, workloads and the shared main for the three properties decided on the E2
//! SCTP simulator: C01 (reliable ordered delivery), C12 (message boundaries / channel
//! identity / delivery mode / Open-Close), C13 (sender wire rules).
use crate::sctp_sim::*;
use crate::sim::{Fault, Side};
use crate::wire::{self, Chunk};
use serde_json::json;
use std::collections::{BTreeMap, BTreeSet};

pub fn std_faults() -> Vec<Fault> {
    vec![Fault::Drop, Fault::DropBurst(2), Fault::DropBurst(3), Fault::DupNow, Fault::DupLate(2), Fault::DupLate(6), Fault::Delay(1), Fault::Delay(3)]
}

pub fn wl(name: &str, chans: Vec<ChanSpec>, msgs: Vec<Msg>) -> Workload {
    Workload {
        name: name.into(),
        chans,
        msgs,
        forced: None,
        rwnd: None,
        max_burst: None,
        max_cwnd: None,
        horizon_ms: 60_000,
        linger_ms: 3_000,
        faults: std_faults(),
        record_wire: false,
        early_send: false,
        early_inband: false,
        closes: vec![],
        fault_ssn_window: None,
    }
}

pub fn m(side: Side, chan: u16, task: u8, at_ms: u64, len: usize) -> Msg {
    Msg { side, chan, task, at_ms, len }
}

fn chan(id: u16, ordered: bool, rexmit: Option<u16>, life: Option<u16>, negotiated: bool) -> ChanSpec {
    ChanSpec { id, ordered, max_retransmits: rexmit, max_packet_life_time: life, negotiated, label: format!("lbl-{id}"), protocol: if id % 2 == 0 { String::new() } else { "proto".into() } }
}

// ------------------------------------------------------------------ C01

pub fn c01_workloads(thorough: bool) -> Vec<(Workload, usize)> {
    use Side::*;
    let ro = || vec![ChanSpec::reliable_ordered(0)];
    let w1 = wl("W1-3x10B-A2B", ro(), vec![m(A, 0, 0, 0, 10), m(A, 0, 0, 300, 10), m(A, 0, 0, 600, 10)]);
    let w2 = wl("W2-3frag+1-A2B", ro(), vec![m(A, 0, 0, 0, 3000), m(A, 0, 0, 500, 16)]);
    let w3 = wl("W3-2+2-bidir", ro(), vec![m(A, 0, 0, 0, 12), m(B, 0, 0, 50, 12), m(A, 0, 0, 400, 12), m(B, 0, 0, 450, 12)]);
    let w4 = wl("W4-empty-1B-exactfit", ro(), vec![m(A, 0, 0, 0, 0), m(A, 0, 0, 100, 1), m(A, 0, 0, 200, 1172), m(A, 0, 0, 700, 9)]);
    let mut w6 = wl("W6-tsn-wrap", ro(), vec![m(A, 0, 0, 0, 10), m(A, 0, 0, 300, 10), m(A, 0, 0, 600, 10), m(B, 0, 0, 100, 10), m(B, 0, 0, 700, 10)]);
    w6.forced = Some([0x1111_1111, 0xFFFF_FFFE, 0x2222_2222, 0xFFFF_FFFD]);
    let w5 = wl("W5-12msgs-burst", ro(), (0..12).map(|i| m(A, 0, 0, i * 5, 30 + i as usize)).collect());
    let mut w7 = wl("W7-early-send", ro(), vec![m(A, 0, 0, 0, 10), m(B, 0, 0, 0, 11), m(A, 0, 0, 400, 12)]);
    w7.early_send = true;
    let w8 = wl("W8-2frag-x3-back-to-back", ro(), vec![m(A, 0, 0, 0, 2000), m(A, 0, 0, 0, 2001), m(A, 0, 0, 1, 2002)]);
    let mut w9 = wl("W9-tsn-wrap-burst", ro(), (0..8).map(|i| m(A, 0, 0, i * 3, 20 + i as usize)).collect());
    w9.forced = Some([0x1111_1111, 0xFFFF_FFFB, 0x2222_2222, 0xFFFF_FFFD]);
    // small receive window + a duplicating path: receive-window accounting errors (a chunk counted
    // twice, never released) reach zero within the fault bound and stall the transfer for good
    let mut w10 = wl("W10-rwnd4096-10x2500B", ro(), (0..10).map(|i| m(A, 0, 0, i * 2, 2500)).collect());
    w10.rwnd = Some(4096);
    w10.faults = vec![Fault::Drop, Fault::DupMany(4), Fault::Delay(3)];
    let mut w11 = wl("W11-rwnd4096-bidir-6x1100B", ro(), (0..6).flat_map(|i| [m(A, 0, 0, i * 2, 1100), m(B, 0, 0, i * 2 + 1, 1100)]).collect());
    w11.rwnd = Some(4096);
    w11.faults = vec![Fault::Drop, Fault::DupMany(4), Fault::DupLate(2), Fault::Delay(3)];
    // a long burst of small messages (many chunks per packet): one lost packet leaves dozens of
    // chunks buffered out of order behind the hole, and the retransmission that fills it may be the
    // last DATA the receiver ever sees - everything buffered has to come out on that one arrival
    let mut w12 = wl("W12-burst-80x200B", ro(), (0..80).map(|i| m(A, 0, 0, 0, 200 + (i % 3) as usize)).collect());
    w12.faults = vec![Fault::Drop, Fault::Delay(3), Fault::DropBurst(2)];
    let mut w13 = wl("W13-one-48000B", ro(), vec![m(A, 0, 0, 0, 48_000)]);
    w13.faults = vec![Fault::Drop, Fault::Delay(3), Fault::DropBurst(2)];
    // a hole with exactly one receive window of data buffered behind it (the receiver advertises
    // a_rwnd = 0 for a moment), and one more message long after everything was acknowledged: a
    // zero-window SACK that is overtaken and arrives while the sender is idle must not close the
    // window for good
    let mut w14 = wl("W14-rwnd4096-zero-window-then-late-message", ro(), vec![m(A, 0, 0, 0, 200), m(A, 0, 0, 0, 1024), m(A, 0, 0, 0, 1024), m(A, 0, 0, 0, 1024), m(A, 0, 0, 0, 1024), m(A, 0, 0, 3000, 20)]);
    w14.rwnd = Some(4096);
    w14.faults = vec![Fault::Drop, Fault::Delay(3), Fault::DupLate(6), Fault::DupLate(2)];
    if thorough {
        vec![
            (w14.clone(), 3),
            (w12, 2), (w13, 2),
            (w10, 3), (w11, 2),
            (w1.clone(), 3), (w2, 3), (w3, 3), (w4, 3), (w6, 3), (w5, 2), (w7, 2), (w8, 2), (w9, 2),
            (Workload { name: "W1-bound4".into(), ..w1 }, 4),
        ]
    } else {
        vec![(w1, 2), (w2, 2), (w3, 2), (w4, 2), (w6, 2), (w5, 1), (w7, 2), (w8, 1), (w9, 1), (w10, 2), (w12, 1), (w13, 1), (w14, 2)]
    }
}

pub fn c01_oracle(w: &Workload, obs: &Obs) -> Vec<Verdict> {
    let mut out = vec![];
    if !obs.established {
        out.push(Verdict { kind: "not_established".into(), detail: format!("DTLS states {:?}", obs.dtls_state) });
        return out;
    }
    for c in w.chans.iter().filter(|c| c.ordered && c.reliable()) {
        for side in [Side::A, Side::B] {
            let tasks: BTreeSet<u8> = w.msgs.iter().filter(|x| x.side == side && x.chan == c.id).map(|x| x.task).collect();
            if tasks.len() != 1 {
                continue; // multi-sender channels are judged by C12
            }
            let task = *tasks.iter().next().unwrap();
            let sub: Vec<Vec<u8>> = obs.submitted.get(&(side, c.id, task)).cloned().unwrap_or_default();
            let got = delivered(obs, side.other(), c.id);
            let is_prefix = got.len() <= sub.len() && got.iter().zip(sub.iter()).all(|(g, s)| g == s);
            if !is_prefix {
                let kind = if got.len() > sub.len() { "extra_or_duplicate" } else { "altered_or_reordered" };
                out.push(Verdict {
                    kind: kind.into(),
                    detail: format!("{}->{} ch{}: delivered lens {:?} vs submitted lens {:?}", side.name(), side.other().name(), c.id,
                        got.iter().map(|g| g.len()).collect::<Vec<_>>(), sub.iter().map(|g| g.len()).collect::<Vec<_>>()),
                });
                continue;
            }
            if got.len() < sub.len() && !closed_reported(obs) {
                // structural cause class: was the first undelivered message submitted before the
                // sender's channel had reported Open (API accepts it, association not yet up)?
                let early = sent_before_local_open(obs, side, c.id, &sub[got.len()]);
                out.push(Verdict {
                    kind: if early { "submitted_before_open_never_delivered".into() } else { "stalled".into() },
                    detail: format!("{}->{} ch{}: {} of {} delivered after {} virtual ms, no close reported (send_errors={:?})",
                        side.name(), side.other().name(), c.id, got.len(), sub.len(), obs.end_ms, obs.send_errors),
                });
            }
        }
    }
    out
}

// ------------------------------------------------------------------ C12

pub fn c12_workloads(thorough: bool) -> Vec<(Workload, usize)> {
    use Side::*;
    let mut v = vec![];
    // every channel type, negotiated, sizes across the fragmentation boundary, both directions
    let types: Vec<(&str, bool, Option<u16>, Option<u16>)> = vec![
        ("RO", true, None, None),
        ("RU", false, None, None),
        ("PO", true, Some(0), None),
        ("PU", false, Some(0), None),
        ("TO", true, None, Some(50)),
    ];
    for (name, ordered, rx, life) in &types {
        let c = chan(0, *ordered, *rx, *life, true);
        let sizes = [0usize, 1, 1172, 1173, 3 * 1172];
        let msgs: Vec<Msg> = sizes.iter().enumerate().map(|(i, s)| m(A, 0, 0, i as u64 * 60, *s)).chain([m(B, 0, 0, 30, 5), m(B, 0, 0, 330, 1173)]).collect();
        v.push((wl(&format!("T-{name}-neg-sizes"), vec![c], msgs), 1));
    }
    // in-band channels with label/protocol strings (incl. empty and long)
    for (name, ordered, rx, life) in &types {
        let mut c = chan(2, *ordered, *rx, *life, false);
        c.label = if *ordered { "x".repeat(300) } else { String::new() };
        c.protocol = if rx.is_some() { "p".repeat(40) } else { String::new() };
        let msgs = vec![m(A, 2, 0, 0, 7), m(A, 2, 0, 40, 1300), m(B, 2, 0, 100, 9)];
        // channel 0 is a negotiated control channel: its Open tells the harness the association is up
        v.push((wl(&format!("I-{name}-inband"), vec![chan(0, true, None, None, true), c.clone()], msgs.clone()), 1));
        if *name == "RO" || *name == "PU" {
            let mut w = wl(&format!("IE-{name}-inband-early"), vec![c], msgs);
            w.early_inband = true;
            v.push((w, 1));
        }
    }
    // three channels at once, two sender tasks on one of them
    {
        let cs = vec![chan(0, true, None, None, true), chan(1, false, None, None, true), chan(3, true, Some(0), None, true)];
        let msgs = vec![
            m(A, 0, 0, 0, 20), m(A, 0, 1, 0, 21), m(A, 0, 0, 10, 22), m(A, 0, 1, 10, 2400),
            m(A, 1, 0, 0, 1500), m(A, 1, 0, 5, 8), m(A, 3, 0, 0, 30), m(A, 3, 0, 20, 31),
            m(B, 0, 0, 0, 40), m(B, 1, 0, 0, 41),
        ];
        v.push((wl("M-3chan-2senders", cs, msgs), 1));
    }
    // interleaved unordered fragments from two concurrent senders on one unordered channel
    {
        let cs = vec![chan(0, false, None, None, true)];
        let msgs = vec![m(A, 0, 0, 0, 2500), m(A, 0, 1, 0, 2600), m(A, 0, 2, 0, 3), m(A, 0, 0, 1, 4)];
        v.push((wl("U-3senders-unordered-frag", cs, msgs), 1));
    }
    // partially reliable with one retransmission, fragmented messages followed by more traffic:
    // abandonment of a message some of whose fragments were already gap-acked
    for (name, ordered) in [("PU1", false), ("PO1", true)] {
        let cs = vec![chan(0, ordered, Some(1), None, true)];
        let mut msgs = vec![m(A, 0, 0, 0, 2844), m(A, 0, 0, 5, 2400)];
        for i in 0..6 {
            msgs.push(m(A, 0, 0, 60 + i * 45, 40 + i as usize));
        }
        // PR-SCTP behaviour depends on the numeric relation of the two peers' TSN spaces (see the
        // known finding), so both relations are forced rather than left to the seed
        for (rel, forced) in [("tsnA<tsnB", [0x1111_1111u32, 1_000, 0x2222_2222, 2_000_000_000]), ("tsnA>tsnB", [0x1111_1111, 2_000_000_000, 0x2222_2222, 1_000])] {
            let mut w = wl(&format!("F-{name}-frag-then-traffic-{rel}"), cs.clone(), msgs.clone());
            w.forced = Some(forced);
            if !thorough {
                // quick: double faults over a reduced alphabet (a fragment and its retransmission lost)
                let mut w2 = w.clone();
                w2.name = format!("F-{name}-frag-then-traffic-{rel}-drop2");
                w2.faults = vec![Fault::Drop, Fault::Delay(1)];
                v.push((w2, 2));
            }
            v.push((w, 1));
        }
    }
    // channels closed by the application (stream reset) while traffic continues on another channel
    {
        let cs = vec![chan(0, true, None, None, true), chan(1, false, None, None, true), chan(2, true, None, None, false)];
        let msgs = vec![m(A, 0, 0, 0, 20), m(B, 0, 0, 10, 21), m(A, 1, 0, 0, 1300), m(B, 1, 0, 50, 9), m(A, 2, 0, 20, 33), m(A, 1, 0, 300, 10), m(B, 1, 0, 320, 11)];
        let mut w = wl("K-close-channels", cs, msgs);
        w.closes = vec![(A, 0, 150), (B, 2, 200), (A, 1, 500), (B, 1, 500)];
        v.push((w, 1));
    }
    // ... and the survivor is an ORDERED channel that has already used several stream sequence
    // numbers in both directions when two OTHER channels are closed (one by each side): its
    // numbering and the peer's ordering state must survive the other streams' resets
    {
        let cs = vec![chan(0, true, None, None, true), chan(1, true, None, None, true), chan(2, true, None, None, false), chan(3, false, None, None, true)];
        let mut msgs = vec![];
        for i in 0..3u64 {
            msgs.push(m(A, 0, 0, i * 20, 20 + i as usize));
            msgs.push(m(B, 0, 0, 10 + i * 20, 40 + i as usize));
        }
        msgs.push(m(A, 1, 0, 5, 12));
        msgs.push(m(B, 2, 0, 60, 13));
        msgs.push(m(A, 3, 0, 15, 14));
        for i in 0..3u64 {
            msgs.push(m(A, 0, 0, 400 + i * 20, 60 + i as usize));
            msgs.push(m(B, 0, 0, 410 + i * 20, 80 + i as usize));
            msgs.push(m(B, 3, 0, 405 + i * 20, 90 + i as usize));
        }
        let mut w = wl("K2-close-others-ordered-survivor", cs, msgs);
        w.closes = vec![(A, 1, 150), (B, 2, 250)];
        v.push((w, 1));
    }
    // early send before Open, ordered reliable + unordered
    {
        let cs = vec![chan(0, true, None, None, true), chan(1, false, None, None, true)];
        let mut w = wl("E-early-send", cs, vec![m(A, 0, 0, 0, 10), m(A, 1, 0, 0, 11), m(B, 0, 0, 0, 12), m(A, 0, 0, 300, 13)]);
        w.early_send = true;
        v.push((w, 1));
    }
    if thorough {
        for (w, b) in v.iter_mut() {
            *b = 2;
            let _ = w;
        }
        // SSN wraparound: 65 560 eight-byte messages on one ordered channel, single faults aimed at
        // the datagrams whose DATA chunks carry SSN 65533..=2
        {
            let cs = vec![chan(0, true, None, None, true)];
            let msgs: Vec<Msg> = (0..65_560u64).map(|i| m(A, 0, 0, i / 64, 8)).collect();
            let mut w = wl("S-ssn-wrap-65560", cs, msgs);
            w.fault_ssn_window = Some((65533, 2));
            w.faults = vec![Fault::Drop, Fault::DupNow, Fault::Delay(3), Fault::DropBurst(3)];
            w.horizon_ms = 20_000;
            w.linger_ms = 1_000;
            v.push((w, 1));
        }
        // a large message (70 000 bytes) on ordered and unordered channels
        let cs = vec![chan(0, true, None, None, true), chan(1, false, None, None, true)];
        v.push((wl("L-70000B", cs, vec![m(A, 0, 0, 0, 70_000), m(A, 1, 0, 0, 70_000), m(A, 0, 0, 10, 5)]), 1));
    } else {
        // quick: double faults over a three-letter alphabet on one workload of each family
        let pick = ["T-RO-neg-sizes", "T-RU-neg-sizes", "T-PO-neg-sizes", "I-RO-inband", "I-PU-inband", "M-3chan-2senders", "U-3senders-unordered-frag"];
        let extra: Vec<(Workload, usize)> = v
            .iter()
            .filter(|(w, _)| pick.contains(&w.name.as_str()))
            .map(|(w, _)| {
                let mut w2 = w.clone();
                w2.name = format!("{}-b2", w.name);
                w2.faults = vec![Fault::Drop, Fault::DupNow, Fault::Delay(3)];
                (w2, 2)
            })
            .collect();
        v.extend(extra);
    }
    v
}

pub fn c12_oracle(w: &Workload, obs: &Obs) -> Vec<Verdict> {
    let mut out = vec![];
    if !obs.established {
        out.push(Verdict { kind: "not_established".into(), detail: format!("DTLS states {:?}", obs.dtls_state) });
        return out;
    }
    for c in &w.chans {
        for side in [Side::A, Side::B] {
            let recv_side = side.other();
            let got = delivered(obs, recv_side, c.id);
            // all submitted messages of this channel from `side`, per sender task
            let per_task: Vec<(u8, Vec<Vec<u8>>)> = obs.submitted.iter().filter(|(k, _)| k.0 == side && k.1 == c.id).map(|(k, v)| (k.2, v.clone())).collect();
            let mut pool: Vec<Vec<u8>> = per_task.iter().flat_map(|(_, v)| v.iter().cloned()).collect();
            // 1. every delivered message equals exactly one submitted message (multiset inclusion)
            let mut bad = None;
            let mut pool_dq: std::collections::VecDeque<Vec<u8>> = pool.drain(..).collect();
            for g in &got {
                if pool_dq.front() == Some(g) {
                    pool_dq.pop_front();
                } else if let Some(i) = pool_dq.iter().position(|s| s == g) {
                    pool_dq.remove(i);
                } else {
                    bad = Some(g.len());
                    break;
                }
            }
            pool = pool_dq.into_iter().collect();
            if let Some(l) = bad {
                out.push(Verdict {
                    kind: format!("not_a_submitted_message({})", chan_kind(c)),
                    detail: format!("{}->{} ch{}: a delivered message of {} bytes is not one (remaining) submitted message: duplicate, merge, split or fabrication. delivered lens {:?}, submitted lens {:?}",
                        side.name(), recv_side.name(), c.id, l, got.iter().map(|g| g.len()).collect::<Vec<_>>(),
                        per_task.iter().map(|(t, v)| (*t, v.iter().map(|x| x.len()).collect::<Vec<_>>())).collect::<Vec<_>>()),
                });
                continue;
            }
            // 2. ordered channels: per sender task, delivered order is submission order
            if c.ordered {
                for (t, sub) in &per_task {
                    let mine: Vec<&Vec<u8>> = got.iter().filter(|g| sub.iter().any(|s| s == *g)).collect();
                    let mut pos = 0usize;
                    let mut ok = true;
                    for g in mine {
                        match sub[pos..].iter().position(|s| s == g) {
                            Some(k) => pos += k + 1,
                            None => {
                                ok = false;
                                break;
                            }
                        }
                    }
                    if !ok {
                        out.push(Verdict { kind: format!("ordered_channel_reordered({})", chan_kind(c)), detail: format!("{}->{} ch{} task{}: delivery order is not submission order", side.name(), recv_side.name(), c.id, t) });
                    }
                }
            }
            // 3. reliable channels deliver everything at quiescence unless a close was reported
            if c.reliable() && !pool.is_empty() && !closed_reported(obs) {
                // structural cause class: did a partially-reliable channel of the same association
                // abandon a message (submitted but never delivered) in this execution?
                let pr_abandoned = w.chans.iter().filter(|x| !x.reliable()).any(|x| {
                    [Side::A, Side::B].iter().any(|sd| {
                        let sub: usize = obs.submitted.iter().filter(|(k, _)| k.0 == *sd && k.1 == x.id).map(|(_, v)| v.len()).sum();
                        delivered(obs, sd.other(), x.id).len() < sub
                    })
                });
                let early = pool.iter().all(|p| sent_before_local_open(obs, side, c.id, p));
                let kind = if early { "submitted_before_open_never_delivered" } else if pr_abandoned { "reliable_message_stuck_behind_abandoned_pr_chunk" } else { "reliable_message_lost" };
                out.push(Verdict { kind: format!("{kind}({})", chan_kind(c)), detail: format!("{}->{} ch{}: {} submitted message(s) never delivered after {} virtual ms", side.name(), recv_side.name(), c.id, pool.len(), obs.end_ms) });
            }
        }
        // 4. Open exactly once and before the first message; Close at most once
        for side in [Side::A, Side::B] {
            if let Some(co) = obs.chans.get(&(side, c.id)) {
                let opens = co.events.iter().filter(|e| e.1 == "Open").count();
                let closes = co.events.iter().filter(|e| e.1 == "Close").count();
                let first_msg = co.events.iter().position(|e| e.1 == "Msg");
                let first_open = co.events.iter().position(|e| e.1 == "Open");
                if opens > 1 {
                    out.push(Verdict { kind: "open_more_than_once".into(), detail: format!("{} ch{}: {} Open events: {:?}", side.name(), c.id, opens, ev_list(co)) });
                }
                if closes > 1 {
                    out.push(Verdict { kind: "close_more_than_once".into(), detail: format!("{} ch{}: {} Close events", side.name(), c.id, closes) });
                }
                if let Some(fm) = first_msg {
                    if first_open.map_or(true, |fo| fo > fm) {
                        // cause class: the peer had submitted that message before its own Open
                        let early = sent_before_local_open(obs, side.other(), c.id, &co.events[fm].2);
                        out.push(Verdict { kind: if early { "message_before_open(peer_sent_before_its_open)".into() } else { "message_before_open".into() }, detail: format!("{} ch{}: events {:?}", side.name(), c.id, ev_list(co)) });
                    }
                }
            } else if !c.negotiated && side == Side::B {
                // in-band channel never appeared at the peer: only a violation if messages were delivered nowhere
                if !closed_reported(obs) {
                    out.push(Verdict { kind: "inband_channel_never_appeared".into(), detail: format!("ch{} not announced at B after {} ms", c.id, obs.end_ms) });
                }
            }
        }
        // 5. in-band channel parameters arrive intact
        if !c.negotiated {
            if let Some(co) = obs.chans.get(&(Side::B, c.id)) {
                if co.label != c.label || co.protocol != c.protocol || co.ordered != c.ordered || co.max_retransmits != c.max_retransmits || co.max_packet_life_time != c.max_packet_life_time {
                    out.push(Verdict {
                        kind: "inband_parameters_differ".into(),
                        detail: format!("ch{}: created (label_len={}, proto={:?}, ordered={}, rexmit={:?}, life={:?}) appeared as (label_len={}, proto={:?}, ordered={}, rexmit={:?}, life={:?})",
                            c.id, c.label.len(), c.protocol, c.ordered, c.max_retransmits, c.max_packet_life_time,
                            co.label.len(), co.protocol, co.ordered, co.max_retransmits, co.max_packet_life_time),
                    });
                }
            }
        }
    }
    out
}

fn chan_kind(c: &ChanSpec) -> String {
    format!("{}{}{}", if c.reliable() { "reliable" } else if c.max_retransmits.is_some() { "rexmit" } else { "timed" }, if c.ordered { "-ordered" } else { "-unordered" }, if c.negotiated { "" } else { "-inband" })
}

fn ev_list(c: &ChanObs) -> Vec<String> {
    c.events.iter().map(|e| format!("{}@{}[{}]", e.1, e.0, e.2.len())).collect()
}

// ------------------------------------------------------------------ C13

pub fn c13_workloads(thorough: bool) -> Vec<(Workload, usize)> {
    use Side::*;
    let mut v: Vec<(Workload, usize)> = vec![];
    for (mut w, b) in c01_workloads(false).into_iter().filter(|(w, _)| !w.early_send && !w.name.starts_with("W8")) {
        w.record_wire = true;
        w.linger_ms = 0; // observe post-ack silence up to the horizon
        w.horizon_ms = 40_000;
        v.push((w, if thorough { b.max(2) } else { 1 }));
    }
    // partially reliable traffic (abandoned chunks, FORWARD TSN and its retransmission) under the
    // same wire rules
    for (mut w, b) in c12_workloads(false).into_iter().filter(|(w, _)| {
        w.name.starts_with("F-") && (thorough || w.name == "F-PU1-frag-then-traffic-tsnA<tsnB-drop2" || w.name == "F-PO1-frag-then-traffic-tsnA>tsnB")
    }) {
        w.record_wire = true;
        w.linger_ms = 0;
        w.horizon_ms = 40_000;
        w.name = format!("PR:{}", w.name);
        v.push((w, if thorough { b.max(2) } else { b }));
    }
    // small receive windows with a bulk transfer; SACKs held back force zero window
    for (rwnd, total) in [(4096usize, 24_000usize), (8192, 30_000), (16 * 1024, 60_000), (64 * 1024, 200_000)] {
        let mut w = wl(&format!("Z-rwnd{rwnd}-bulk{total}"), vec![ChanSpec::reliable_ordered(0)], (0..(total / 4000)).map(|i| m(A, 0, 0, i as u64, 4000)).collect());
        w.rwnd = Some(rwnd);
        w.record_wire = true;
        w.linger_ms = 0;
        w.horizon_ms = 30_000;
        // burst losses (2, 3, 5 consecutive datagrams of one sender) make several chunks eligible for
        // retransmission in one round while out-of-order data shrinks the advertised window
        w.faults = vec![Fault::Drop, Fault::DropBurst(2), Fault::DropBurst(3), Fault::DropBurst(5), Fault::Delay(3), Fault::DupLate(6)];
        if rwnd > 8192 && !thorough {
            continue;
        }
        if !thorough && rwnd == 8192 {
            // quick double-fault plan over the two faults that make a sender's window knowledge
            // wrong (a SACK or DATA lost, a SACK overtaken): found two accounting defects that no
            // single fault exposes (see known_findings.json, C13 fixed entries)
            let mut w2 = w.clone();
            w2.name = format!("{}-drop+delay+burst-b2", w.name);
            w2.faults = vec![Fault::Drop, Fault::Delay(3), Fault::DropBurst(5)];
            v.push((w2, 2));
        }
        v.push((w, if thorough && rwnd <= 8192 { 2 } else { 1 }));
    }
    // packet-size boundary: payload sizes whose DATA chunk, bundled with a SACK (16 bytes) or with a
    // second DATA chunk, lands within a few bytes of the 1200-byte limit, in both directions at once
    {
        let mut msgs = vec![];
        // same instant in both directions (a SACK is pending when the DATA leaves), and pairs of
        // messages submitted back to back (two DATA chunks in one transmit round)
        for (i, sz) in [1172usize, 1168, 1164, 1160, 1156, 1152].iter().enumerate() {
            msgs.push(m(A, 0, 0, i as u64 * 40, *sz));
            msgs.push(m(B, 0, 0, i as u64 * 40, *sz));
        }
        for (i, (s1, s2)) in [(584usize, 572usize), (584, 576), (584, 580), (588, 584), (592, 584), (8, 1148), (8, 1152), (12, 1152), (16, 1152), (20, 1152), (4, 1152)].iter().enumerate() {
            msgs.push(m(A, 0, 0, 300 + i as u64 * 40, *s1));
            msgs.push(m(A, 0, 0, 300 + i as u64 * 40, *s2));
        }
        let mut w = wl("P-packet-size-boundary", vec![ChanSpec::reliable_ordered(0)], msgs);
        w.record_wire = true;
        w.linger_ms = 0;
        w.horizon_ms = 20_000;
        w.faults = vec![Fault::Drop, Fault::Delay(3)];
        v.push((w, 1));
    }
    // bursts of equal small messages: one transmit round emits several packets, each filled by
    // many small chunks, so the size accounting of the SECOND and later packets of a round is
    // exercised (the first packet alone is not enough). Chunk size c = 16 + payload rounded up to 4;
    // the sizes make k*c land in 1189..=1200 for k = 2,3,4,5,6,10,12 (a 12-byte accounting error
    // then crosses the limit), plus neighbours. Thorough sweeps every chunk size.
    {
        let sizes: Vec<usize> = if thorough { (1..=1172).step_by(4).collect() } else { vec![84, 104, 184, 224, 284, 384, 584, 80, 88, 580, 588] };
        for (gi, group) in sizes.chunks(if thorough { 12 } else { 11 }).enumerate() {
            let mut msgs = vec![];
            for (i, sz) in group.iter().enumerate() {
                let c = 16 + (sz + 3) / 4 * 4;
                let n = (3 * 1200 / c + 3).min(48);
                for _ in 0..n {
                    msgs.push(m(A, 0, 0, i as u64 * 300, *sz));
                }
            }
            let mut w = wl(&format!("Q-small-chunk-bursts-{gi}"), vec![ChanSpec::reliable_ordered(0)], msgs);
            w.record_wire = true;
            w.linger_ms = 0;
            w.horizon_ms = 20_000;
            w.faults = vec![Fault::Drop];
            v.push((w, 1));
        }
    }
    for (burst, cwnd) in [(1usize, 0usize), (4, 8192)] {
        let mut w = wl(&format!("B-burst{burst}-cwnd{cwnd}"), vec![ChanSpec::reliable_ordered(0)], (0..10).map(|i| m(A, 0, 0, 0, 1100 + i)).collect());
        w.max_burst = Some(burst);
        if cwnd > 0 {
            w.max_cwnd = Some(cwnd);
        }
        w.record_wire = true;
        w.linger_ms = 0;
        w.horizon_ms = 30_000;
        v.push((w, 1));
    }
    v
}

/// Wire monitor over every packet of one execution.
pub fn c13_monitor(w: &Workload, obs: &Obs) -> Vec<Verdict> {
    let mut out: Vec<Verdict> = vec![];
    let mut push = |kind: &str, detail: String| {
        if !out.iter().any(|v| v.kind == kind) {
            out.push(Verdict { kind: kind.into(), detail });
        }
    };
    if !obs.established {
        push("not_established", format!("{:?}", obs.dtls_state));
        return out;
    }
    // what each side announced as its own tag (INIT / INIT-ACK `tag` field)
    let mut announced: [Option<u32>; 2] = [None, None];
    // per sender: highest first-transmitted TSN, set of TSNs seen, payload sizes
    let mut highest: [Option<u32>; 2] = [None, None];
    let mut sent: [BTreeMap<u32, usize>; 2] = [BTreeMap::new(), BTreeMap::new()];
    // last SACK *delivered* to each side: (cum, a_rwnd, gap-acked set)
    let mut last_sack: [Option<(u32, u32, Vec<(u16, u16)>)>; 2] = [None, None];
    let mut last_sack_t: [u64; 2] = [0, 0];
    // per data sender: TSN -> virtual ms at which a DELIVERED SACK first reported it in a gap-ack block
    let mut gap_acked_at: [BTreeMap<u32, u64>; 2] = [BTreeMap::new(), BTreeMap::new()];
    let mut init_rwnd: [Option<u32>; 2] = [None, None]; // window the peer announced in INIT/INIT-ACK
    let mut all_acked_since: [Option<u64>; 2] = [None, None];
    let mut fwd_after_quiescence: [u32; 2] = [0, 0];
    let total_sub: [usize; 2] = [
        obs.submitted.iter().filter(|(k, _)| k.0 == Side::A).map(|(_, v)| v.len()).sum(),
        obs.submitted.iter().filter(|(k, _)| k.0 == Side::B).map(|(_, v)| v.len()).sum(),
    ];
    let _ = total_sub;
    for ev in &obs.wire {
        let s = ev.from as usize;
        let peer = 1 - s;
        if !ev.sent {
            // late / duplicate delivery of an earlier datagram: only its SACK knowledge matters
            for p in &ev.sctp {
                for c in &p.chunks {
                    if let Chunk::Sack { cum, a_rwnd, gaps, .. } = c {
                        let newer = match &last_sack[peer] {
                            Some((c0, _, _)) => wire::tsn_ge(*cum, *c0),
                            None => true,
                        };
                        if newer {
                            if last_sack[peer].as_ref().map(|x| x.0) != Some(*cum) {
                                last_sack_t[peer] = ev.t_ms;
                            }
                            for (a, b) in gaps.iter() {
                                for off in *a..=*b {
                                    gap_acked_at[peer].entry(cum.wrapping_add(off as u32)).or_insert(ev.t_ms);
                                }
                            }
                            last_sack[peer] = Some((*cum, *a_rwnd, gaps.clone()));
                        }
                        if let Some(h) = highest[peer] {
                            if wire::tsn_ge(*cum, h) && all_acked_since[peer].is_none() {
                                all_acked_since[peer] = Some(ev.t_ms);
                            }
                        }
                    }
                }
            }
            continue;
        }
        for (pi, p) in ev.sctp.iter().enumerate() {
            let raw_len = ev.sctp_raw_len.get(pi).copied().unwrap_or(p.len);
            if raw_len > 1200 {
                push("packet_exceeds_1200", format!("t={} {} sent an SCTP packet of {} bytes: {}", ev.t_ms, ev.from.name(), raw_len, ev.label));
            }
            if !p.checksum_ok {
                push("bad_crc32c", format!("t={} {}: {}", ev.t_ms, ev.from.name(), ev.label));
            }
            if !p.well_formed {
                push("malformed_packet", format!("t={} {}: {}", ev.t_ms, ev.from.name(), ev.label));
            }
            let is_init = p.chunks.iter().any(|c| matches!(c, Chunk::Init { ack: false, .. }));
            if is_init {
                if p.vtag != 0 {
                    push("init_with_nonzero_vtag", format!("t={} vtag={:08x}", ev.t_ms, p.vtag));
                }
            } else if let Some(t) = announced[peer] {
                if p.vtag != t {
                    push("wrong_verification_tag", format!("t={} {} used vtag {:08x}, peer announced {:08x}: {}", ev.t_ms, ev.from.name(), p.vtag, t, ev.label));
                }
            } else {
                push("packet_before_peer_tag_known", format!("t={} {} sent {} before the peer announced a tag", ev.t_ms, ev.from.name(), ev.label));
            }
            for c in &p.chunks {
                match c {
                    Chunk::Init { tag, a_rwnd, .. } => {
                        if announced[s].is_some() && announced[s] != Some(*tag) {
                            push("tag_changed_on_retransmitted_setup", format!("t={} {} announced {:08x} then {:08x}", ev.t_ms, ev.from.name(), announced[s].unwrap(), tag));
                        }
                        announced[s] = Some(*tag);
                        init_rwnd[s] = Some(*a_rwnd);
                    }
                    Chunk::Data { tsn, len, .. } => {
                        let is_new = !sent[s].contains_key(tsn);
                        if is_new {
                            if let Some(h) = highest[s] {
                                if *tsn != h.wrapping_add(1) {
                                    push("new_data_tsn_not_consecutive", format!("t={} {}: new TSN {} after highest {}", ev.t_ms, ev.from.name(), tsn, h));
                                }
                            }
                            highest[s] = Some(*tsn);
                            sent[s].insert(*tsn, *len);
                            // window rule: outstanding after this chunk vs the window last advertised to s
                            let (cum, rwnd, gaps) = match &last_sack[s] {
                                Some((c, r, g)) => (Some(*c), *r, g.clone()),
                                None => (None, init_rwnd[peer].unwrap_or(u32::MAX), vec![]),
                            };
                            let outstanding: usize = sent[s]
                                .iter()
                                .filter(|(t, _)| match cum {
                                    Some(c) => wire::tsn_gt(**t, c) && !gaps.iter().any(|(a, b)| {
                                        let off = t.wrapping_sub(c);
                                        off >= *a as u32 && off <= *b as u32
                                    }),
                                    None => true,
                                })
                                .map(|(_, l)| *l)
                                .sum();
                            if outstanding > rwnd as usize + 1200 {
                                push("window_overrun", format!("t={} {}: {} bytes outstanding after sending new TSN {}, last advertised window {} (+1 packet allowed)", ev.t_ms, ev.from.name(), outstanding, tsn, rwnd));
                            }
                            all_acked_since[s] = None;
                        } else {
                            // retransmission: must not be covered by a SACK already delivered to s
                            if let Some((cum, _, _)) = &last_sack[s] {
                                // same virtual millisecond = concurrent (zero processing time): not judged
                                if wire::tsn_ge(*cum, *tsn) && ev.t_ms > last_sack_t[s] {
                                    push("retransmit_after_covering_sack", format!("t={} {}: TSN {} retransmitted although a SACK with cum {} had been delivered", ev.t_ms, ev.from.name(), tsn, cum));
                                }
                            }
                            if let Some(t0) = gap_acked_at[s].get(tsn) {
                                if ev.t_ms > *t0 {
                                    push("retransmit_after_covering_gap_ack", format!("t={} {}: TSN {} retransmitted although a SACK delivered at t={} had reported it in a gap-ack block", ev.t_ms, ev.from.name(), tsn, t0));
                                }
                            }
                        }
                        if all_acked_since[s].map_or(false, |t0| ev.t_ms > t0) {
                            push("data_after_everything_acked", format!("t={} {}: DATA TSN {} after all submitted data was acknowledged", ev.t_ms, ev.from.name(), tsn));
                        }
                    }
                    Chunk::Sack { cum, a_rwnd, gaps, .. } => {
                        if ev.delivered {
                            // the peer (receiver of this SACK) learns the window; keep the most advanced
                            let newer = match &last_sack[peer] {
                                Some((c, _, _)) => wire::tsn_ge(*cum, *c),
                                None => true,
                            };
                            if newer {
                                if last_sack[peer].as_ref().map(|x| x.0) != Some(*cum) {
                                    last_sack_t[peer] = ev.t_ms;
                                }
                                for (a, b) in gaps.iter() {
                                for off in *a..=*b {
                                    gap_acked_at[peer].entry(cum.wrapping_add(off as u32)).or_insert(ev.t_ms);
                                }
                            }
                            last_sack[peer] = Some((*cum, *a_rwnd, gaps.clone()));
                            }
                            if let Some(h) = highest[peer] {
                                if wire::tsn_ge(*cum, h) && all_acked_since[peer].is_none() {
                                    all_acked_since[peer] = Some(ev.t_ms);
                                }
                            }
                        }
                    }
                    _ => {}
                }
            }
            // quiescence: once everything s sent is acked (and nothing new is submitted), s stays silent apart from HB/SACK
            if let Some(t0) = all_acked_since[s] {
                let senders_done = ev.t_ms > t0 + 1500;
                if senders_done {
                    for c in &p.chunks {
                        let ok = matches!(c, Chunk::Heartbeat { .. } | Chunk::Sack { .. } | Chunk::CookieAck | Chunk::ForwardTsn { .. } | Chunk::Reconfig);
                        if !ok && !matches!(c, Chunk::Data { .. }) {
                            push("chatter_after_quiescence", format!("t={} {}: {} after everything was acknowledged", ev.t_ms, ev.from.name(), c.name()));
                        }
                        // a FORWARD TSN may answer a late (overtaken) SACK, but it must not keep coming
                        // once the peer's cumulative ack has passed everything that was sent
                        if matches!(c, Chunk::ForwardTsn { .. }) {
                            fwd_after_quiescence[s] += 1;
                            if fwd_after_quiescence[s] == 4 {
                                push("forward_tsn_repeated_after_quiescence", format!("t={} {}: fourth FORWARD TSN after everything was acknowledged", ev.t_ms, ev.from.name()));
                            }
                        }
                    }
                }
            }
        }
    }
    let _ = w;
    out
}

// ------------------------------------------------------------------ shared main

pub struct PropSpec {
    pub id: &'static str,
    pub workloads: fn(bool) -> Vec<(Workload, usize)>,
    pub oracle: fn(&Workload, &Obs) -> Vec<Verdict>,
    pub rule: &'static str,
}

pub fn spec(id: &str) -> PropSpec {
    match id {
        "C01" => PropSpec { id: "C01", workloads: c01_workloads, oracle: c01_oracle,
            rule: "every fault history with <= bound non-default choices {drop, burst loss of 2 or 3 datagrams, dup, duplate2, duplate6, delay1, delay3} over every post-handshake datagram of each workload; oracle: delivered is a byte-exact prefix of submitted on every reliable ordered channel, equal at the horizon unless a close was reported" },
        "C12" => PropSpec { id: "C12", workloads: c12_workloads, oracle: c12_oracle,
            rule: "same fault alphabet over workloads covering every channel type (reliable/rexmit/timed x ordered/unordered, negotiated and in-band), sizes 0..70000, 1-3 channels, 1-3 concurrent senders; oracle: multiset inclusion of delivered in submitted per channel, per-sender order on ordered channels, completeness on reliable channels, Open once before first message, Close at most once, in-band parameters intact" },
        "C13" => PropSpec { id: "C13", workloads: c13_workloads, oracle: c13_monitor,
            rule: "wire monitor over every SCTP packet (decrypted with the session keys) of every explored execution: size <= 1200, CRC32c, verification tag, consecutive new TSNs, advertised-window overrun <= 1 packet, no retransmission after a covering SACK was delivered, silence after everything is acknowledged" },
        _ => crate::machinery_failure("unknown sctp property"),
    }
}

pub fn main_for(id: &str) -> ! {
    let cli = crate::cli();
    crate::install_quiet_panic_hook();
    let sp = spec(id);
    if let Some(path) = &cli.replay {
        std::process::exit(replay(&sp, path, cli.seed));
    }
    let mut rep = crate::Report::new(sp.id, &cli, "model_checking");
    let thorough = cli.tier == crate::Tier::Thorough;
    let seeds: Vec<u64> = if thorough { vec![cli.seed, cli.seed.wrapping_add(1)] } else { vec![cli.seed] };
    let mut total = 0u64;
    let mut traces = 0u64;
    let mut per = vec![];
    let mut capped = false;
    let only: Vec<String> = cli.rest.clone();
    for seed in &seeds {
        for (w, bound) in (sp.workloads)(thorough) {
            if !only.is_empty() && !only.iter().any(|o| w.name.contains(o.as_str())) {
                continue;
            }
            let t0 = std::time::Instant::now();
            let mut viols: Vec<crate::Violation> = vec![];
            let mut samples = vec![];
            let stats = explore(
                &w,
                bound,
                *seed,
                if thorough { 1_500_000 } else { 60_000 },
                if thorough { 50 } else { 15 },
                &sp.oracle,
                |devs, points, _obs, v| {
                    // Executions in which the API was used before the association was established
                    // (send_data before Open / channel created right after DTLS connected) are
                    // attributed to that cause class.
                    let kind = if w.early_send || w.early_inband { format!("{}[api_used_before_association_established]", v.kind) } else { v.kind.clone() };
                    viols.push(crate::Violation {
                        signature: format!("{};{};{}", w.name, kind, fault_signature(&w, devs, points)),
                        detail: format!("{}: {}", v.kind, v.detail),
                        replay: history_json(&w, devs, points, *seed),
                    });
                },
                |s| samples.push(s),
            );
            for v in viols {
                rep.violation(v);
            }
            for s in samples.into_iter().take(1) {
                rep.sample(s);
            }
            total += stats.histories;
            traces += stats.distinct_traces.len() as u64;
            capped |= stats.capped;
            println!(
                "  seed={} {}: bound={} histories={} by_level={:?} choice_points(fault-free)={} distinct_traces={} datagrams={} replays={} livelocks={} capped={} {:.1}s",
                seed, w.name, bound, stats.histories, stats.by_level, stats.baseline_points, stats.distinct_traces.len(), stats.datagrams, stats.replays_checked, stats.livelocks, stats.capped, t0.elapsed().as_secs_f64()
            );
            per.push(json!({"seed": seed, "workload": w.name, "bound": bound, "histories": stats.histories, "by_level": stats.by_level,
                "choice_points_fault_free": stats.baseline_points, "distinct_traces": stats.distinct_traces.len(),
                "datagrams": stats.datagrams, "replays_checked": stats.replays_checked, "capped": stats.capped}));
            rep.add("transitions", stats.datagrams);
            if stats.baseline_points == 0 {
                crate::machinery_failure(&format!("{}: no choice points in the fault-free run", w.name));
            }
        }
    }
    rep.set("states", total);
    rep.set("traces_validated_against_impl", total);
    rep.set("evaluations", total);
    rep.set("distinct_nontrivial", traces);
    rep.set("rule", format!("{}; states = histories executed on the real DTLS+SCTP stack (two endpoints, in-memory network, paused virtual clock), transitions = datagrams handled, distinct_nontrivial = distinct observation traces (labelled datagrams + deliveries + virtual times)", sp.rule));
    rep.set("workloads", json!(per));
    rep.set("exhaustive", !capped);
    rep.assume("tokio select! start branch and rustrtc's random tags/TSNs are seeded (VERIF_SEED; thorough runs two seeds), not enumerated; zero processing time (paused virtual clock)");
    rep.assume("DTLS handshake datagrams are fault-free here; C11 owns them");
    if total < 10 || traces < 2 {
        crate::machinery_failure("vacuous exploration");
    }
    std::process::exit(rep.finish());
}

fn replay(sp: &PropSpec, path: &std::path::Path, seed: u64) -> i32 {
    let v: serde_json::Value = serde_json::from_str(&std::fs::read_to_string(path).unwrap_or_else(|e| crate::machinery_failure(&format!("{e}")))).unwrap();
    let r = &v["replay"];
    let name = r["workload"].as_str().unwrap_or("");
    let seed = r["seed"].as_u64().unwrap_or(seed);
    let Some((mut w, _)) = (sp.workloads)(true).into_iter().chain((sp.workloads)(false)).find(|(w, _)| w.name == name) else {
        crate::machinery_failure("unknown workload in replay file");
    };
    w.record_wire = true;
    let devs: Vec<(usize, usize)> = r["deviations"].as_array().unwrap().iter().map(|d| (d["point"].as_u64().unwrap() as usize, d["choice"].as_u64().unwrap() as usize)).collect();
    let mut bad = 0;
    for round in 0..2 {
        let out = run_history(&w, devs.clone(), seed, std::time::Duration::from_secs(60));
        match out.obs {
            None => {
                println!("replay {round}: LIVELOCK");
                bad += 1;
            }
            Some(obs) => {
                let vs = (sp.oracle)(&w, &obs);
                if round == 0 {
                    for e in &obs.wire {
                        let det: Vec<String> = e.sctp.iter().flat_map(|p| p.chunks.iter()).filter_map(|c| match c {
                            Chunk::Data { tsn, sid, ssn, flags, len, .. } => Some(format!("DATA(tsn={tsn} sid={sid} ssn={ssn} f={flags:x} len={len})")),
                            Chunk::Sack { cum, a_rwnd, gaps, dups } => Some(format!("SACK(cum={cum} rwnd={a_rwnd} gaps={gaps:?} dups={dups:?})")),
                            Chunk::Init { ack, tag, initial_tsn, a_rwnd } => Some(format!("INIT{}(tag={tag:08x} tsn={initial_tsn} rwnd={a_rwnd})", if *ack { "-ACK" } else { "" })),
                            Chunk::ForwardTsn { new_cum, streams } => Some(format!("FWD(new_cum={new_cum} {streams:?})")),
                            _ => None,
                        }).collect();
                        println!("{:>7} {}{} {} {}", e.t_ms, if e.sent { "" } else { "(late delivery) " }, e.label, det.join(" "), if e.fault != Fault::None { format!("<== {}", e.fault.name()) } else { String::new() });
                    }
                    for (k, c) in &obs.chans {
                        println!("   {}{} events: {:?}", k.0.name(), k.1, ev_list(c));
                    }
                }
                println!("replay {round}: trace={:x} applied={:?} verdicts={:?}", obs.trace_hash, obs.applied, vs.iter().map(|v| format!("{}: {}", v.kind, v.detail)).collect::<Vec<_>>());
                if !vs.is_empty() {
                    bad += 1;
                }
            }
        }
    }
    if bad > 0 { 1 } else { 0 }
}
