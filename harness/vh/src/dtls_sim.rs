//! E2 runner for the DTLS-only system (two real DtlsTransports over IceConns on the in-memory
//! network): handshake fault histories (C11), on-path tampering (C02) and record injection (C03).
use crate::explore::Chooser;
use crate::sim::{self, Dgram, End, EndCfg, Side};
use crate::wire;
use bytes::Bytes;
use rustrtc::transports::dtls::DtlsState;
use std::time::Duration;

#[derive(Clone, Copy, Debug, PartialEq, Eq)]
pub enum HFault {
    Drop,
    Dup,
    DupLate(u8),
    Swap,
    DelayMs(u64),
    SplitFwd,
    SplitRev,
    /// three fragments delivered in order 1,3,2
    Split3Mixed,
}

impl HFault {
    pub fn name(&self) -> String {
        match self {
            HFault::Drop => "drop".into(),
            HFault::Dup => "dup".into(),
            HFault::DupLate(k) => format!("duplate{k}"),
            HFault::Swap => "swap".into(),
            HFault::DelayMs(ms) => format!("delay{ms}ms"),
            HFault::SplitFwd => "split".into(),
            HFault::SplitRev => "split-reversed".into(),
            HFault::Split3Mixed => "split3-order132".into(),
        }
    }
}

pub fn all_hfaults() -> Vec<HFault> {
    vec![HFault::Drop, HFault::Dup, HFault::DupLate(3), HFault::Swap, HFault::DelayMs(1000), HFault::DelayMs(2500), HFault::SplitFwd, HFault::SplitRev, HFault::Split3Mixed]
}

/// Re-fragment the first complete epoch-0 handshake message of a datagram into `n` fragments,
/// each in its own record in its own datagram. Returns None if nothing is splittable.
pub fn split_datagram_n(d: &[u8], n: usize) -> Option<Vec<Vec<u8>>> {
    let recs = wire::dtls_records(d);
    for (ri, r) in recs.iter().enumerate() {
        if r.ctype == 22 && r.epoch == 0 {
            let hs = wire::handshake_msgs(&r.body);
            if hs.len() == 1 && hs[0].frag_off == 0 && hs[0].frag_len == hs[0].length && hs[0].length as usize >= n {
                let h = &hs[0];
                let len = h.length as usize;
                let mut out = vec![];
                for k in 0..n {
                    let lo = len * k / n;
                    let hi = len * (k + 1) / n;
                    let f = wire::Hs { frag_off: lo as u32, frag_len: (hi - lo) as u32, body: h.body[lo..hi].to_vec(), ..h.clone() };
                    let mut dg = vec![];
                    if k == 0 {
                        // records before the split one stay with the first datagram
                        for x in &recs[..ri] {
                            dg.extend(wire::encode_record(x.ctype, x.epoch, x.seq, &x.body));
                        }
                    }
                    dg.extend(wire::encode_record(22, 0, r.seq + 0x1000 * k as u64, &wire::encode_hs(&f)));
                    if k == n - 1 {
                        for x in &recs[ri + 1..] {
                            dg.extend(wire::encode_record(x.ctype, x.epoch, x.seq, &x.body));
                        }
                    }
                    out.push(dg);
                }
                return Some(out);
            }
        }
    }
    None
}

pub fn split_datagram(d: &[u8]) -> Option<(Vec<u8>, Vec<u8>)> {
    split_datagram_n(d, 2).map(|mut v| {
        let b = v.pop().unwrap();
        let a = v.pop().unwrap();
        (a, b)
    })
}

#[derive(Clone, Debug, Default)]
pub struct HsObs {
    pub state: [String; 2],
    pub connected_at_ms: [Option<u64>; 2],
    pub keys_equal: Option<bool>,
    pub profile: [Option<u16>; 2],
    pub exporter_equal: Option<bool>,
    pub app_ok: [Option<bool>; 2], // message sent by side i arrived intact at the other
    pub app_rx_extra: [usize; 2],
    pub datagrams: u64,
    pub end_ms: u64,
    pub trace_hash: u64,
    pub applied: Vec<(usize, String, String)>,
    pub wire: Vec<(u64, String, String)>,
    pub ever_connected_on_different_keys: bool,
}

pub struct HsOut {
    pub chooser: Chooser,
    pub obs: Option<HsObs>,
}

fn now_ms(start: tokio::time::Instant) -> u64 {
    (tokio::time::Instant::now() - start).as_millis() as u64
}

#[derive(Clone)]
pub struct HsCfg {
    pub faults: Vec<HFault>,
    pub horizon_ms: u64,
    pub record_wire: bool,
}

pub fn run_handshake(cfg: &HsCfg, deviations: Vec<(usize, usize)>, seed: u64, wall_cap: Duration) -> HsOut {
    let cfg = cfg.clone();
    let devs = deviations.clone();
    let out = sim::run_with_watchdog(seed, wall_cap, move || {
        Box::pin(async move {
            let mut chooser = Chooser::new(devs);
            let obs = run_inner(&cfg, &mut chooser).await;
            (chooser, obs)
        })
    });
    match out {
        Some((mut chooser, obs)) => {
            chooser.check_all_reached();
            HsOut { chooser, obs: Some(obs) }
        }
        None => HsOut { chooser: Chooser::new(deviations), obs: None },
    }
}

struct TimedHeld {
    items: Vec<(u64, Dgram)>, // (due virtual ms, datagram)
}

async fn run_inner(cfg: &HsCfg, chooser: &mut Chooser) -> HsObs {
    let start = tokio::time::Instant::now();
    let mut obs = HsObs::default();
    let (net_tx, mut net_rx) = tokio::sync::mpsc::unbounded_channel();
    let certs = sim::certs();
    let rtc = sim::default_rtc();
    let cfg_a = EndCfg { with_sctp: false, channels: vec![], expected_fingerprint: Some(rustrtc::transports::dtls::fingerprint(&certs.b)), rtc: rtc.clone() };
    let cfg_b = EndCfg { with_sctp: false, channels: vec![], expected_fingerprint: Some(rustrtc::transports::dtls::fingerprint(&certs.a)), rtc };
    let mut a = sim::mk_end(Side::A, certs.a.clone(), net_tx.clone(), &cfg_a).await;
    let mut b = sim::mk_end(Side::B, certs.b.clone(), net_tx.clone(), &cfg_b).await;
    drop(net_tx);
    let mut held = sim::Held::default();
    let mut timed = TimedHeld { items: vec![] };
    let mut buf = Vec::new();
    let mut th: u64 = 0xcbf29ce484222325;
    let mut hash = |s: &str| {
        for x in s.as_bytes() {
            th ^= *x as u64;
            th = th.wrapping_mul(0x100000001b3);
        }
    };
    let mut app_sent = [false, false];
    let mut quiet_since: Option<u64> = None;
    loop {
        let t = now_ms(start);
        if t >= cfg.horizon_ms {
            break;
        }
        // state bookkeeping + safety check at every step
        let sa = a.dtls.get_state();
        let sb = b.dtls.get_state();
        for (i, s) in [&sa, &sb].iter().enumerate() {
            if matches!(s, DtlsState::Connected(_, _)) && obs.connected_at_ms[i].is_none() {
                obs.connected_at_ms[i] = Some(t);
            }
        }
        if let (DtlsState::Connected(ca, _), DtlsState::Connected(cb, _)) = (&sa, &sb) {
            if ca.keys != cb.keys {
                obs.ever_connected_on_different_keys = true;
            }
            // both connected: each side sends one application message (once)
            if !app_sent[0] {
                app_sent[0] = true;
                let _ = a.dtls.send(Bytes::from_static(b"ping-from-A-0123456789")).await;
            }
            if !app_sent[1] {
                app_sent[1] = true;
                let _ = b.dtls.send(Bytes::from_static(b"ping-from-B-abcdefghij")).await;
            }
        }
        // release time-delayed datagrams that are due
        let mut due = vec![];
        timed.items.retain(|(at, d)| {
            if *at <= t {
                due.push(d.clone());
                false
            } else {
                true
            }
        });
        for d in due {
            hash(&format!("{}|late|{}", t, wire::dtls_label(&d.data)));
            sim::deliver(&a, &b, &d, &mut buf).await;
        }
        let next_due = timed.items.iter().map(|x| x.0).min();
        let idle = match next_due {
            Some(at) => Duration::from_millis((at.saturating_sub(t)).clamp(1, 250)),
            None => Duration::from_millis(250),
        };
        let d = match sim::next_dgram(&mut net_rx, idle).await {
            Some(d) => d,
            None => {
                for hd in held.flush() {
                    sim::deliver(&a, &b, &hd, &mut buf).await;
                }
                // early exit: both connected, application messages exchanged, nothing pending
                let both = matches!(a.dtls.get_state(), DtlsState::Connected(_, _)) && matches!(b.dtls.get_state(), DtlsState::Connected(_, _));
                if both && app_sent[0] && app_sent[1] && timed.items.is_empty() {
                    let t2 = now_ms(start);
                    match quiet_since {
                        None => quiet_since = Some(t2),
                        Some(q) if t2 >= q + 3000 => break,
                        _ => {}
                    }
                }
                continue;
            }
        };
        quiet_since = None;
        obs.datagrams += 1;
        let t = now_ms(start);
        let src = d.src_side().unwrap_or(Side::A);
        let dst = d.dest_side().unwrap_or(Side::B);
        let lab = format!("{}:{}", src.name(), wire::dtls_label(&d.data));
        let is_app = wire::dtls_records(&d.data).iter().all(|r| r.ctype == 23);
        let mut fault: Option<HFault> = None;
        if !is_app && !cfg.faults.is_empty() {
            let c = chooser.choose(cfg.faults.len() + 1, || lab.clone());
            if c > 0 {
                fault = Some(cfg.faults[c - 1]);
                obs.applied.push((chooser.points.len() - 1, lab.clone(), cfg.faults[c - 1].name()));
            }
        }
        hash(&format!("{}|{}", t, lab));
        if cfg.record_wire {
            obs.wire.push((t, lab.clone(), fault.map(|f| f.name()).unwrap_or_default()));
        }
        let mut deliver_now: Vec<Dgram> = vec![];
        match fault {
            None => deliver_now.push(d.clone()),
            Some(HFault::Drop) => {}
            Some(HFault::Dup) => {
                deliver_now.push(d.clone());
                deliver_now.push(d.clone());
            }
            Some(HFault::DupLate(k)) => {
                deliver_now.push(d.clone());
                held.hold(dst, k, d.clone());
            }
            Some(HFault::Swap) => held.hold(dst, 1, d.clone()),
            Some(HFault::DelayMs(ms)) => timed.items.push((t + ms, d.clone())),
            Some(HFault::Split3Mixed) => match split_datagram_n(&d.data, 3) {
                Some(parts) => {
                    for k in [0usize, 2, 1] {
                        deliver_now.push(Dgram { data: parts[k].clone(), from: d.from, to: d.to });
                    }
                }
                None => deliver_now.push(d.clone()),
            },
            Some(HFault::SplitFwd) | Some(HFault::SplitRev) => match split_datagram(&d.data) {
                Some((d1, d2)) => {
                    let x1 = Dgram { data: d1, from: d.from, to: d.to };
                    let x2 = Dgram { data: d2, from: d.from, to: d.to };
                    if fault == Some(HFault::SplitFwd) {
                        deliver_now.push(x1);
                        deliver_now.push(x2);
                    } else {
                        deliver_now.push(x2);
                        deliver_now.push(x1);
                    }
                }
                None => deliver_now.push(d.clone()),
            },
        }
        let newly_held = matches!(fault, Some(HFault::DupLate(_)) | Some(HFault::Swap));
        for x in deliver_now {
            sim::deliver(&a, &b, &x, &mut buf).await;
            if !newly_held {
                for hd in held.tick(dst) {
                    sim::deliver(&a, &b, &hd, &mut buf).await;
                }
            }
        }
    }
    obs.end_ms = now_ms(start);
    let sa = a.dtls.get_state();
    let sb = b.dtls.get_state();
    obs.state = [sim::state_name(&sa).to_string(), sim::state_name(&sb).to_string()];
    if let (DtlsState::Connected(ca, pa), DtlsState::Connected(cb, pb)) = (&sa, &sb) {
        obs.keys_equal = Some(ca.keys == cb.keys);
        obs.profile = [*pa, *pb];
        let ea = a.dtls.export_keying_material("EXTRACTOR-dtls_srtp", 60).ok();
        let eb = b.dtls.export_keying_material("EXTRACTOR-dtls_srtp", 60).ok();
        obs.exporter_equal = Some(ea.is_some() && ea == eb);
    }
    // application data round trip
    let drain = |e: &mut End| -> Vec<Bytes> {
        let mut v = vec![];
        if let Some(rx) = e.app_rx.as_mut() {
            while let Ok(x) = rx.try_recv() {
                v.push(x);
            }
        }
        v
    };
    let got_a = drain(&mut a);
    let got_b = drain(&mut b);
    if app_sent[0] {
        obs.app_ok[0] = Some(got_b.iter().any(|x| &x[..] == b"ping-from-A-0123456789"));
    }
    if app_sent[1] {
        obs.app_ok[1] = Some(got_a.iter().any(|x| &x[..] == b"ping-from-B-abcdefghij"));
    }
    obs.app_rx_extra = [got_a.iter().filter(|x| &x[..] != b"ping-from-B-abcdefghij").count(), got_b.iter().filter(|x| &x[..] != b"ping-from-A-0123456789").count()];
    hash(&format!("{:?}|{:?}|{:?}|{:?}", obs.state, obs.connected_at_ms, obs.keys_equal, obs.app_ok));
    obs.trace_hash = th;
    for h in a.tasks.drain(..) {
        h.abort();
    }
    for h in b.tasks.drain(..) {
        h.abort();
    }
    obs
}
