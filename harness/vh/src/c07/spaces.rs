//! Indexable input spaces. Every space is a finite sequence `0..len()` of byte strings, so a
//! sub-range can be handed to a child process, bisected after an abort, and replayed.

/// Two-position substitution values.
pub const SUB2: [u8; 6] = [0x00, 0x01, 0x7F, 0x80, 0xFE, 0xFF];

/// Values that replace a line value / a token in the text mutations (c).
pub fn text_replacements() -> Vec<String> {
    vec![
        "".into(),
        "0".into(),
        "65535".into(),
        "65536".into(),
        "-1".into(),
        "9".repeat(300),
        "255".into(),
        "256".into(),
        "4294967295".into(),
        "4294967296".into(),
        "18446744073709551616".into(),
        "\u{e9}\u{4e16}".into(),
    ]
}

/// Largest input the property talks about.
pub const MAX_INPUT: usize = 65535;

pub type FrameFn = fn(&[u8]) -> Vec<u8>;

#[derive(Clone)]
pub struct Frame {
    pub name: &'static str,
    pub wrap: FrameFn,
}

pub fn identity(b: &[u8]) -> Vec<u8> {
    b.to_vec()
}

#[derive(Clone)]
pub enum Space {
    /// (a) every string of length 0..=max_len over `alphabet`, passed through `frame`.
    Alpha { alphabet: Vec<u8>, max_len: usize, frame: Frame },
    /// (b1) every proper prefix of the seed (lengths 0..n-1) and the seed itself.
    Trunc { seed_name: String, seed: Vec<u8> },
    /// (b2) every position x every byte value.
    Sub1 { seed_name: String, seed: Vec<u8> },
    /// (b3) every pair of positions i<j out of `positions` x SUB2 x SUB2.
    Sub2 { seed_name: String, seed: Vec<u8>, positions: Vec<usize> },
    /// (d) frame(unit repeated up to total length n) for every unit in A^1 u A^2 and n in lens.
    Rep { alphabet: Vec<u8>, lens: Vec<usize>, frame: Frame },
    /// (c) explicit list (line deletions / duplications / value replacements are materialised).
    List { name: String, items: Vec<Vec<u8>> },
}

pub fn alpha_count(k: usize, max_len: usize) -> u64 {
    let mut t = 0u64;
    let mut p = 1u64;
    for _ in 0..=max_len {
        t += p;
        p = p.saturating_mul(k as u64);
    }
    t
}

/// Largest L with sum_{l<=L} k^l <= budget (at least 1).
pub fn alpha_len_for(k: usize, budget: u64) -> usize {
    let mut l = 1;
    while alpha_count(k, l + 1) <= budget {
        l += 1;
    }
    l
}

impl Space {
    pub fn kind(&self) -> &'static str {
        match self {
            Space::Alpha { .. } => "a:alphabet-strings",
            Space::Trunc { .. } => "b1:truncations",
            Space::Sub1 { .. } => "b2:1-byte-substitutions",
            Space::Sub2 { .. } => "b3:2-position-substitutions",
            Space::Rep { .. } => "d:repetitions",
            Space::List { .. } => "c:text-line-mutations",
        }
    }
    pub fn describe(&self) -> String {
        match self {
            Space::Alpha { alphabet, max_len, frame } => format!(
                "all strings len 0..={} over {{{}}} in frame {}",
                max_len,
                alphabet.iter().map(|b| format!("{b:02x}")).collect::<Vec<_>>().join(","),
                frame.name
            ),
            Space::Trunc { seed_name, seed } => format!("all {} prefixes of seed {}", seed.len() + 1, seed_name),
            Space::Sub1 { seed_name, seed } => format!("{} positions x 256 values of seed {}", seed.len(), seed_name),
            Space::Sub2 { seed_name, seed, positions } => {
                let which = if positions.len() == seed.len() {
                    "all positions".to_string()
                } else {
                    let head = positions.iter().enumerate().take_while(|(i, p)| *i == **p).count();
                    format!("positions 0..{} and {}..{}", head, seed.len() - (positions.len() - head), seed.len())
                };
                format!("all pairs of {} positions ({which}) x 6x6 values {{00,01,7f,80,fe,ff}} of seed {} ({} bytes)", positions.len(), seed_name, seed.len())
            }
            Space::Rep { alphabet, lens, frame } => format!(
                "units A^1 u A^2 (|A|={}) repeated to lengths {:?} in frame {}",
                alphabet.len(),
                lens,
                frame.name
            ),
            Space::List { name, items } => format!("{} ({} texts)", name, items.len()),
        }
    }
    pub fn len(&self) -> u64 {
        match self {
            Space::Alpha { alphabet, max_len, .. } => alpha_count(alphabet.len(), *max_len),
            Space::Trunc { seed, .. } => seed.len() as u64 + 1,
            Space::Sub1 { seed, .. } => seed.len() as u64 * 256,
            Space::Sub2 { positions, .. } => {
                let n = positions.len() as u64;
                n * n.saturating_sub(1) / 2 * 36
            }
            Space::Rep { alphabet, lens, .. } => {
                let k = alphabet.len() as u64;
                (k + k * k) * lens.len() as u64
            }
            Space::List { items, .. } => items.len() as u64,
        }
    }
    pub fn get(&self, idx: u64, out: &mut Vec<u8>) {
        out.clear();
        match self {
            Space::Alpha { alphabet, max_len, frame } => {
                let k = alphabet.len() as u64;
                let mut rem = idx;
                let mut l = 0usize;
                let mut p = 1u64;
                while l <= *max_len {
                    if rem < p {
                        break;
                    }
                    rem -= p;
                    p *= k;
                    l += 1;
                }
                let mut body = [0u8; 64];
                for i in (0..l).rev() {
                    body[i] = alphabet[(rem % k) as usize];
                    rem /= k;
                }
                if frame.name == "raw" {
                    out.extend_from_slice(&body[..l]);
                } else {
                    *out = (frame.wrap)(&body[..l]);
                }
            }
            Space::Trunc { seed, .. } => out.extend_from_slice(&seed[..idx as usize]),
            Space::Sub1 { seed, .. } => {
                out.extend_from_slice(seed);
                out[(idx / 256) as usize] = (idx % 256) as u8;
            }
            Space::Sub2 { seed, positions, .. } => {
                let v = (idx % 36) as usize;
                let mut pair = idx / 36;
                // pair index -> (i<j): row i has (n-1-i) entries
                let n = positions.len() as u64;
                let mut i = 0u64;
                loop {
                    let row = n - 1 - i;
                    if pair < row {
                        break;
                    }
                    pair -= row;
                    i += 1;
                }
                let j = i + 1 + pair;
                out.extend_from_slice(seed);
                out[positions[i as usize]] = SUB2[v / 6];
                out[positions[j as usize]] = SUB2[v % 6];
            }
            Space::Rep { alphabet, lens, frame } => {
                let k = alphabet.len() as u64;
                let units = k + k * k;
                let li = (idx / units) as usize;
                let u = idx % units;
                let unit: Vec<u8> = if u < k {
                    vec![alphabet[u as usize]]
                } else {
                    let u = u - k;
                    vec![alphabet[(u / k) as usize], alphabet[(u % k) as usize]]
                };
                // the property quantifies over inputs up to 64 KiB: shrink the body until the
                // framed input fits (token frames expand, binary frames add a header)
                let mut n = lens[li];
                for _ in 0..4 {
                    let mut body = Vec::with_capacity(n);
                    while body.len() < n {
                        body.push(unit[body.len() % unit.len()]);
                    }
                    *out = (frame.wrap)(&body);
                    if out.len() <= MAX_INPUT {
                        break;
                    }
                    n = (n as u64 * MAX_INPUT as u64 / out.len() as u64) as usize;
                    n = n.saturating_sub(1);
                }
                out.truncate(MAX_INPUT);
            }
            Space::List { items, .. } => out.extend_from_slice(&items[idx as usize]),
        }
    }
}

/// Positions used for the two-position substitutions: all of them for seeds up to `full`
/// bytes, otherwise the first `head` and the last `tail` positions.
pub fn sub2_positions(n: usize, full: usize, head: usize, tail: usize) -> Vec<usize> {
    if n <= full {
        (0..n).collect()
    } else {
        let mut v: Vec<usize> = (0..head.min(n)).collect();
        for p in n.saturating_sub(tail)..n {
            if !v.contains(&p) {
                v.push(p);
            }
        }
        v
    }
}

/// (c): line-level mutations of a text seed (lines split on "\r\n" or "\n").
pub fn text_line_mutations(seed: &str) -> Vec<Vec<u8>> {
    let eol = if seed.contains("\r\n") { "\r\n" } else { "\n" };
    let lines: Vec<&str> = seed.split(eol).filter(|l| !l.is_empty()).collect();
    let reps = text_replacements();
    let join = |ls: &[String]| -> Vec<u8> {
        let mut s = ls.join(eol);
        s.push_str(eol);
        s.into_bytes()
    };
    let base: Vec<String> = lines.iter().map(|s| s.to_string()).collect();
    let mut out = vec![];
    for i in 0..lines.len() {
        // delete
        let mut v = base.clone();
        v.remove(i);
        out.push(join(&v));
        // duplicate
        let mut v = base.clone();
        v.insert(i, base[i].clone());
        out.push(join(&v));
        // duplicate at the end (a repeated m-section / attribute far from the original)
        let mut v = base.clone();
        v.push(base[i].clone());
        out.push(join(&v));
        let line = lines[i];
        // value after "x=" and, for attributes, after "a=key:"
        let mut cut_points = vec![];
        if let Some(eq) = line.find('=') {
            cut_points.push(eq + 1);
            if let Some(colon) = line[eq + 1..].find(':') {
                cut_points.push(eq + 1 + colon + 1);
            }
        }
        for &cp in &cut_points {
            for r in &reps {
                let mut v = base.clone();
                v[i] = format!("{}{}", &line[..cp], r);
                out.push(join(&v));
            }
        }
        // every token of the value (split on the last cut point, separators ' ' '/' ';' ':' '=')
        if let Some(&cp) = cut_points.last() {
            let val = &line[cp..];
            let mut toks: Vec<(usize, usize)> = vec![];
            let mut start = None;
            for (k, ch) in val.char_indices() {
                let sep = matches!(ch, ' ' | '/' | ';' | ':' | '=' | ',');
                if sep {
                    if let Some(s) = start.take() {
                        toks.push((s, k));
                    }
                } else if start.is_none() {
                    start = Some(k);
                }
            }
            if let Some(s) = start {
                toks.push((s, val.len()));
            }
            if toks.len() > 1 {
                for (s, e) in toks {
                    for r in &reps {
                        let mut v = base.clone();
                        v[i] = format!("{}{}{}{}", &line[..cp], &val[..s], r, &val[e..]);
                        out.push(join(&v));
                    }
                }
            }
        }
    }
    out.sort();
    out.dedup();
    out
}
