//! Sweeps jobs (entry x input space) with the oracle; parent/child orchestration so that an
//! abort, stack overflow, OOM kill or hang is attributed to the input that caused it.
use super::oracle::{self, Meas, PanicRec, Probe, TIME_LIMIT_NS};
use super::spaces::Space;
use super::{Entry, Job};
use rayon::prelude::*;
use serde_json::{Value, json};
use std::collections::BTreeMap;
use std::io::{BufRead, Write};
use std::sync::atomic::{AtomicU64, Ordering};
use std::time::{Duration, Instant};

// ---------------------------------------------------------------------------------------
// per-job statistics
// ---------------------------------------------------------------------------------------

#[derive(Clone, Debug, Default)]
pub struct Agg {
    pub count: u64,
    pub min_input: Vec<u8>,
    pub value: u64,
}
impl Agg {
    fn offer(&mut self, input: &[u8], value: u64) {
        self.count += 1;
        if self.count == 1 || better(input, &self.min_input) {
            self.min_input = input.to_vec();
            self.value = value;
        }
    }
    fn merge(&mut self, o: &Agg) {
        if o.count == 0 {
            return;
        }
        if self.count == 0 || better(&o.min_input, &self.min_input) {
            self.min_input = o.min_input.clone();
            self.value = o.value;
        }
        self.count += o.count;
    }
}
/// shorter first, then lexicographically smaller: a deterministic minimum over an exhaustive set
fn better(a: &[u8], b: &[u8]) -> bool {
    (a.len(), a) < (b.len(), b)
}

pub type PanicKey = (String, u32, u32, String, String); // file, line, col, msg_class, func

fn key_of(p: &PanicRec) -> PanicKey {
    (p.file.clone(), p.line, p.col, p.msg_class.clone(), p.func.clone())
}

#[derive(Clone, Debug, Default)]
pub struct JobStats {
    pub evals: u64,
    pub classes: BTreeMap<u32, u64>,
    pub panics: BTreeMap<PanicKey, Agg>,
    pub task_panics: BTreeMap<PanicKey, Agg>,
    pub alloc: Agg,
    pub time: Agg,
    pub slowest_ns: u64,
    pub slowest_len: u64,
    pub max_alloc: u64,
    pub max_alloc_len: u64,
    /// first accepted (class != 0) input, as a sample
    pub sample_ok: Option<(u32, Vec<u8>)>,
    pub wall_ms: u64,
}

impl JobStats {
    pub fn merge(&mut self, o: &JobStats) {
        self.evals += o.evals;
        self.wall_ms += o.wall_ms;
        for (k, v) in &o.classes {
            *self.classes.entry(*k).or_default() += v;
        }
        for (k, v) in &o.panics {
            self.panics.entry(k.clone()).or_default().merge(v);
        }
        for (k, v) in &o.task_panics {
            self.task_panics.entry(k.clone()).or_default().merge(v);
        }
        self.alloc.merge(&o.alloc);
        self.time.merge(&o.time);
        if o.slowest_ns > self.slowest_ns {
            self.slowest_ns = o.slowest_ns;
            self.slowest_len = o.slowest_len;
        }
        if o.max_alloc > self.max_alloc {
            self.max_alloc = o.max_alloc;
            self.max_alloc_len = o.max_alloc_len;
        }
        match (&self.sample_ok, &o.sample_ok) {
            (None, Some(s)) => self.sample_ok = Some(s.clone()),
            (Some(a), Some(b)) if better(&b.1, &a.1) => self.sample_ok = Some(b.clone()),
            _ => {}
        }
    }
    fn agg_json(a: &Agg) -> Value {
        json!({"count": a.count, "min": crate::hex(&a.min_input), "value": a.value})
    }
    fn agg_from(v: &Value) -> Agg {
        Agg {
            count: v["count"].as_u64().unwrap_or(0),
            min_input: crate::unhex(v["min"].as_str().unwrap_or("")),
            value: v["value"].as_u64().unwrap_or(0),
        }
    }
    fn pmap_json(m: &BTreeMap<PanicKey, Agg>) -> Value {
        Value::Array(
            m.iter()
                .map(|(k, a)| json!({"file": k.0, "line": k.1, "col": k.2, "msg": k.3, "func": k.4, "agg": Self::agg_json(a)}))
                .collect(),
        )
    }
    fn pmap_from(v: &Value) -> BTreeMap<PanicKey, Agg> {
        let mut m = BTreeMap::new();
        for e in v.as_array().cloned().unwrap_or_default() {
            let k = (
                e["file"].as_str().unwrap_or("").to_string(),
                e["line"].as_u64().unwrap_or(0) as u32,
                e["col"].as_u64().unwrap_or(0) as u32,
                e["msg"].as_str().unwrap_or("").to_string(),
                e["func"].as_str().unwrap_or("").to_string(),
            );
            m.insert(k, Self::agg_from(&e["agg"]));
        }
        m
    }
    pub fn to_json(&self) -> Value {
        json!({
            "evals": self.evals, "wall_ms": self.wall_ms,
            "classes": self.classes.iter().map(|(k, v)| json!([k, v])).collect::<Vec<_>>(),
            "panics": Self::pmap_json(&self.panics),
            "task_panics": Self::pmap_json(&self.task_panics),
            "alloc": Self::agg_json(&self.alloc),
            "time": Self::agg_json(&self.time),
            "slowest_ns": self.slowest_ns, "slowest_len": self.slowest_len,
            "max_alloc": self.max_alloc, "max_alloc_len": self.max_alloc_len,
            "sample_ok": self.sample_ok.as_ref().map(|(c, b)| json!([c, crate::hex(b)])),
        })
    }
    pub fn from_json(v: &Value) -> JobStats {
        let mut s = JobStats { evals: v["evals"].as_u64().unwrap_or(0), ..Default::default() };
        for e in v["classes"].as_array().cloned().unwrap_or_default() {
            s.classes.insert(e[0].as_u64().unwrap_or(0) as u32, e[1].as_u64().unwrap_or(0));
        }
        s.panics = Self::pmap_from(&v["panics"]);
        s.task_panics = Self::pmap_from(&v["task_panics"]);
        s.alloc = Self::agg_from(&v["alloc"]);
        s.time = Self::agg_from(&v["time"]);
        s.wall_ms = v["wall_ms"].as_u64().unwrap_or(0);
        s.slowest_ns = v["slowest_ns"].as_u64().unwrap_or(0);
        s.slowest_len = v["slowest_len"].as_u64().unwrap_or(0);
        s.max_alloc = v["max_alloc"].as_u64().unwrap_or(0);
        s.max_alloc_len = v["max_alloc_len"].as_u64().unwrap_or(0);
        if let Some(a) = v["sample_ok"].as_array() {
            s.sample_ok = Some((a[0].as_u64().unwrap_or(0) as u32, crate::unhex(a[1].as_str().unwrap_or(""))));
        }
        s
    }
}

// ---------------------------------------------------------------------------------------
// one input
// ---------------------------------------------------------------------------------------

/// Runs one input and folds the verdict into `st`. Time and allocation excesses are confirmed
/// by re-running the same input (a descheduled thread or a lazily initialised thread-local
/// must not be reported); the smallest of the measurements counts.
pub fn eval_into(e: &Entry, input: &[u8], st: &mut JobStats) -> Meas {
    let mut m = oracle::measure(e.run, input);
    st.evals += 1;
    if let Some(p) = &m.panic {
        st.panics.entry(key_of(p)).or_default().offer(input, 0);
        return m;
    }
    if let Some(p) = &m.task_panic {
        st.task_panics.entry(key_of(p)).or_default().offer(input, 0);
    }
    *st.classes.entry(m.class).or_default() += 1;
    if m.class != 0 {
        let replace = match &st.sample_ok {
            None => true,
            Some((_, b)) => better(input, b),
        };
        if replace {
            st.sample_ok = Some((m.class, input.to_vec()));
        }
    }
    let limit = oracle::alloc_limit(input.len(), e.alloc_base);
    if super::alloc::installed() && m.bytes > limit {
        for _ in 0..2 {
            let m2 = oracle::measure(e.run, input);
            if m2.panic.is_none() && m2.bytes < m.bytes {
                m.bytes = m2.bytes;
            }
        }
        if m.bytes > limit {
            st.alloc.offer(input, m.bytes);
        }
    }
    if m.ns > TIME_LIMIT_NS {
        for _ in 0..3 {
            let m2 = oracle::measure(e.run, input);
            if m2.panic.is_none() && m2.ns < m.ns {
                m.ns = m2.ns;
            }
        }
        if m.ns > TIME_LIMIT_NS {
            st.time.offer(input, m.ns);
        }
    }
    if m.ns > 2_000_000 && m.ns <= TIME_LIMIT_NS && m.ns > st.slowest_ns {
        // a candidate for "slowest call": confirm, the first measurement may be scheduler noise
        for _ in 0..2 {
            let m2 = oracle::measure(e.run, input);
            if m2.panic.is_none() && m2.ns < m.ns {
                m.ns = m2.ns;
            }
        }
    }
    if m.ns > st.slowest_ns {
        st.slowest_ns = m.ns;
        st.slowest_len = input.len() as u64;
    }
    if m.bytes > st.max_alloc {
        st.max_alloc = m.bytes;
        st.max_alloc_len = input.len() as u64;
    }
    m
}

// ---------------------------------------------------------------------------------------
// watchdog (child side): a call that does not return within HANG_MS is a hang
// ---------------------------------------------------------------------------------------

const HANG_TICKS: u64 = 100; // x 100 ms
static TICK: AtomicU64 = AtomicU64::new(1);
const NSLOT: usize = 256;
static SLOT_IDX: [AtomicU64; NSLOT] = [const { AtomicU64::new(0) }; NSLOT];
static SLOT_TICK: [AtomicU64; NSLOT] = [const { AtomicU64::new(0) }; NSLOT];
static CUR_JOB: AtomicU64 = AtomicU64::new(0);

fn start_watchdog() {
    std::thread::spawn(|| {
        loop {
            std::thread::sleep(Duration::from_millis(100));
            let now = TICK.fetch_add(1, Ordering::Relaxed) + 1;
            for s in 0..NSLOT {
                let idx = SLOT_IDX[s].load(Ordering::Relaxed);
                if idx == 0 {
                    continue;
                }
                let t = SLOT_TICK[s].load(Ordering::Relaxed);
                if now > t + HANG_TICKS && SLOT_IDX[s].load(Ordering::Relaxed) == idx {
                    let out = std::io::stdout();
                    let mut o = out.lock();
                    let _ = writeln!(o, "HANG {} {}", CUR_JOB.load(Ordering::Relaxed), idx - 1);
                    let _ = o.flush();
                    std::process::exit(3);
                }
            }
        }
    });
}

// ---------------------------------------------------------------------------------------
// one job (range of a space)
// ---------------------------------------------------------------------------------------

pub fn run_range(e: &Entry, space: &Space, lo: u64, hi: u64) -> JobStats {
    let heavy = e.cost_us > 100.0;
    let chunk: u64 = if heavy { 1 } else { 2048 };
    let nchunks = (hi - lo).div_ceil(chunk);
    (0..nchunks)
        .into_par_iter()
        .fold(
            || (JobStats::default(), Vec::<u8>::with_capacity(256)),
            |(mut st, mut buf), c| {
                let slot = rayon::current_thread_index().unwrap_or(NSLOT - 1).min(NSLOT - 1);
                let a = lo + c * chunk;
                let b = (a + chunk).min(hi);
                for idx in a..b {
                    let made = std::panic::catch_unwind(std::panic::AssertUnwindSafe(|| space.get(idx, &mut buf)));
                    if made.is_err() {
                        crate::machinery_failure(&format!(
                            "input generator panicked: entry {} space {} index {idx}: {}",
                            e.name,
                            space.describe(),
                            crate::LAST_PANIC_GLOBAL.lock().map(|g| g.clone()).unwrap_or_default()
                        ));
                    }
                    SLOT_TICK[slot].store(TICK.load(Ordering::Relaxed), Ordering::Relaxed);
                    SLOT_IDX[slot].store(idx + 1, Ordering::Relaxed);
                    eval_into(e, &buf, &mut st);
                    SLOT_IDX[slot].store(0, Ordering::Relaxed);
                }
                (st, buf)
            },
        )
        .map(|(st, _)| st)
        .reduce(JobStats::default, |mut a, b| {
            a.merge(&b);
            a
        })
}

// ---------------------------------------------------------------------------------------
// child process
// ---------------------------------------------------------------------------------------

/// `--child --from J` runs jobs J.. ; `--child --job J --range LO HI` runs one sub-range.
pub fn child_main(entries: &[Entry], jobs: &[Job], args: &[String]) -> ! {
    start_watchdog();
    let get = |flag: &str, k: usize| -> Option<u64> {
        args.iter().position(|a| a == flag).and_then(|p| args.get(p + k)).and_then(|s| s.parse().ok())
    };
    let out = std::io::stdout();
    let emit = |line: String| {
        let mut o = out.lock();
        let _ = writeln!(o, "{line}");
        let _ = o.flush();
    };
    if let Some(j) = get("--job", 1) {
        let j = j as usize;
        let lo = get("--range", 1).unwrap_or(0);
        let hi = get("--range", 2).unwrap_or(jobs[j].space.len());
        CUR_JOB.store(j as u64, Ordering::Relaxed);
        emit(format!("BEGIN {j}"));
        let st = run_range(&entries[jobs[j].entry], &jobs[j].space, lo, hi);
        emit(format!("END {j} {}", st.to_json()));
        std::process::exit(0);
    }
    let from = get("--from", 1).unwrap_or(0) as usize;
    for j in from..jobs.len() {
        CUR_JOB.store(j as u64, Ordering::Relaxed);
        emit(format!("BEGIN {j}"));
        let t0 = Instant::now();
        let mut st = run_range(&entries[jobs[j].entry], &jobs[j].space, 0, jobs[j].space.len());
        st.wall_ms = t0.elapsed().as_millis() as u64;
        emit(format!("END {j} {}", st.to_json()));
    }
    emit("DONE".to_string());
    std::process::exit(0);
}

// ---------------------------------------------------------------------------------------
// parent process
// ---------------------------------------------------------------------------------------

#[derive(Debug)]
enum ChildEnd {
    Done,
    /// child died (signal / abort / nonzero exit) while this job was running
    Died { job: Option<usize>, how: String },
    Hang { job: usize, idx: u64 },
    Timeout { job: Option<usize> },
}

fn spawn_child(tier: &str, extra: &[String], deadline: Duration, mut on_end: impl FnMut(usize, JobStats)) -> ChildEnd {
    let exe = std::env::current_exe().unwrap_or_else(|e| crate::machinery_failure(&format!("current_exe: {e}")));
    let mut cmd = std::process::Command::new(exe);
    cmd.arg("--tier").arg(tier).arg("--child").args(extra);
    cmd.stdout(std::process::Stdio::piped()).stderr(std::process::Stdio::null());
    let mut child = cmd.spawn().unwrap_or_else(|e| crate::machinery_failure(&format!("cannot spawn child: {e}")));
    let stdout = child.stdout.take().unwrap();
    let (tx, rx) = std::sync::mpsc::channel::<String>();
    let reader = std::thread::spawn(move || {
        let r = std::io::BufReader::new(stdout);
        for l in r.lines().map_while(Result::ok) {
            if tx.send(l).is_err() {
                break;
            }
        }
    });
    let start = Instant::now();
    let mut cur: Option<usize> = None;
    let mut result = None;
    loop {
        let left = deadline.checked_sub(start.elapsed()).unwrap_or(Duration::ZERO);
        match rx.recv_timeout(left.max(Duration::from_millis(1))) {
            Ok(l) => {
                if let Some(r) = l.strip_prefix("BEGIN ") {
                    cur = r.trim().parse().ok();
                } else if let Some(r) = l.strip_prefix("END ") {
                    if let Some((j, js)) = r.split_once(' ') {
                        if let (Ok(j), Ok(v)) = (j.parse::<usize>(), serde_json::from_str::<Value>(js)) {
                            on_end(j, JobStats::from_json(&v));
                            cur = None;
                        }
                    }
                } else if let Some(r) = l.strip_prefix("HANG ") {
                    let mut it = r.split_whitespace();
                    let j = it.next().and_then(|s| s.parse().ok()).unwrap_or(0);
                    let i = it.next().and_then(|s| s.parse().ok()).unwrap_or(0);
                    result = Some(ChildEnd::Hang { job: j, idx: i });
                } else if l.starts_with("MACHINERY-FAILURE") {
                    let _ = child.kill();
                    crate::machinery_failure(&format!("child: {l}"));
                } else if l == "DONE" {
                    result = Some(ChildEnd::Done);
                }
            }
            Err(std::sync::mpsc::RecvTimeoutError::Timeout) => {
                if start.elapsed() >= deadline {
                    let _ = child.kill();
                    let _ = child.wait();
                    let _ = reader.join();
                    return ChildEnd::Timeout { job: cur };
                }
            }
            Err(std::sync::mpsc::RecvTimeoutError::Disconnected) => break,
        }
    }
    let status = child.wait();
    let _ = reader.join();
    if let Some(r) = result {
        return r;
    }
    match status {
        Ok(s) if s.success() => ChildEnd::Done,
        Ok(s) => {
            use std::os::unix::process::ExitStatusExt;
            if s.code() == Some(2) {
                crate::machinery_failure("child reported a machinery failure");
            }
            ChildEnd::Died { job: cur, how: format!("exit={:?} signal={:?}", s.code(), s.signal()) }
        }
        Err(e) => ChildEnd::Died { job: cur, how: format!("wait failed: {e}") },
    }
}

#[derive(Clone, Debug)]
pub struct Incident {
    pub job: usize,
    pub kind: &'static str, // "abort" | "hang"
    pub input: Vec<u8>,
    pub how: String,
}

pub struct SweepResult {
    pub stats: Vec<Option<JobStats>>,
    pub incomplete: Vec<(usize, String)>,
    pub incidents: Vec<Incident>,
}

fn run_one_range(tier: &str, j: usize, lo: u64, hi: u64, deadline: Duration) -> (Option<JobStats>, ChildEnd) {
    let mut got = None;
    let end = spawn_child(
        tier,
        &["--job".into(), j.to_string(), "--range".into(), lo.to_string(), hi.to_string()],
        deadline,
        |_, st| got = Some(st),
    );
    (got, end)
}

/// After a child died inside job `j`: find the inputs responsible by bisection over the index
/// range (each probe is a fresh child), collect statistics of everything else.
fn recover_job(tier: &str, jobs: &[Job], j: usize, first: ChildEnd, res: &mut SweepResult, per_child: Duration) {
    let space = &jobs[j].space;
    let total = space.len();
    let mut acc = JobStats::default();
    let mut queue: Vec<(u64, u64)> = vec![(0, total)];
    let mut pending_first = Some(first);
    let mut incidents = 0;
    while let Some((lo, hi)) = queue.pop() {
        if lo >= hi {
            continue;
        }
        let (st, end) = match pending_first.take() {
            Some(ChildEnd::Hang { idx, .. }) => (None, ChildEnd::Hang { job: j, idx }),
            _ => run_one_range(tier, j, lo, hi, per_child),
        };
        match end {
            ChildEnd::Done => {
                if let Some(st) = st {
                    acc.merge(&st);
                }
            }
            ChildEnd::Hang { idx, .. } => {
                let mut buf = vec![];
                space.get(idx, &mut buf);
                res.incidents.push(Incident { job: j, kind: "hang", input: buf, how: "call did not return within 10 s".into() });
                incidents += 1;
                if incidents >= 4 {
                    res.incomplete.push((j, "more than 3 hangs/aborts in this job".into()));
                    return;
                }
                // everything except idx still has to run
                queue.push((idx + 1, hi));
                queue.push((lo, idx));
            }
            other => {
                let how = match &other {
                    ChildEnd::Died { how, .. } => how.clone(),
                    _ => "child killed after its deadline".to_string(),
                };
                if hi - lo == 1 {
                    let mut buf = vec![];
                    space.get(lo, &mut buf);
                    res.incidents.push(Incident { job: j, kind: "abort", input: buf, how });
                    incidents += 1;
                    if incidents >= 4 {
                        res.incomplete.push((j, "more than 3 hangs/aborts in this job".into()));
                        return;
                    }
                } else {
                    let mid = lo + (hi - lo) / 2;
                    queue.push((mid, hi));
                    queue.push((lo, mid));
                }
            }
        }
    }
    res.stats[j] = Some(acc);
}
pub fn parent_sweep(tier: &str, jobs: &[Job], deadline: Duration) -> SweepResult {
    let mut res = SweepResult { stats: vec![None; jobs.len()], incomplete: vec![], incidents: vec![] };
    let mut next = 0usize;
    let start = Instant::now();
    while next < jobs.len() {
        let left = deadline.checked_sub(start.elapsed()).unwrap_or(Duration::from_secs(1));
        let mut last_done: Option<usize> = None;
        let end = {
            let stats = &mut res.stats;
            spawn_child(tier, &["--from".into(), next.to_string()], left, |j, st| {
                if j < stats.len() {
                    stats[j] = Some(st);
                    last_done = Some(j);
                }
            })
        };
        if let Some(j) = last_done {
            next = j + 1;
        }
        match end {
            ChildEnd::Done => break,
            ChildEnd::Timeout { .. } => {
                for j in next..jobs.len() {
                    res.incomplete.push((j, "overall deadline reached".into()));
                }
                break;
            }
            ChildEnd::Hang { job, idx } => {
                recover_job(tier, jobs, job, ChildEnd::Hang { job, idx }, &mut res, Duration::from_secs(600));
                next = job + 1;
            }
            ChildEnd::Died { job, how } => {
                let j = job.unwrap_or(next);
                recover_job(tier, jobs, j, ChildEnd::Died { job: Some(j), how }, &mut res, Duration::from_secs(600));
                next = j + 1;
            }
        }
    }
    res
}

// ---------------------------------------------------------------------------------------
// minimisation (post-processing, not a deciding step)
// ---------------------------------------------------------------------------------------

/// Greedy delta-debugging: drop chunks, then single bytes, then zero bytes, while the same
/// panic site (file, line, column, message class) keeps firing.
pub fn shrink_panic(e: &Entry, input: &[u8], key: &PanicKey, max_evals: u64) -> Vec<u8> {
    let evals = std::cell::Cell::new(0u64);
    let same = |inp: &[u8]| -> bool {
        evals.set(evals.get() + 1);
        let m = oracle::measure(e.run, inp);
        match &m.panic {
            Some(p) => p.file == key.0 && p.line == key.1 && p.col == key.2 && p.msg_class == key.3,
            None => false,
        }
    };
    let mut cur = input.to_vec();
    if !same(&cur) {
        return cur;
    }
    let mut chunk = (cur.len() / 2).max(1);
    loop {
        let mut pos = cur.len();
        let mut progress = false;
        while pos > 0 {
            if evals.get() > max_evals {
                return cur;
            }
            let a = pos.saturating_sub(chunk);
            let mut cand = cur[..a].to_vec();
            cand.extend_from_slice(&cur[pos..]);
            if same(&cand) {
                cur = cand;
                progress = true;
            }
            pos = a.min(cur.len());
        }
        if !progress {
            if chunk == 1 {
                break;
            }
            chunk = (chunk / 2).max(1);
        }
    }
    if !e.text {
        for i in 0..cur.len() {
            if evals.get() > max_evals {
                break;
            }
            if cur[i] != 0 {
                let old = cur[i];
                cur[i] = 0;
                if !same(&cur) {
                    cur[i] = old;
                }
            }
        }
    }
    cur
}

/// Greedy chunk removal while `still` holds (used for allocation / time excesses).
pub fn shrink_while(input: &[u8], max_evals: u64, mut still: impl FnMut(&[u8]) -> bool) -> Vec<u8> {
    let mut evals = 0u64;
    let mut cur = input.to_vec();
    let mut chunk = (cur.len() / 2).max(1);
    loop {
        let mut pos = cur.len();
        let mut progress = false;
        while pos > 0 {
            evals += 1;
            if evals > max_evals {
                return cur;
            }
            let a = pos.saturating_sub(chunk);
            let mut cand = cur[..a].to_vec();
            cand.extend_from_slice(&cur[pos..]);
            if still(&cand) {
                cur = cand;
                progress = true;
            }
            pos = a.min(cur.len());
        }
        if !progress {
            if chunk == 1 {
                break;
            }
            chunk = (chunk / 2).max(1);
        }
    }
    cur
}

// ---------------------------------------------------------------------------------------
// self-test entries (C07_SELFTEST=1): prove that abort / hang / alloc / time attribution works
// ---------------------------------------------------------------------------------------

fn run_selftest(i: &[u8], _p: &mut Probe) -> u32 {
    match i {
        [0xAB, 0x01, 0xAB] => std::process::abort(),
        [0xAB, 0x02, 0xAB] => loop {
            std::thread::sleep(Duration::from_millis(50));
        },
        [0xAB, 0x03, 0xAB] => {
            let v = vec![1u8; 8 << 20];
            std::hint::black_box(&v);
            3
        }
        [0xAB, 0x04, 0xAB] => {
            std::thread::sleep(Duration::from_millis(80));
            4
        }
        [0xAB, 0x05, 0xAB] => {
            fn rec(n: u64) -> u64 {
                let a = [n; 64];
                std::hint::black_box(&a);
                if n == u64::MAX { 0 } else { rec(n + 1) + a[3] }
            }
            rec(0) as u32
        }
        _ => (i.len() % 2) as u32,
    }
}
pub fn selftest_entries() -> Vec<Entry> {
    vec![Entry::new("selftest", "none", run_selftest, &[0xAB, 0x01, 0x02, 0x03, 0x04, 0x05])]
}
