//! C07 — totality of every network-facing decoder (decoder part, engine E4).
//!
//! `entries_bin` / `entries_text` / `entries_pc` register the entry points (one narrow wrapper
//! around each public decoder or "parse then operate" chain of rustrtc); `spaces` defines the
//! indexable input spaces; `oracle` runs one input; `driver` sweeps jobs, in a child process
//! so that an abort / stack overflow / hang is attributed to an input.
pub mod alloc;
pub mod driver;
pub mod entries_bin;
pub mod entries_hist;
pub mod entries_pc;
pub mod entries_text;
pub mod entries_transport;
pub mod oracle;
pub mod spaces;

use oracle::RunFn;
use spaces::{Frame, Space, identity};

pub struct Entry {
    pub name: &'static str,
    /// Which anchor of the property it covers.
    pub anchor: &'static str,
    pub run: RunFn,
    pub alphabet: Vec<u8>,
    /// Frames for the alphabet strings; `raw` (identity) is always added first.
    pub frames: Vec<Frame>,
    /// Seed messages (name, bytes), produced by rustrtc's own encoders unless the name starts
    /// with `hand:`.
    pub seeds: Vec<(String, Vec<u8>)>,
    /// Text entry: seeds additionally get the line/token mutations (c).
    pub text: bool,
    /// Rough cost of one call in microseconds; budgets are divided by it.
    pub cost_us: f64,
    /// Constant part of the allocation bound (default 64 KiB).
    pub alloc_base: u64,
    /// Skip the (expensive) 1-/2-position substitution spaces for this entry in the quick tier.
    pub quick_no_sub: bool,
}

impl Entry {
    pub fn new(name: &'static str, anchor: &'static str, run: RunFn, alphabet: &[u8]) -> Self {
        Entry {
            name,
            anchor,
            run,
            alphabet: alphabet.to_vec(),
            frames: vec![],
            seeds: vec![],
            text: false,
            cost_us: 0.3,
            alloc_base: oracle::ALLOC_BASE,
            quick_no_sub: false,
        }
    }
    pub fn frame(mut self, name: &'static str, wrap: spaces::FrameFn) -> Self {
        self.frames.push(Frame { name, wrap });
        self
    }
    pub fn seed(mut self, name: &str, bytes: Vec<u8>) -> Self {
        self.seeds.push((name.to_string(), bytes));
        self
    }
    pub fn seeds(mut self, s: Vec<(String, Vec<u8>)>) -> Self {
        self.seeds.extend(s);
        self
    }
    pub fn text(mut self) -> Self {
        self.text = true;
        self
    }
    pub fn cost(mut self, us: f64) -> Self {
        self.cost_us = us;
        self
    }
    pub fn alloc_base(mut self, b: u64) -> Self {
        self.alloc_base = b;
        self
    }
    pub fn no_sub_in_quick(mut self) -> Self {
        self.quick_no_sub = true;
        self
    }
}

pub struct Job {
    pub entry: usize,
    pub space: Space,
}

pub fn all_entries() -> Vec<Entry> {
    let mut v = vec![];
    v.extend(entries_bin::entries());
    v.extend(entries_transport::entries());
    v.extend(entries_hist::entries());
    v.extend(entries_text::entries());
    v.extend(entries_pc::entries());
    if std::env::var("C07_SELFTEST").is_ok() {
        v.extend(driver::selftest_entries());
    }
    if let Ok(only) = std::env::var("C07_ONLY") {
        let pats: Vec<&str> = only.split(',').collect();
        v.retain(|e| pats.iter().any(|p| e.name.contains(p)));
    }
    v
}

/// The deterministic job list of a tier (the child process rebuilds the same list).
pub fn jobs(entries: &[Entry], thorough: bool) -> Vec<Job> {
    let mut out = vec![];
    let alpha_budget: f64 = if thorough { 4.0e7 } else { 2.5e6 };
    let sub_budget: f64 = if thorough { 6.0e7 } else { 4.0e6 };
    for (ei, e) in entries.iter().enumerate() {
        let scale = (0.3 / e.cost_us).min(1.0);
        // (a) alphabet strings, raw and framed
        let mut frames = vec![Frame { name: "raw", wrap: identity }];
        frames.extend(e.frames.iter().cloned());
        let k = e.alphabet.len();
        if k >= 2 {
            let nfr = frames.len() as f64;
            // every frame gets the full budget up to 4 frames, then the budget is shared
            let per_frame = (alpha_budget * scale * (4.0 / nfr).min(1.0)).max(1500.0);
            let l = spaces::alpha_len_for(k, per_frame as u64).min(60);
            for f in &frames {
                out.push(Job {
                    entry: ei,
                    space: Space::Alpha { alphabet: e.alphabet.clone(), max_len: l, frame: f.clone() },
                });
            }
            // (d) long repetitions
            let lens: Vec<usize> = if e.cost_us > 100.0 {
                vec![1500]
            } else if thorough {
                vec![255, 256, 1500, 16384, 65535]
            } else {
                vec![256, 1500, 65535]
            };
            for f in &frames {
                out.push(Job {
                    entry: ei,
                    space: Space::Rep { alphabet: e.alphabet.clone(), lens: lens.clone(), frame: f.clone() },
                });
            }
        }
        // (b) seed mutations
        let nseeds = e.seeds.len().max(1) as f64;
        for (name, seed) in &e.seeds {
            out.push(Job { entry: ei, space: Space::Trunc { seed_name: name.clone(), seed: seed.clone() } });
            // quick tier: substitution spaces are skipped for heavy entries and for seeds longer
            // than 1200 bytes (the big WebRTC SDPs); the thorough tier runs all of them
            if !thorough && (e.quick_no_sub || seed.len() > 1200) {
                continue;
            }
            out.push(Job { entry: ei, space: Space::Sub1 { seed_name: name.clone(), seed: seed.clone() } });
            // two-position substitutions: all positions of short seeds, head+tail of long ones;
            // the per-seed budget bounds the number of positions.
            let per_seed = sub_budget * scale / nseeds;
            let max_pos = (((per_seed / 18.0).sqrt()) as usize).max(8);
            let full = max_pos.min(if thorough { 512 } else { 160 });
            let positions = spaces::sub2_positions(seed.len(), full, full * 3 / 4, full / 4);
            if positions.len() >= 2 {
                out.push(Job {
                    entry: ei,
                    space: Space::Sub2 { seed_name: name.clone(), seed: seed.clone(), positions },
                });
            }
        }
        // (c) text line / token mutations
        if e.text {
            for (name, seed) in &e.seeds {
                if let Ok(s) = std::str::from_utf8(seed) {
                    let items = spaces::text_line_mutations(s);
                    out.push(Job {
                        entry: ei,
                        space: Space::List { name: format!("line/token mutations of {name}"), items },
                    });
                }
            }
        }
    }
    out
}

/// Hook for the live-endpoint part (E2 simulator injection), built separately.
pub fn live_part(_rep: &mut crate::Report, _thorough: bool) {}
