//! Text entry points: SDP, attribute parsers, ICE candidate lines, fmtp apt.
//!
//! All these APIs take `&str`; bytes that are not UTF-8 cannot be delivered to them, so byte
//! mutations are converted with `from_utf8_lossy` (each invalid byte becomes U+FFFD, which
//! also exercises multi-byte characters in slicing code).
use super::Entry;
use super::oracle::Probe;
use rustrtc::sdp::{Attribute, CryptoAttribute, Origin, Rid, SdpFingerprint, Simulcast, Timing};
use rustrtc::{IceCandidate, SdpType, SessionDescription};

fn txt(i: &[u8]) -> std::borrow::Cow<'_, str> {
    String::from_utf8_lossy(i)
}

/// Frame helper: each body byte selects a token; tokens are joined with `sep`.
fn toks(b: &[u8], table: &[&str], sep: &str) -> String {
    b.iter().map(|x| table[*x as usize % table.len()]).collect::<Vec<_>>().join(sep)
}
/// Token alphabets are index bytes 0..k.
const IDX9: [u8; 9] = [0, 1, 2, 3, 4, 5, 6, 7, 8];
const IDX8: [u8; 8] = [0, 1, 2, 3, 4, 5, 6, 7];

pub const SDP_HEAD: &str = "v=0\r\no=- 1 1 IN IP4 127.0.0.1\r\ns=-\r\nt=0 0\r\n";

// ---- SessionDescription::parse ---------------------------------------------------------

const SDP_CHARS: [u8; 9] = [b'v', b'=', b'0', b'\n', b' ', b'a', b'm', b':', b'9'];

fn run_sdp_parse(i: &[u8], _p: &mut Probe) -> u32 {
    let s = txt(i);
    let mut c = 0;
    for (k, t) in [SdpType::Offer, SdpType::Answer].into_iter().enumerate() {
        if let Ok(d) = SessionDescription::parse(t, &s) {
            c |= (1 + d.media_sections.len().min(3) as u32) << (2 * k);
        }
    }
    c
}
fn run_sdp_accessors(i: &[u8], _p: &mut Probe) -> u32 {
    let s = txt(i);
    let _ = rustrtc::parse_bundle_mid_info(&s);
    let _ = rustrtc::modify_sdp_direction(&s, "sendonly");
    let Ok(d) = SessionDescription::parse(SdpType::Offer, &s) else { return 0 };
    let out = d.to_sdp_string();
    let re = SessionDescription::parse(SdpType::Offer, &out).is_ok();
    let fp = d.dtls_fingerprint().is_ok();
    let mut n = 0usize;
    n += d.to_video_capabilities().len();
    n += d.to_audio_capabilities().len();
    n += d.to_image_capabilities().len();
    let _ = d.first_audio_section();
    let _ = d.first_video_section();
    let _ = d.first_image_section();
    for m in &d.media_sections {
        n += m.get_crypto_attributes().len();
        let _ = m.get_extmap_id(rustrtc::SDES_MID_URI);
        let _ = rustrtc::rtx::extract_rtx_apt_map_from_attrs(&m.attributes);
        for a in &m.attributes {
            if let Some(v) = &a.value {
                match a.key.as_str() {
                    "rid" => n += Rid::parse(v).is_some() as usize,
                    "simulcast" => n += Simulcast::parse(v).is_some() as usize,
                    "candidate" => n += IceCandidate::from_sdp(v).is_ok() as usize,
                    "fingerprint" => n += SdpFingerprint::parse(v).is_ok() as usize,
                    _ => {}
                }
            }
        }
        let mut m2 = m.clone();
        m2.apply_config(&rustrtc::RtcConfiguration::default());
        m2.add_dtls_attributes("sha-256 AA:BB", "active");
        m2.add_video_extmaps(Some("10".into()), Some("11".into()));
    }
    let mut d2 = d.clone();
    d2.add_candidates(&["candidate:1 1 udp 1 127.0.0.1 9 typ host".to_string()]);
    d2.add_candidates_incremental(&["candidate:2 1 udp 1 127.0.0.1 10 typ host".to_string()]);
    1 + (re as u32) + 2 * (fp as u32) + 4 * (n.min(15) as u32) + 64 * d.media_sections.len().min(3) as u32
}

/// valid session part, then the enumerated characters
fn fr_sdp_after_head(b: &[u8]) -> Vec<u8> {
    let mut s = SDP_HEAD.as_bytes().to_vec();
    s.extend_from_slice(b);
    s
}
const M_TOK: [&str; 9] = ["audio", "video", "application", "image", "9", "0", "65536", "UDP/TLS/RTP/SAVPF", "96"];
/// valid session part + `m=` line made of tokens
fn fr_sdp_mline(b: &[u8]) -> Vec<u8> {
    format!("{SDP_HEAD}m={}\r\na=mid:0\r\n", toks(b, &M_TOK, " ")).into_bytes()
}
const ATTR_KEYS: [&str; 22] = [
    "rtpmap", "fmtp", "rtcp-fb", "extmap", "rid", "simulcast", "crypto", "ssrc", "mid", "fingerprint", "candidate", "setup",
    "msid", "ssrc-group", "sctp-port", "group", "T38FaxVersion", "T38MaxBitRate", "T38FaxUdpEC", "T38FaxRateManagement",
    "T38FaxMaxBuffer", "T38FaxMaxDatagram",
];
/// attribute key from the first two bytes (k = b0*9+b1), the rest are value tokens
fn key_and_rest(b: &[u8]) -> (usize, &[u8]) {
    match b {
        [] => (0, &[][..]),
        [a] => (*a as usize, &[][..]),
        [a, c, rest @ ..] => (*a as usize * 9 + *c as usize, rest),
    }
}
const ATTR_TOK: [&str; 9] = ["96", "*", "VP8/90000", "apt=96", "send", "1", "-1", "65536", "urn:ietf:params:rtp-hdrext:sdes:mid"];
/// one attribute line in a video section: key from the first byte, value tokens from the rest
fn fr_sdp_attr(b: &[u8]) -> Vec<u8> {
    let (k, rest) = key_and_rest(b);
    format!(
        "{SDP_HEAD}m=video 9 UDP/TLS/RTP/SAVPF 96 97\r\nc=IN IP4 0.0.0.0\r\na={}:{}\r\na=sendrecv\r\n",
        ATTR_KEYS[k % ATTR_KEYS.len()],
        toks(rest, &ATTR_TOK, " ")
    )
    .into_bytes()
}
/// one attribute line in a T.38 image section
fn fr_sdp_image_attr(b: &[u8]) -> Vec<u8> {
    let (k, rest) = key_and_rest(b);
    format!(
        "{SDP_HEAD}m=image 4000 udptl t38\r\nc=IN IP4 127.0.0.1\r\na={}:{}\r\n",
        ATTR_KEYS[k % ATTR_KEYS.len()],
        toks(rest, &ATTR_TOK, " ")
    )
    .into_bytes()
}
/// same attribute at session level
fn fr_sdp_session_attr(b: &[u8]) -> Vec<u8> {
    let (k, rest) = key_and_rest(b);
    format!(
        "{SDP_HEAD}a={}:{}\r\nm=audio 9 RTP/AVP 0\r\n",
        ATTR_KEYS[k % ATTR_KEYS.len()],
        toks(rest, &ATTR_TOK, " ")
    )
    .into_bytes()
}

// ---- small attribute parsers -----------------------------------------------------------

macro_rules! str_entry {
    ($f:ident, $call:expr) => {
        fn $f(i: &[u8], _p: &mut Probe) -> u32 {
            let s = txt(i);
            let f = $call;
            f(&s)
        }
    };
}
str_entry!(run_simulcast, |s: &str| match Simulcast::parse(s) {
    Some(x) => 1 + x.send.len().min(3) as u32 + 4 * x.recv.len().min(3) as u32,
    None => 0,
});
str_entry!(run_rid, |s: &str| match Rid::parse(s) {
    Some(x) => 1 + x.params.len().min(6) as u32,
    None => 0,
});
str_entry!(run_crypto, |s: &str| match CryptoAttribute::parse(s) {
    Some(x) => 1 + x.session_params.is_some() as u32,
    None => 0,
});
str_entry!(run_fingerprint, |s: &str| SdpFingerprint::parse(s).is_ok() as u32);
str_entry!(run_origin, |s: &str| Origin::parse(s).is_ok() as u32);
str_entry!(run_timing, |s: &str| Timing::parse(s).is_ok() as u32);
str_entry!(run_attr_from_line, |s: &str| {
    let a = Attribute::from_line(s);
    1 + a.value.is_some() as u32
});
str_entry!(run_parse_apt, |s: &str| {
    let a = rustrtc::rtx::parse_apt(s).is_some() as u32;
    let m = rustrtc::rtx::extract_rtx_apt_map(&[("fmtp".to_string(), Some(s.to_string()))]);
    1 + a + 2 * m.len().min(1) as u32
});
str_entry!(run_candidate, |s: &str| match IceCandidate::from_sdp(s) {
    Ok(c) => {
        let out = c.to_sdp();
        let again = IceCandidate::from_sdp(&out).is_ok();
        1 + again as u32 + 2 * c.related_address.is_some() as u32 + 4 * c.tcp_type.is_some() as u32
    }
    Err(_) => 0,
});

const SIM_TOK: [&str; 8] = ["send", "recv", "1", "~2", "1;2", ";", "", "a,b"];
fn fr_simulcast(b: &[u8]) -> Vec<u8> {
    toks(b, &SIM_TOK, " ").into_bytes()
}
const RID_TOK: [&str; 8] = ["1", "sendonly", "recv", "pt=96", "max-width=1280;max-height", ";", "=", "pt=96;;x="];
fn fr_rid(b: &[u8]) -> Vec<u8> {
    toks(b, &RID_TOK, " ").into_bytes()
}
const CRYPTO_TOK: [&str; 8] =
    ["1", "65536", "AES_CM_128_HMAC_SHA1_80", "inline:AAAAAAAAAAAAAAAAAAAAAAAAAAAAAAAAAAAAAAAA", "inline:", "|2^20|1:4", "-1", "KDR=1"];
fn fr_crypto(b: &[u8]) -> Vec<u8> {
    toks(b, &CRYPTO_TOK, " ").into_bytes()
}
const FP_TOK: [&str; 8] = ["sha-256", "AA:BB", "A", ":", "zz", "AA:BB:CC", "", "\u{e9}\u{e9}"];
fn fr_fingerprint(b: &[u8]) -> Vec<u8> {
    toks(b, &FP_TOK, " ").into_bytes()
}
const ORIGIN_TOK: [&str; 8] = ["-", "1", "18446744073709551616", "IN", "IP4", "IP6", "127.0.0.1", "-1"];
fn fr_origin(b: &[u8]) -> Vec<u8> {
    toks(b, &ORIGIN_TOK, " ").into_bytes()
}
const CAND_TOK: [&str; 9] = ["1", "udp", "tcp", "65536", "127.0.0.1", "::1", "typ", "host", "srflx"];
fn fr_candidate_tokens(b: &[u8]) -> Vec<u8> {
    toks(b, &CAND_TOK, " ").into_bytes()
}
const CAND_TAIL_TOK: [&str; 9] = ["raddr", "rport", "tcptype", "active", "1.2.3.4", "::", "65536", "generation", "0"];
/// a valid 8-token srflx/tcp candidate, then tokens
fn fr_candidate_tail(b: &[u8]) -> Vec<u8> {
    format!("candidate:1 1 tcp 2130706431 192.0.2.1 9 typ srflx {}", toks(b, &CAND_TAIL_TOK, " ")).into_bytes()
}
/// token k of a valid 8-token line replaced: first byte selects the position, second the value
fn fr_candidate_replace(b: &[u8]) -> Vec<u8> {
    let mut parts: Vec<String> =
        "candidate:1 1 udp 2130706431 192.0.2.1 9 typ relay raddr 10.0.0.1 rport 7".split(' ').map(|s| s.to_string()).collect();
    const VALS: [&str; 9] = ["", "0", "65535", "65536", "-1", "4294967296", "::1", "tcp", "[::1]"];
    let mut it = b.chunks(2);
    for c in &mut it {
        if c.len() == 2 {
            let pos = c[0] as usize % parts.len();
            parts[pos] = VALS[c[1] as usize % VALS.len()].to_string();
        }
    }
    parts.join(" ").into_bytes()
}
const APT_CHARS: [u8; 9] = [b'a', b'p', b't', b'=', b'9', b'1', b';', b' ', b'-'];
fn fr_apt_value(b: &[u8]) -> Vec<u8> {
    let mut v = b"96 apt=".to_vec();
    v.extend_from_slice(b);
    v
}

fn candidate_seeds() -> Vec<(String, Vec<u8>)> {
    use rustrtc::{IceCandidateType, TcpType};
    let mut out = vec![];
    let a4: std::net::SocketAddr = "192.0.2.1:50000".parse().unwrap();
    let a6: std::net::SocketAddr = "[2001:db8::1]:50001".parse().unwrap();
    let rel: std::net::SocketAddr = "10.0.0.1:7".parse().unwrap();
    for (n, mut c) in [
        ("host-udp4", IceCandidate::host(a4, 1)),
        ("host-udp6", IceCandidate::host(a6, 1)),
    ] {
        out.push((format!("cand-{n}"), c.to_sdp().into_bytes()));
        c.typ = IceCandidateType::ServerReflexive;
        c.related_address = Some(rel);
        out.push((format!("cand-{n}-srflx"), c.to_sdp().into_bytes()));
        c.typ = IceCandidateType::Relay;
        c.transport = "tcp".into();
        c.tcp_type = Some(TcpType::Passive);
        out.push((format!("cand-{n}-relay-tcp"), c.to_sdp().into_bytes()));
    }
    out
}

pub fn entries() -> Vec<Entry> {
    let sdps = super::entries_pc::seed_sdps();
    let sdp_seeds: Vec<(String, Vec<u8>)> = sdps.iter().map(|(n, s)| (n.clone(), s.clone().into_bytes())).collect();
    let line_seeds = |key: &str| -> Vec<(String, Vec<u8>)> {
        // attribute values taken from the stack's own offers/answers
        let mut out: Vec<(String, Vec<u8>)> = vec![];
        for (n, s) in &sdps {
            for l in s.lines() {
                if let Some(v) = l.strip_prefix(&format!("a={key}:")) {
                    if !out.iter().any(|(_, b)| b == v.as_bytes()) && out.len() < 6 {
                        out.push((format!("{key}@{n}#{}", out.len()), v.as_bytes().to_vec()));
                    }
                }
            }
        }
        out
    };
    let o_seeds: Vec<(String, Vec<u8>)> = sdps
        .iter()
        .take(2)
        .filter_map(|(n, s)| s.lines().find_map(|l| l.strip_prefix("o=")).map(|v| (format!("o@{n}"), v.as_bytes().to_vec())))
        .collect();
    vec![
        Entry::new("SessionDescription::parse", "src/sdp.rs:73", run_sdp_parse, &SDP_CHARS)
            .frame("session-head+chars", fr_sdp_after_head)
            .cost(3.0)
            .text()
            .seeds(sdp_seeds.clone()),
        Entry::new("SessionDescription::parse(tokens)", "src/sdp.rs:1274", run_sdp_parse, &IDX9)
            .frame("m=tokens", fr_sdp_mline)
            .cost(3.0),
        Entry::new("SessionDescription::parse>accessors", "src/sdp.rs:172-260,760-1260,1373,1399", run_sdp_accessors, &IDX9)
            .frame("m=tokens", fr_sdp_mline)
            .frame("video a=key:tokens", fr_sdp_attr)
            .frame("session a=key:tokens", fr_sdp_session_attr)
            .frame("image a=key:tokens", fr_sdp_image_attr)
            .cost(25.0)
            .text()
            .no_sub_in_quick()
            .seeds(sdp_seeds.clone()),
        Entry::new("Simulcast::parse", "src/sdp.rs:516", run_simulcast, &IDX8)
            .frame("tokens", fr_simulcast)
            .text()
            .seed("hand:simulcast", b"send 1;~2 recv 3".to_vec())
            .seeds(line_seeds("simulcast")),
        Entry::new("Rid::parse", "src/sdp.rs:553", run_rid, &IDX8)
            .frame("tokens", fr_rid)
            .text()
            .seed("hand:rid", b"1 send pt=100;max-width=1280".to_vec())
            .seed("hand:rid-sendonly", b"1 sendonly pt=100;max-width=1280".to_vec())
            .seeds(line_seeds("rid")),
        Entry::new("CryptoAttribute::parse", "src/sdp.rs:702", run_crypto, &IDX8)
            .frame("tokens", fr_crypto)
            .text()
            .seeds(line_seeds("crypto")),
        Entry::new("SdpFingerprint::parse", "src/sdp.rs:268", run_fingerprint, &IDX8)
            .frame("tokens", fr_fingerprint)
            .text()
            .seeds(line_seeds("fingerprint")),
        Entry::new("Origin::parse", "src/sdp.rs:405", run_origin, &IDX8).frame("tokens", fr_origin).text().seeds(o_seeds),
        Entry::new("Timing::parse", "src/sdp.rs:463", run_timing, &[b'0', b'9', b' ', b'-', b'1', b'\t', b'+']).seed("hand:t", b"0 0".to_vec()),
        Entry::new("Attribute::from_line", "src/sdp.rs:493", run_attr_from_line, &[b'a', b':', b' ', b'=', 0xC3, 0xA9, b'1']).seeds(line_seeds("rtpmap")),
        Entry::new("parse_apt/extract_rtx_apt_map", "src/rtx.rs:76", run_parse_apt, &APT_CHARS)
            .frame("'96 apt='+chars", fr_apt_value)
            .text()
            .seed("hand:fmtp-rtx", b"97 apt=96".to_vec())
            .seed("hand:fmtp-rtx-multi", b"97 x=1; apt=96;rtx-time=3000".to_vec()),
        Entry::new("IceCandidate::from_sdp", "src/transports/ice/mod.rs:3249", run_candidate, &IDX9)
            .frame("tokens", fr_candidate_tokens)
            .frame("valid8+tail tokens", fr_candidate_tail)
            .frame("valid12 with (pos,value) replacements", fr_candidate_replace)
            .cost(1.0)
            .text()
            .seeds(candidate_seeds()),
    ]
}
