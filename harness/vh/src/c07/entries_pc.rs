//! Signaling entry points on a real `PeerConnection`: remote SDP through
//! `set_remote_description` (+ `create_answer` / `set_local_description`) in each transport
//! mode and in both roles, and remote candidates through `add_ice_candidate`.
//!
//! Every call gets a fresh PeerConnection on a fresh current-thread runtime; only the calls
//! that consume the remote input are inside the measured region.
use super::Entry;
use super::oracle::Probe;
use rustrtc::MediaKind;
use rustrtc::{
    IceCandidate, PeerConnection, RtcConfiguration, SdpType, SessionDescription, TransceiverDirection, TransportMode,
};
use std::sync::OnceLock;

fn cfg(mode: TransportMode) -> RtcConfiguration {
    let mut c = RtcConfiguration::default();
    c.transport_mode = mode;
    c.bind_ip = Some("127.0.0.1".into());
    c.disable_ipv6 = true;
    c
}
/// The clock is paused (tokio test-util): a bounded timer wait inside the stack (e.g. the 2 s
/// wait for a suitable local candidate in `start_direct`, the 500 ms gathering wait in SDES mode)
/// auto-advances instead of being charged to the remote input, while a wait without a timer
/// still blocks for real and is caught as a hang.
fn rt() -> tokio::runtime::Runtime {
    tokio::runtime::Builder::new_current_thread()
        .enable_all()
        .start_paused(true)
        .build()
        .unwrap_or_else(|e| crate::machinery_failure(&format!("tokio runtime: {e}")))
}
fn mode_name(m: &TransportMode) -> &'static str {
    match m {
        TransportMode::WebRtc => "webrtc",
        TransportMode::Srtp => "srtp",
        TransportMode::Rtp => "rtp",
    }
}
fn offerer(mode: TransportMode) -> PeerConnection {
    let pc = PeerConnection::new(cfg(mode.clone()));
    pc.add_transceiver(MediaKind::Audio, TransceiverDirection::SendRecv);
    pc.add_transceiver(MediaKind::Video, TransceiverDirection::SendRecv);
    if matches!(mode, TransportMode::WebRtc) {
        let _ = pc.create_data_channel("c07", None);
    }
    pc
}

/// Seed SDPs produced by the stack itself: (name, text). Offers and the matching answers in
/// the three transport modes. Generated once by the parent and handed to child processes
/// through a file (`C07_SEEDS`), because ufrag/pwd/fingerprint/ports are random.
pub fn seed_sdps() -> Vec<(String, String)> {
    static CACHE: OnceLock<Vec<(String, String)>> = OnceLock::new();
    CACHE
        .get_or_init(|| {
            if let Ok(p) = std::env::var("C07_SEEDS") {
                if let Ok(t) = std::fs::read_to_string(&p) {
                    if let Ok(serde_json::Value::Array(a)) = serde_json::from_str::<serde_json::Value>(&t) {
                        return a
                            .iter()
                            .filter_map(|e| Some((e[0].as_str()?.to_string(), e[1].as_str()?.to_string())))
                            .collect();
                    }
                }
                crate::machinery_failure(&format!("C07_SEEDS file {p} unreadable"));
            }
            generate_seed_sdps()
        })
        .clone()
}
pub fn seed_sdps_json() -> String {
    serde_json::to_string(&seed_sdps().iter().map(|(a, b)| vec![a.clone(), b.clone()]).collect::<Vec<_>>()).unwrap_or_default()
}
fn generate_seed_sdps() -> Vec<(String, String)> {
    let mut out = vec![];
    for mode in [TransportMode::WebRtc, TransportMode::Srtp, TransportMode::Rtp] {
        let r = rt();
        let mn = mode_name(&mode);
        let got = r.block_on(async {
            let a = offerer(mode.clone());
            let offer = a.create_offer().await.ok()?;
            let _ = a.set_local_description(offer.clone());
            let b = PeerConnection::new(cfg(mode.clone()));
            b.set_remote_description(offer.clone()).await.ok()?;
            let answer = b.create_answer().await.ok()?;
            a.close();
            b.close();
            Some((offer.to_sdp_string(), answer.to_sdp_string()))
        });
        match got {
            Some((o, a)) => {
                out.push((format!("offer-{mn}"), o));
                out.push((format!("answer-{mn}"), a));
            }
            None => crate::machinery_failure(&format!("cannot produce seed offer/answer in mode {mn}")),
        }
    }
    // T.38 (m=image ... udptl t38) offer/answer in plain RTP mode
    let r = rt();
    let t38 = r.block_on(async {
        let mut c = cfg(TransportMode::Rtp);
        c.media_capabilities = Some(rustrtc::MediaCapabilities {
            audio: vec![rustrtc::AudioCapability::pcmu()],
            video: vec![],
            application: None,
            image: vec![rustrtc::T38Capability::default_t38()],
        });
        let a = PeerConnection::new(c.clone());
        a.add_transceiver(MediaKind::Audio, TransceiverDirection::SendRecv);
        a.add_transceiver(MediaKind::Image, TransceiverDirection::SendRecv);
        let offer = a.create_offer().await.ok()?;
        let _ = a.set_local_description(offer.clone());
        let b = PeerConnection::new(c);
        b.set_remote_description(offer.clone()).await.ok()?;
        let answer = b.create_answer().await.ok()?;
        a.close();
        b.close();
        Some((offer.to_sdp_string(), answer.to_sdp_string()))
    });
    if let Some((o, a)) = t38 {
        if o.contains("m=image") {
            out.push(("offer-rtp-t38".to_string(), o));
            out.push(("answer-rtp-t38".to_string(), a));
        }
    }
    out
}

fn txt(i: &[u8]) -> std::borrow::Cow<'_, str> {
    String::from_utf8_lossy(i)
}

fn run_offer(mode: TransportMode, i: &[u8], p: &mut Probe) -> u32 {
    let s = txt(i);
    let Ok(desc) = SessionDescription::parse(SdpType::Offer, &s) else { return 0 };
    let r = rt();
    let c = r.block_on(async {
        let pc = PeerConnection::new(cfg(mode));
        p.begin();
        let mut c = 1;
        if pc.set_remote_description(desc).await.is_ok() {
            c = 2;
            if let Ok(ans) = pc.create_answer().await {
                c = 3;
                let text = ans.to_sdp_string();
                if pc.set_local_description(ans).is_ok() {
                    c = 4;
                }
                if SessionDescription::parse(SdpType::Answer, &text).is_err() {
                    c += 8;
                }
            }
        }
        // let tasks spawned by the calls above run once
        tokio::task::yield_now().await;
        p.end();
        pc.close();
        c
    });
    drop(r);
    c
}
fn run_answer(mode: TransportMode, i: &[u8], p: &mut Probe) -> u32 {
    let s = txt(i);
    let Ok(desc) = SessionDescription::parse(SdpType::Answer, &s) else { return 0 };
    let r = rt();
    let c = r.block_on(async {
        let pc = offerer(mode);
        let Ok(offer) = pc.create_offer().await else { crate::machinery_failure("create_offer failed on a fresh PeerConnection") };
        if pc.set_local_description(offer).is_err() {
            crate::machinery_failure("set_local_description(offer) failed on a fresh PeerConnection");
        }
        p.begin();
        let c = if pc.set_remote_description(desc).await.is_ok() { 2 } else { 1 };
        tokio::task::yield_now().await;
        p.end();
        pc.close();
        c
    });
    drop(r);
    c
}
fn run_add_candidate(i: &[u8], p: &mut Probe) -> u32 {
    let s = txt(i);
    let r = rt();
    let c = r.block_on(async {
        let pc = offerer(TransportMode::WebRtc);
        let Ok(offer) = pc.create_offer().await else { crate::machinery_failure("create_offer failed on a fresh PeerConnection") };
        let _ = pc.set_local_description(offer);
        p.begin();
        let c = match IceCandidate::from_sdp(&s) {
            Ok(cand) => 2 + pc.add_ice_candidate(cand).is_ok() as u32,
            Err(_) => 1,
        };
        tokio::task::yield_now().await;
        p.end();
        pc.close();
        c
    });
    drop(r);
    c
}
macro_rules! pc_entry {
    ($o:ident, $a:ident, $m:expr) => {
        fn $o(i: &[u8], p: &mut Probe) -> u32 {
            run_offer($m, i, p)
        }
        fn $a(i: &[u8], p: &mut Probe) -> u32 {
            run_answer($m, i, p)
        }
    };
}
pc_entry!(run_offer_webrtc, run_answer_webrtc, TransportMode::WebRtc);
pc_entry!(run_offer_srtp, run_answer_srtp, TransportMode::Srtp);
pc_entry!(run_offer_rtp, run_answer_rtp, TransportMode::Rtp);

/// Constant part of the allocation bound for PeerConnection-level entries. Negotiating the
/// stack's own three-section offer allocates about 100 KB whatever the remote text says
/// (transceivers, receive tracks with their sample rings, ICE/DTLS objects; measured with
/// C07_MEASURE_SEEDS=1); the constant is ten times that. The input-proportional part stays
/// 64 bytes per input byte.
pub const PC_ALLOC_BASE: u64 = 1024 * 1024;

const IDX9: [u8; 9] = [0, 1, 2, 3, 4, 5, 6, 7, 8];
const ATTR_KEYS: [&str; 30] = [
    "mid", "rtpmap", "fmtp", "extmap", "rid", "simulcast", "crypto", "ssrc", "setup", "fingerprint", "sctp-port", "candidate",
    "ice-ufrag", "ice-pwd", "ice-options", "rtcp", "msid", "ssrc-group", "group", "rtcp-fb", "rtcp-mux", "ice-lite",
    "end-of-candidates", "msid-semantic", "max-message-size", "T38FaxVersion", "T38MaxBitRate", "T38FaxUdpEC",
    "T38FaxRateManagement", "connection",
];
const ATTR_TOK: [&str; 9] = ["0", "65535", "65536", "96", "-1", "send", "FID", "1 udp 1 127.0.0.1 9 typ host", ""];
/// attribute key from the first two bytes (k = b0*9+b1), value tokens from the rest
fn attr_sdp(media: &str, b: &[u8]) -> Vec<u8> {
    let k = match b {
        [] => 0usize,
        [a] => *a as usize,
        [a, c, ..] => *a as usize * 9 + *c as usize,
    };
    let rest = if b.len() > 2 { &b[2..] } else { &[][..] };
    let val: Vec<&str> = rest.iter().map(|x| ATTR_TOK[*x as usize % ATTR_TOK.len()]).collect();
    format!(
        "{}{}a={}:{}\r\na=sendrecv\r\n",
        super::entries_text::SDP_HEAD,
        media,
        ATTR_KEYS[k % ATTR_KEYS.len()],
        val.join(" ")
    )
    .into_bytes()
}
/// minimal WebRTC offer with one enumerated attribute (key from the first byte, tokens after)
fn fr_offer_webrtc_attr(b: &[u8]) -> Vec<u8> {
    attr_sdp(
        "a=group:BUNDLE 0\r\nm=audio 9 UDP/TLS/RTP/SAVPF 111\r\nc=IN IP4 0.0.0.0\r\na=ice-ufrag:abcd\r\na=ice-pwd:abcdefghijklmnopqrstuvwx\r\na=fingerprint:sha-256 AA:BB\r\na=rtcp-mux\r\n",
        b,
    )
}
/// minimal plain-RTP offer with one enumerated attribute
fn fr_offer_rtp_attr(b: &[u8]) -> Vec<u8> {
    attr_sdp("m=audio 4000 RTP/AVP 0 8\r\nc=IN IP4 127.0.0.1\r\n", b)
}
/// minimal T.38 offer (m=image ... udptl t38) with one enumerated attribute
fn fr_offer_t38_attr(b: &[u8]) -> Vec<u8> {
    attr_sdp("m=image 4000 udptl t38\r\nc=IN IP4 127.0.0.1\r\n", b)
}
/// minimal SDES offer with one enumerated attribute
fn fr_offer_srtp_attr(b: &[u8]) -> Vec<u8> {
    attr_sdp(
        "m=audio 4000 RTP/SAVP 0\r\nc=IN IP4 127.0.0.1\r\na=crypto:1 AES_CM_128_HMAC_SHA1_80 inline:AAAAAAAAAAAAAAAAAAAAAAAAAAAAAAAAAAAAAAAA\r\n",
        b,
    )
}

pub fn entries() -> Vec<Entry> {
    let sdps = seed_sdps();
    let pick = |n: &str| -> Vec<(String, Vec<u8>)> {
        sdps.iter().filter(|(k, _)| k == n).map(|(k, v)| (k.clone(), v.clone().into_bytes())).collect()
    };
    let cand_seed = b"candidate:1 1 udp 2130706431 127.0.0.1 50000 typ host".to_vec();
    let mk = |name: &'static str, run: super::oracle::RunFn, seed: &str| {
        Entry::new(name, "src/peer_connection.rs:1398,1284,1459", run, &IDX9)
            .cost(4000.0)
            .alloc_base(PC_ALLOC_BASE)
            .text()
            .no_sub_in_quick()
            .seeds(pick(seed))
    };
    vec![
        mk("pc[webrtc].set_remote_description(offer)>create_answer", run_offer_webrtc, "offer-webrtc").frame("webrtc offer a=key:tokens", fr_offer_webrtc_attr),
        mk("pc[srtp].set_remote_description(offer)>create_answer", run_offer_srtp, "offer-srtp").frame("sdes offer a=key:tokens", fr_offer_srtp_attr),
        mk("pc[rtp].set_remote_description(offer)>create_answer", run_offer_rtp, "offer-rtp")
            .seeds(pick("offer-rtp-t38"))
            .frame("rtp offer a=key:tokens", fr_offer_rtp_attr)
            .frame("t38 offer a=key:tokens", fr_offer_t38_attr),
        mk("pc[webrtc].set_remote_description(answer)", run_answer_webrtc, "answer-webrtc"),
        mk("pc[srtp].set_remote_description(answer)", run_answer_srtp, "answer-srtp"),
        mk("pc[rtp].set_remote_description(answer)", run_answer_rtp, "answer-rtp"),
        Entry::new("pc[webrtc].add_ice_candidate(from_sdp)", "src/peer_connection.rs:3381", run_add_candidate, &IDX9)
            .cost(4000.0)
            .alloc_base(PC_ALLOC_BASE)
            .text()
            .no_sub_in_quick()
            .seed("hand:cand-host", cand_seed),
    ]
}
