//! The C07 oracle: one call into rustrtc under catch_unwind, with the panic site, the calling
//! rustrtc function, the wall time and the bytes allocated recorded.
use super::alloc;
use std::cell::{Cell, RefCell};
use std::collections::HashMap;
use std::panic::AssertUnwindSafe;
use std::sync::Mutex;
use std::time::Instant;

pub const TIME_LIMIT_NS: u64 = 50_000_000;
pub const ALLOC_PER_BYTE: u64 = 64;
pub const ALLOC_BASE: u64 = 64 * 1024;

#[derive(Clone, Debug, PartialEq, Eq, PartialOrd, Ord)]
pub struct PanicRec {
    /// panic location, normalised: path below `src/` for rustrtc, crate name for registry crates
    pub file: String,
    pub line: u32,
    pub col: u32,
    /// message with digit runs replaced by `N`
    pub msg_class: String,
    /// innermost non-inlined rustrtc function on the stack (symbol table, no line numbers)
    pub func: String,
    pub raw_msg: String,
}

impl PanicRec {
    /// Line-independent location used in signatures.
    pub fn where_(&self) -> String {
        format!("{}:{}:{}", self.file, self.func, self.msg_class)
    }
}

thread_local! {
    static LAST: RefCell<Option<PanicRec>> = const { RefCell::new(None) };
    static COUNT: Cell<u64> = const { Cell::new(0) };
}

static FN_CACHE: Mutex<Option<HashMap<u64, String>>> = Mutex::new(None);

pub fn norm_file(f: &str) -> String {
    if let Some(k) = f.find(".cargo/registry/src/") {
        // .../.cargo/registry/src/<index>/<crate>-<ver>/src/...
        let rest = &f[k + ".cargo/registry/src/".len()..];
        let mut it = rest.split('/');
        let _idx = it.next();
        if let Some(c) = it.next() {
            let name = match c.rfind('-') {
                Some(p) if c[p + 1..].chars().next().is_some_and(|ch| ch.is_ascii_digit()) => &c[..p],
                _ => c,
            };
            return format!("crate:{name}");
        }
    }
    if f.starts_with("/rustc/") || f.contains("/library/") {
        if let Some(k) = f.find("library/") {
            return format!("std:{}", &f[k + 8..]);
        }
    }
    if f.contains("/harness/vh/") || f.starts_with("vh/") {
        return format!("HARNESS:{f}");
    }
    match f.rfind("src/") {
        Some(k) => f[k + 4..].to_string(),
        None => f.to_string(),
    }
}

pub fn msg_class(m: &str) -> String {
    let mut o = String::new();
    let mut in_num = false;
    for ch in m.chars() {
        if ch.is_ascii_digit() {
            if !in_num {
                o.push('N');
            }
            in_num = true;
        } else {
            in_num = false;
            o.push(match ch {
                ' ' | ';' | '\n' | '\t' | '*' => '_',
                c => c,
            });
        }
        if o.len() >= 72 {
            break;
        }
    }
    o
}

/// Shorten a demangled symbol: every `a::b::Type::method` path keeps the part from its first
/// upper-case segment on (or its last two segments if it has none).
pub fn short_fn(sym: &str) -> String {
    let mut out = String::new();
    let mut path = String::new();
    let flush = |path: &mut String, out: &mut String| {
        if path.is_empty() {
            return;
        }
        let segs: Vec<&str> = path.split("::").collect();
        let first_upper = segs
            .iter()
            .position(|s| s.chars().next().is_some_and(|c| c.is_ascii_uppercase()));
        let keep_from = match first_upper {
            Some(k) => k,
            None => segs.len().saturating_sub(2),
        };
        out.push_str(&segs[keep_from..].join("::"));
        path.clear();
    };
    for ch in sym.chars() {
        if ch.is_ascii_alphanumeric() || ch == '_' || ch == ':' || ch == '{' || ch == '}' || ch == '#' {
            path.push(ch);
        } else {
            flush(&mut path, &mut out);
            out.push(if ch == ' ' { '_' } else { ch });
        }
    }
    flush(&mut path, &mut out);
    out
}

fn first_rustrtc_fn(bt: &str) -> String {
    for line in bt.lines() {
        let l = line.trim();
        let Some((num, rest)) = l.split_once(": ") else { continue };
        if !num.chars().all(|c| c.is_ascii_digit()) {
            continue;
        }
        let is_rtc = rest.starts_with("rustrtc::") || rest.starts_with("<rustrtc::");
        if is_rtc {
            return short_fn(rest);
        }
    }
    "?".to_string()
}

fn frame_fn() -> String {
    let mut buf = [std::ptr::null_mut::<libc::c_void>(); 48];
    let n = unsafe { libc::backtrace(buf.as_mut_ptr(), 48) } as usize;
    let mut h: u64 = 0xcbf29ce484222325;
    for p in buf.iter().take(n.min(22)) {
        h ^= *p as usize as u64;
        h = h.wrapping_mul(0x100000001b3);
    }
    if let Ok(g) = FN_CACHE.lock() {
        if let Some(m) = g.as_ref() {
            if let Some(s) = m.get(&h) {
                return s.clone();
            }
        }
    }
    let bt = std::backtrace::Backtrace::force_capture().to_string();
    let f = first_rustrtc_fn(&bt);
    if let Ok(mut g) = FN_CACHE.lock() {
        g.get_or_insert_with(HashMap::new).insert(h, f.clone());
    }
    f
}

/// Installs vh's quiet hook and chains the C07 recorder behind it.
pub fn install_hook() {
    crate::install_quiet_panic_hook();
    let prev = std::panic::take_hook();
    std::panic::set_hook(Box::new(move |info| {
        prev(info);
        let (file, line, col) = info
            .location()
            .map(|l| (norm_file(l.file()), l.line(), l.column()))
            .unwrap_or_default();
        let msg = if let Some(s) = info.payload().downcast_ref::<&str>() {
            s.to_string()
        } else if let Some(s) = info.payload().downcast_ref::<String>() {
            s.clone()
        } else {
            String::new()
        };
        let func = frame_fn();
        let rec = PanicRec { file, line, col, msg_class: msg_class(&msg), func, raw_msg: msg };
        let _ = COUNT.try_with(|c| c.set(c.get() + 1));
        let _ = LAST.try_with(|l| *l.borrow_mut() = Some(rec));
    }));
}

pub fn thread_panic_count() -> u64 {
    COUNT.with(|c| c.get())
}
pub fn take_last_panic() -> Option<PanicRec> {
    LAST.with(|l| l.borrow_mut().take())
}

/// Lets an entry point exclude its own set-up (building a PeerConnection, a runtime, a socket)
/// from the measured region: only the time/bytes between `begin()` and `end()` count. An entry
/// that never calls `begin()` is measured as a whole.
pub struct Probe {
    used: bool,
    t0: Option<Instant>,
    a0: u64,
    pub ns: u64,
    pub bytes: u64,
}
impl Probe {
    pub fn new() -> Self {
        Probe { used: false, t0: None, a0: 0, ns: 0, bytes: 0 }
    }
    pub fn begin(&mut self) {
        self.used = true;
        self.a0 = alloc::read().0;
        self.t0 = Some(Instant::now());
    }
    pub fn end(&mut self) {
        if let Some(t) = self.t0.take() {
            self.ns += t.elapsed().as_nanos() as u64;
            self.bytes += alloc::read().0.wrapping_sub(self.a0);
        }
    }
}
impl Probe {
    /// The measured region contained `n` calls into rustrtc: report time and bytes per call.
    pub fn per_call(&mut self, n: u64) {
        let n = n.max(1);
        self.ns /= n;
        self.bytes /= n;
    }
}
impl Default for Probe {
    fn default() -> Self {
        Self::new()
    }
}

pub type RunFn = fn(&[u8], &mut Probe) -> u32;

#[derive(Clone, Debug)]
pub struct Meas {
    /// result class reported by the entry (0 = rejected); meaningless if `panic` is set
    pub class: u32,
    pub panic: Option<PanicRec>,
    /// panics that happened on this thread during the call but did not unwind into the caller
    /// (caught inside a spawned task)
    pub task_panic: Option<PanicRec>,
    pub ns: u64,
    pub bytes: u64,
}

pub fn measure(run: RunFn, input: &[u8]) -> Meas {
    let mut probe = Probe::new();
    let c0 = thread_panic_count();
    let _ = take_last_panic();
    alloc::reset();
    let t0 = Instant::now();
    let r = std::panic::catch_unwind(AssertUnwindSafe(|| run(input, &mut probe)));
    let total_ns = t0.elapsed().as_nanos() as u64;
    let total_bytes = alloc::read().0;
    probe.end();
    let (ns, bytes) = if probe.used { (probe.ns, probe.bytes) } else { (total_ns, total_bytes) };
    let c1 = thread_panic_count();
    match r {
        Ok(class) => {
            let task_panic = if c1 > c0 { take_last_panic() } else { None };
            Meas { class, panic: None, task_panic, ns, bytes }
        }
        Err(_) => {
            let p = take_last_panic().unwrap_or(PanicRec {
                file: "?".into(),
                line: 0,
                col: 0,
                msg_class: "?".into(),
                func: "?".into(),
                raw_msg: "?".into(),
            });
            Meas { class: u32::MAX, panic: Some(p), task_panic: None, ns, bytes }
        }
    }
}

pub fn alloc_limit(len: usize, base: u64) -> u64 {
    ALLOC_PER_BYTE * len as u64 + base
}
