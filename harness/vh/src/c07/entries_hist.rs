//! Stateful consumers of parsed packets under long *periodic* histories. A history is encoded
//! as a 5-byte input (indices into small tables): sequence-number step A, step B (used
//! alternately), timestamp step, how often the consumer's report/pop operation runs, and the
//! history length N in {1000, 65538, 70000, 131074} (enough to wrap the 16-bit sequence space
//! and to carry a 16-bit cycle counter into its sign bit). All 4^5 parameter tuples are run.
//! (The NACK handler and the jitter buffer use shorter lengths, see N_NACK / N_JITTER.)
//! Time and allocation are reported per call (total / number of calls into rustrtc).
use super::Entry;
use super::oracle::Probe;
use rustrtc::media::{JitterBuffer, MediaKind, MediaSample};
use rustrtc::peer_connection::{DefaultRtpReceiverNackHandler, RtpReceiverInterceptor};
use rustrtc::rtp::{RtpHeader, RtpPacket, parse_rtcp_packets};
use rustrtc::stats_collector::StatsCollector;
use rustrtc::UdtlReceiveBuffer;
use std::net::SocketAddr;
use std::time::Duration;

/// History lengths: short, just past one sequence-space worth of packets, 70 000, two spaces.
pub const HIST_N: [u32; 4] = [1000, 65_538, 70_000, 131_074];
const IDX4: [u8; 4] = [0, 1, 2, 3];
const DSEQ: [u16; 4] = [1, 0x7FFF, 0x8000, 0xFFFF];
const DTS: [u32; 4] = [0, 160, 0x7FFF_FFFF, 0xFFFF_FFFF];
const EVERY: [u32; 4] = [u32::MAX, 50, 1000, 30_000];

fn addr() -> SocketAddr {
    "127.0.0.1:5004".parse().unwrap()
}
struct Params {
    da: u16,
    db: u16,
    dts: u32,
    every: u32,
    n: u32,
}
const N_NACK: [u32; 4] = [100, 1000, 5000, 20_000];
const N_JITTER: [u32; 4] = [100, 1000, 20_000, 70_000];
fn params_n(i: &[u8], table: &[u32; 4]) -> Option<Params> {
    let mut p = params(i)?;
    p.n = table[i[4] as usize];
    Some(p)
}
fn params(i: &[u8]) -> Option<Params> {
    if i.len() != 5 || i.iter().any(|b| *b > 3) {
        return None;
    }
    Some(Params {
        da: DSEQ[i[0] as usize],
        db: DSEQ[i[1] as usize],
        dts: DTS[i[2] as usize],
        every: EVERY[i[3] as usize],
        n: HIST_N[i[4] as usize],
    })
}
fn pkt(seq: u16, ts: u32) -> RtpPacket {
    RtpPacket::new(RtpHeader::new(96, seq, ts, 0x11223344), vec![0u8; 4])
}
/// Drives `step(k, seq, ts)` over the periodic history.
fn drive(p: &Params, mut step: impl FnMut(u32, u16, u32)) {
    let mut seq = 0u16;
    let mut ts = 0u32;
    for k in 0..p.n {
        step(k, seq, ts);
        seq = seq.wrapping_add(if k % 2 == 0 { p.da } else { p.db });
        ts = ts.wrapping_add(p.dts);
    }
}

fn run_stats_hist(i: &[u8], pr: &mut Probe) -> u32 {
    let Some(p) = params(i) else { return 0 };
    let sc = StatsCollector::new();
    let mut blocks = 0usize;
    pr.begin();
    // `every` = 30000 is replaced for this consumer by "report at the end only, after a prelude
    // of 50 packets from another SSRC" (the collector emits its own first report after 50
    // packets, which would otherwise always fall inside the history)
    let prelude = p.every == 30_000;
    if prelude {
        for k in 0..50u16 {
            let mut q = pkt(k, k as u32 * 160);
            q.header.ssrc = 0x55667788;
            if futures::executor::block_on(sc.on_packet_received(&q, addr(), addr())).is_some() {
                blocks += 1;
            }
        }
    }
    drive(&p, |k, seq, ts| {
        let q = pkt(seq, ts);
        let r = futures::executor::block_on(sc.on_packet_received(&q, addr(), addr()));
        if r.is_some() {
            blocks += 1;
        }
        if !prelude && p.every != u32::MAX && k % p.every == p.every - 1 {
            blocks += sc.build_report_blocks().len();
        }
    });
    blocks += sc.build_report_blocks().len();
    pr.end();
    pr.per_call(p.n as u64);
    1 + (blocks.min(3) as u32)
}
fn run_nack_hist(i: &[u8], pr: &mut Probe) -> u32 {
    let Some(p) = params_n(i, &N_NACK) else { return 0 };
    let h = DefaultRtpReceiverNackHandler::new();
    let mut nacks = 0usize;
    pr.begin();
    drive(&p, |_, seq, ts| {
        let q = pkt(seq, ts);
        if let Some(rustrtc::rtp::RtcpPacket::GenericNack(n)) = futures::executor::block_on(h.on_packet_received(&q, addr(), addr())) {
            nacks += n.lost_packets.len().min(1);
        }
    });
    pr.end();
    pr.per_call(p.n as u64);
    1 + (nacks.min(3) as u32)
}
fn run_jitter_hist(i: &[u8], pr: &mut Probe) -> u32 {
    let Some(p) = params_n(i, &N_JITTER) else { return 0 };
    let mut jb = JitterBuffer::new(Duration::ZERO, Duration::ZERO, 16);
    let mut popped = 0u32;
    pr.begin();
    drive(&p, |k, seq, ts| {
        let kind = if k % 7 == 0 { MediaKind::Video } else { MediaKind::Audio };
        jb.push(MediaSample::from_rtp_packet(pkt(seq, ts), kind, 8000, addr()));
        let every = if p.every == u32::MAX { 1 } else { p.every };
        if k % every == every - 1 {
            while jb.pop().is_some() {
                popped += 1;
            }
            let _ = jb.next_pop_wait();
        }
    });
    pr.end();
    pr.per_call(p.n as u64);
    1 + popped.min(3)
}
fn run_udptl_hist(i: &[u8], pr: &mut Probe) -> u32 {
    let Some(p) = params(i) else { return 0 };
    let mut b = UdtlReceiveBuffer::with_max_size(if p.dts == 0 { 0 } else { 128 });
    let mut got = 0u32;
    pr.begin();
    drive(&p, |k, seq, _| {
        if let Ok(Some(_)) = b.try_deliver(seq, vec![k as u8], vec![]) {
            got += 1;
        }
        if p.every != u32::MAX && k % p.every == p.every - 1 {
            b.reset(seq.wrapping_add(p.da));
        }
    });
    pr.end();
    pr.per_call(p.n as u64);
    1 + got.min(3) + 4 * (b.buffered_count().min(3) as u32)
}

/// single datagram: what the receive path does with parsed RTCP besides handing it on
fn run_rtcp_stats(i: &[u8], _p: &mut Probe) -> u32 {
    let Ok(v) = parse_rtcp_packets(i, None) else { return 0 };
    let sc = StatsCollector::new();
    sc.record_sr_sent(1, 0x11111111);
    let q = pkt(1, 1);
    let _ = futures::executor::block_on(sc.on_packet_received(&q, addr(), addr()));
    for p in &v {
        sc.process_rtcp(p);
    }
    // a second collector that has "sent" a Sender Report for every LSR word the datagram echoes
    // (what a peer that saw our SRs can always arrange), so that the round-trip branch runs on the
    // datagram's own DLSR values
    let sc2 = StatsCollector::new();
    let mut echoed = 0usize;
    for p in &v {
        let blocks = match p {
            rustrtc::rtp::RtcpPacket::ReceiverReport(rr) => &rr.report_blocks,
            rustrtc::rtp::RtcpPacket::SenderReport(sr) => &sr.report_blocks,
            _ => continue,
        };
        for b in blocks {
            if b.last_sender_report != 0 {
                sc2.record_sr_sent(1, b.last_sender_report);
                echoed += 1;
            }
        }
    }
    for p in &v {
        sc2.process_rtcp(p);
    }
    1 + sc.build_report_blocks().len().min(2) as u32 + 4 * v.len().min(3) as u32 + 16 * echoed.min(2) as u32
}

pub fn entries() -> Vec<Entry> {
    let anchor = "src/stats_collector.rs:112-200; src/peer_connection.rs:510-600; src/media/jitter_buffer.rs:56; src/transports/udptl.rs:236";
    let h = |name: &'static str, run: super::oracle::RunFn| Entry::new(name, anchor, run, &IDX4).cost(20_000.0);
    vec![
        h("history:StatsCollector::on_packet_received+build_report_blocks", run_stats_hist),
        h("history:DefaultRtpReceiverNackHandler::on_packet_received", run_nack_hist),
        h("history:JitterBuffer::push/pop", run_jitter_hist),
        h("history:UdtlReceiveBuffer::try_deliver", run_udptl_hist),
        Entry::new("parse_rtcp_packets>StatsCollector::process_rtcp", "src/stats_collector.rs:262,311", run_rtcp_stats, &super::entries_bin::RTCP_A)
            .frame("SR", super::entries_bin::fr_rtcp_sr)
            .frame("RR", super::entries_bin::fr_rtcp_rr)
            .cost(1.5)
            .seeds(super::entries_bin::rtcp_seeds().into_iter().take(2).collect()),
    ]
}
