//! Counting allocator for C07. The *type* lives in the library; only `bin/c07.rs` installs it
//! with `#[global_allocator]`, so no other check is affected.
//!
//! Per-thread counters (const-initialised `Cell`s without destructors, so they can be touched
//! from inside the allocator): cumulative bytes requested since the last `reset()`, and the
//! largest single request.
use std::alloc::{GlobalAlloc, Layout, System};
use std::cell::Cell;
use std::sync::atomic::{AtomicBool, Ordering};

thread_local! {
    static BYTES: Cell<u64> = const { Cell::new(0) };
    static LARGEST: Cell<u64> = const { Cell::new(0) };
    static CALLS: Cell<u64> = const { Cell::new(0) };
}

/// Set by the c07 binary once its `#[global_allocator]` is in place.
pub static INSTALLED: AtomicBool = AtomicBool::new(false);

pub struct CountingAlloc;

#[inline]
fn note(n: usize) {
    let n = n as u64;
    let _ = BYTES.try_with(|b| b.set(b.get().wrapping_add(n)));
    let _ = LARGEST.try_with(|b| {
        if n > b.get() {
            b.set(n)
        }
    });
    let _ = CALLS.try_with(|b| b.set(b.get() + 1));
}

unsafe impl GlobalAlloc for CountingAlloc {
    unsafe fn alloc(&self, l: Layout) -> *mut u8 {
        note(l.size());
        unsafe { System.alloc(l) }
    }
    unsafe fn alloc_zeroed(&self, l: Layout) -> *mut u8 {
        note(l.size());
        unsafe { System.alloc_zeroed(l) }
    }
    unsafe fn dealloc(&self, p: *mut u8, l: Layout) {
        unsafe { System.dealloc(p, l) }
    }
    unsafe fn realloc(&self, p: *mut u8, l: Layout, new: usize) -> *mut u8 {
        // a growing realloc is charged with the growth only
        if new > l.size() {
            note(new - l.size());
        }
        unsafe { System.realloc(p, l, new) }
    }
}

pub fn reset() {
    BYTES.with(|b| b.set(0));
    LARGEST.with(|b| b.set(0));
    CALLS.with(|b| b.set(0));
}
/// (cumulative bytes requested, largest single request, number of requests) on this thread
/// since `reset()`.
pub fn read() -> (u64, u64, u64) {
    (BYTES.with(|b| b.get()), LARGEST.with(|b| b.get()), CALLS.with(|b| b.get()))
}
pub fn installed() -> bool {
    INSTALLED.load(Ordering::Relaxed)
}
