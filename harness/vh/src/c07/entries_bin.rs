//! Binary entry points: RTP, RTCP, STUN, DTLS, DCEP, SRTP, depacketizers, jitter buffer, RTX,
//! UDPTL. Each `run_*` is what the stack does with a datagram of that kind, nothing more.
use super::Entry;
use super::oracle::Probe;
use crate::srtp_common as sc;
use bytes::{Bytes, BytesMut};
use rustrtc::media::{Depacketizer, H264Depacketizer, JitterBuffer, MediaKind, MediaSample, PassThroughDepacketizer};
use rustrtc::rtp::{
    FirRequest, FullIntraRequest, GenericNack, Goodbye, PictureLossIndication, ReceiverReport,
    RemoteBitrateEstimate, ReportBlock, RtcpPacket, RtpHeader, RtpHeaderExtension, RtpPacket,
    SdesChunk, SdesItem, SenderReport, SourceDescription, TransportWideCc, marshal_rtcp_packets,
    parse_rtcp_packets,
};
use rustrtc::srtp::SrtpPacket;
use rustrtc::transports::datachannel::{DataChannelAck, DataChannelOpen};
use rustrtc::transports::dtls::handshake::{
    CertificateMessage, ClientHello, ClientKeyExchange, Finished, HandshakeMessage, HandshakeType,
    HelloVerifyRequest, Random, ServerHello, ServerKeyExchange,
};
use rustrtc::transports::dtls::record::{ContentType, DtlsRecord, ProtocolVersion};
use rustrtc::transports::ice::stun::{StunAttribute, StunClass, StunMessage, StunMethod};
use rustrtc::{SrtpProfile, UdtlReceiveBuffer, UdtlTransport};
use std::net::SocketAddr;
use std::time::Duration;

fn addr() -> SocketAddr {
    "127.0.0.1:5004".parse().unwrap()
}

// ---------------------------------------------------------------------------------------
// RTP
// ---------------------------------------------------------------------------------------

pub const RTP_A: [u8; 9] = [0x00, 0x01, 0x10, 0x1F, 0x7F, 0x80, 0x90, 0xBE, 0xFF];
pub const EXT_A: [u8; 8] = [0x00, 0x01, 0x10, 0x1F, 0x2F, 0x7F, 0xF0, 0xFF];

const RTP_FIXED: [u8; 12] = [0x80, 0x60, 0x00, 0x65, 0x00, 0x00, 0x03, 0xE8, 0x11, 0x22, 0x33, 0x44];

fn rtp_with_b0(b0: u8, body: &[u8]) -> Vec<u8> {
    let mut v = RTP_FIXED.to_vec();
    v[0] = b0;
    v.extend_from_slice(body);
    v
}
/// fixed header + payload
pub fn fr_rtp_payload(b: &[u8]) -> Vec<u8> {
    rtp_with_b0(0x80, b)
}
/// X bit set; body = profile, length, data as enumerated
pub fn fr_rtp_x(b: &[u8]) -> Vec<u8> {
    rtp_with_b0(0x90, b)
}
/// P bit set; body = payload incl. padding count
pub fn fr_rtp_p(b: &[u8]) -> Vec<u8> {
    rtp_with_b0(0xA0, b)
}
/// first body byte supplies P/X/CC
pub fn fr_rtp_flags(b: &[u8]) -> Vec<u8> {
    match b.split_first() {
        Some((f, rest)) => rtp_with_b0(0x80 | (f & 0x3F), rest),
        None => RTP_FIXED.to_vec(),
    }
}
fn rtp_ext(profile: u16, b: &[u8], tail: &[u8]) -> Vec<u8> {
    let mut v = rtp_with_b0(0x90, &[]);
    let words = b.len().div_ceil(4);
    v.extend_from_slice(&profile.to_be_bytes());
    v.extend_from_slice(&(words as u16).to_be_bytes());
    v.extend_from_slice(b);
    v.resize(12 + 4 + words * 4, 0);
    v.extend_from_slice(tail);
    v
}
/// well-formed one-byte-header extension block whose element bytes are enumerated
pub fn fr_rtp_bede(b: &[u8]) -> Vec<u8> {
    rtp_ext(0xBEDE, b, &[0xAB, 0xCD])
}
/// two-byte-header extension block whose element bytes are enumerated
pub fn fr_rtp_1000(b: &[u8]) -> Vec<u8> {
    rtp_ext(0x1000, b, &[0xAB, 0xCD])
}

fn rtp_class(p: &RtpPacket) -> u32 {
    1 + (p.header.extension.is_some() as u32) * 2
        + ((!p.header.csrcs.is_empty()) as u32) * 4
        + ((p.padding_len != 0) as u32) * 8
        + ((p.payload.is_empty()) as u32) * 16
}

fn run_rtp_header_parse(i: &[u8], _p: &mut Probe) -> u32 {
    let mut b = i;
    match RtpHeader::parse(&mut b) {
        Ok((h, pad)) => 1 + (h.extension.is_some() as u32) * 2 + ((!h.csrcs.is_empty()) as u32) * 4 + (pad as u32) * 8,
        Err(_) => 0,
    }
}
fn run_rtp_parse(i: &[u8], _p: &mut Probe) -> u32 {
    match RtpPacket::parse(i) {
        Ok(p) => rtp_class(&p),
        Err(_) => 0,
    }
}
fn run_rtp_parse_bytes(i: &[u8], _p: &mut Probe) -> u32 {
    match RtpPacket::parse_bytes(Bytes::copy_from_slice(i)) {
        Ok(p) => rtp_class(&p),
        Err(_) => 0,
    }
}
fn run_rtp_get_extension(i: &[u8], _p: &mut Probe) -> u32 {
    let Ok(p) = RtpPacket::parse(i) else { return 0 };
    let mut found = 0u32;
    for id in (0u8..=16).chain([255u8]) {
        if p.header.get_extension(id).is_some() {
            found += 1;
        }
    }
    rtp_class(&p) + 32 * found.min(7)
}
fn run_rtp_set_extension(i: &[u8], _p: &mut Probe) -> u32 {
    let Ok(p) = RtpPacket::parse(i) else { return 0 };
    let mut acc = 0u32;
    // what a relay does: stamp an id that may or may not be present already, then send
    for (k, (id, data)) in [(1u8, &[0xAAu8][..]), (3, &[1, 2, 3][..]), (14, &[9u8; 16][..]), (15, &[1][..]), (2, &[][..])]
        .iter()
        .enumerate()
    {
        let mut q = p.clone();
        let ok = q.header.set_extension(*id, data).is_ok();
        let m = q.marshal();
        if let Ok(bytes) = &m {
            let _ = RtpPacket::parse(bytes);
        }
        let _ = q.header.get_extension(*id);
        acc |= ((ok as u32) | ((m.is_ok() as u32) << 1)) << (2 * k);
    }
    rtp_class(&p) + 32 * (acc % 1024)
}
fn run_rtp_marshal(i: &[u8], _p: &mut Probe) -> u32 {
    let Ok(p) = RtpPacket::parse(i) else { return 0 };
    let m = p.marshal();
    let mut buf = Vec::new();
    p.marshal_into(&mut buf);
    let re = match &m {
        Ok(b) => RtpPacket::parse(b).is_ok() as u32,
        Err(_) => 2,
    };
    rtp_class(&p) + 32 * re
}
fn run_rtx_unwrap(i: &[u8], _p: &mut Probe) -> u32 {
    let Ok(p) = RtpPacket::parse(i) else { return 0 };
    match rustrtc::rtx::unwrap_rtx_packet(&p, 0x01020304, 96) {
        Some(o) => {
            let _ = o.marshal();
            let _ = rustrtc::rtx::decode_osn(&p.payload);
            2
        }
        None => 1,
    }
}
fn run_rtx_unwrap_payload(i: &[u8], _p: &mut Probe) -> u32 {
    let p = RtpPacket::new(RtpHeader::new(97, 7, 1000, 0x0A0B0C0D), i.to_vec());
    match rustrtc::rtx::unwrap_rtx_packet(&p, 0x01020304, 96) {
        Some(o) => 2 + o.payload.is_empty() as u32,
        None => 1,
    }
}

fn depack_class(r: &rustrtc::media::MediaResult<Vec<MediaSample>>) -> u32 {
    match r {
        Ok(v) => 1 + v.len().min(6) as u32,
        Err(_) => 0,
    }
}
fn run_rtp_depacketize(i: &[u8], _p: &mut Probe) -> u32 {
    let Ok(p) = RtpPacket::parse(i) else { return 0 };
    let mut h = H264Depacketizer::new();
    let a = depack_class(&h.push(p.clone(), 90000, addr(), MediaKind::Video));
    let b = depack_class(&h.push(p.clone(), 8000, addr(), MediaKind::Audio));
    let c = depack_class(&PassThroughDepacketizer.push(p.clone(), 90000, addr(), MediaKind::Video));
    use rustrtc::media::depacketizer::{DefaultDepacketizerFactory, DepacketizerFactory};
    let mut d = DefaultDepacketizerFactory.create(MediaKind::Video);
    let e = depack_class(&d.push(p, 90000, addr(), MediaKind::Video));
    a + 8 * b + 64 * c + 512 * e
}
fn h264_pkt(seq: u16, ts: u32, marker: bool, payload: &[u8]) -> RtpPacket {
    let mut h = RtpHeader::new(102, seq, ts, 0x0A0B0C0D);
    h.marker = marker;
    RtpPacket::new(h, payload.to_vec())
}
fn run_h264_fresh(i: &[u8], _p: &mut Probe) -> u32 {
    let mut h = H264Depacketizer::new();
    let r = h.push(h264_pkt(100, 1000, true, i), 90000, addr(), MediaKind::Video);
    depack_class(&r) + 8 * h.drop_count().min(3) as u32
}
fn run_h264_after_start(i: &[u8], _p: &mut Probe) -> u32 {
    let mut h = H264Depacketizer::new();
    let _ = h.push(h264_pkt(100, 1000, false, &[0x7C, 0x85, 0x11, 0x22]), 90000, addr(), MediaKind::Video);
    let r1 = h.push(h264_pkt(101, 1000, false, i), 90000, addr(), MediaKind::Video);
    let r2 = h.push(h264_pkt(102, 1000, true, i), 90000, addr(), MediaKind::Video);
    depack_class(&r1) + 8 * depack_class(&r2) + 64 * h.drop_count().min(3) as u32
}
fn run_jitter(i: &[u8], _p: &mut Probe) -> u32 {
    let Ok(p) = RtpPacket::parse(i) else { return 0 };
    let mut acc = 0u32;
    for kind in [MediaKind::Audio, MediaKind::Video] {
        let mut jb = JitterBuffer::new(Duration::ZERO, Duration::ZERO, 4);
        // bring the buffer into a "has delivered" state with the stack's own packets
        for (seq, ts) in [(100u16, 1000u32), (101, 1160)] {
            let q = RtpPacket::new(RtpHeader::new(0, seq, ts, p.header.ssrc), vec![0u8; 4]);
            jb.push(MediaSample::from_rtp_packet(q, kind, 8000, addr()));
            let _ = jb.pop();
        }
        jb.push(MediaSample::from_rtp_packet(p.clone(), kind, 8000, addr()));
        jb.push(MediaSample::from_rtp_packet(p.clone(), kind, 0, addr()));
        let _ = jb.next_pop_wait();
        let got = jb.pop().is_some();
        let _ = jb.awaiting_next();
        let _ = jb.pop();
        acc = acc * 2 + got as u32;
    }
    1 + acc
}

pub fn rtp_seeds() -> Vec<(String, Vec<u8>)> {
    let mut out = vec![];
    let mut add = |n: &str, p: RtpPacket| {
        if let Ok(b) = p.marshal() {
            out.push((n.to_string(), b));
        }
    };
    let base = || RtpPacket::new(RtpHeader::new(96, 0x0102, 0x01020304, 0x11223344), vec![0xD0, 0xD1, 0xD2, 0xD3, 0xD4, 0xD5]);
    add("rtp-plain", base());
    let mut p = base();
    p.header.csrcs = vec![0xC0C1C2C3, 0xC4C5C6C7];
    p.header.marker = true;
    add("rtp-csrc2", p);
    let mut p = base();
    let _ = p.header.set_extension(1, &[0xAA]);
    let _ = p.header.set_extension(3, &[1, 2, 3]);
    add("rtp-onebyte-ext", p);
    let mut p = base();
    p.header.extension = Some(RtpHeaderExtension::new(0x1000, vec![1, 2, 0xAA, 0xBB, 2, 0, 0, 0]));
    add("rtp-twobyte-ext", p);
    let mut p = base();
    p.padding_len = 4;
    add("rtp-padding", p);
    let mut p = base();
    p.header.csrcs = vec![1];
    let _ = p.header.set_extension(14, &[7; 16]);
    p.padding_len = 1;
    add("rtp-csrc-ext-pad", p);
    let mut p = base();
    p.payload = Bytes::new();
    add("rtp-empty-payload", p);
    add(
        "rtp-rtx",
        rustrtc::rtx::wrap_rtx_packet(
            &base(),
            &rustrtc::rtx::RtxSenderConfig { rtx_ssrc: 0x55667788, rtx_payload_type: 97 },
            9,
        ),
    );
    // H.264 payloads are hand-made (the stack has no H.264 packetizer); the RTP framing is the stack's
    for (n, pl) in h264_payload_seeds() {
        let mut p = base();
        p.payload = Bytes::from(pl);
        add(&format!("rtp-{n}"), p);
    }
    out
}
fn h264_payload_seeds() -> Vec<(String, Vec<u8>)> {
    vec![
        ("hand:h264-stap-a".into(), vec![0x18, 0, 2, 0x67, 0x42, 0, 1, 0x68, 0, 3, 0x65, 1, 2]),
        ("hand:h264-fu-a-start".into(), vec![0x7C, 0x85, 0x11, 0x22, 0x33]),
        ("hand:h264-fu-a-mid".into(), vec![0x7C, 0x05, 0x44, 0x55]),
        ("hand:h264-fu-a-end".into(), vec![0x7C, 0x45, 0x66]),
        ("hand:h264-single".into(), vec![0x65, 0x88, 0x84, 0x00]),
    ]
}

// ---------------------------------------------------------------------------------------
// RTCP
// ---------------------------------------------------------------------------------------

pub const RTCP_A: [u8; 9] = [0x00, 0x01, 0x02, 0x04, 0x1F, 0x21, 0x7F, 0x80, 0xFF];

fn rtcp_pkt(pt: u8, fmt_and_p: u8, content: &[u8]) -> Vec<u8> {
    let mut c = content.to_vec();
    while c.len() % 4 != 0 {
        c.push(0);
    }
    let mut v = vec![0x80 | (fmt_and_p & 0x3F), pt];
    v.extend_from_slice(&((c.len() / 4) as u16).to_be_bytes());
    v.extend_from_slice(&c);
    v
}
fn counted(pt: u8, prefix: &[u8], b: &[u8]) -> Vec<u8> {
    let (f, rest) = match b.split_first() {
        Some((f, r)) => (*f, r),
        None => (0, &[][..]),
    };
    let mut c = prefix.to_vec();
    c.extend_from_slice(rest);
    rtcp_pkt(pt, f, &c)
}
const SSRC: [u8; 4] = [0x11, 0x22, 0x33, 0x44];
pub fn fr_rtcp_sr(b: &[u8]) -> Vec<u8> {
    let mut pre = SSRC.to_vec();
    pre.extend_from_slice(&[0u8; 20]);
    counted(200, &pre, b)
}
pub fn fr_rtcp_rr(b: &[u8]) -> Vec<u8> {
    counted(201, &SSRC, b)
}
fn fr_rtcp_sdes(b: &[u8]) -> Vec<u8> {
    counted(202, &[], b)
}
fn fr_rtcp_bye(b: &[u8]) -> Vec<u8> {
    counted(203, &[], b)
}
fn two_ssrc() -> Vec<u8> {
    let mut v = SSRC.to_vec();
    v.extend_from_slice(&[0x55, 0x66, 0x77, 0x88]);
    v
}
fn fixed_fmt(pt: u8, fmt: u8, prefix: &[u8], b: &[u8]) -> Vec<u8> {
    let mut c = prefix.to_vec();
    c.extend_from_slice(b);
    rtcp_pkt(pt, fmt, &c)
}
fn fr_rtcp_nack(b: &[u8]) -> Vec<u8> {
    fixed_fmt(205, 1, &two_ssrc(), b)
}
fn fr_rtcp_twcc(b: &[u8]) -> Vec<u8> {
    fixed_fmt(205, 15, &two_ssrc(), b)
}
fn fr_rtcp_fir(b: &[u8]) -> Vec<u8> {
    fixed_fmt(206, 4, &two_ssrc(), b)
}
fn fr_rtcp_remb(b: &[u8]) -> Vec<u8> {
    let mut pre = two_ssrc();
    pre.extend_from_slice(b"REMB");
    fixed_fmt(206, 15, &pre, b)
}
/// packet type and count/format taken from the first two body bytes, valid length
pub fn fr_rtcp_any(b: &[u8]) -> Vec<u8> {
    if b.len() < 2 {
        return rtcp_pkt(200, 0, &[]);
    }
    rtcp_pkt(200 + (b[0] & 7), b[1], &b[2..])
}
/// two packets in one compound: a valid RR then the enumerated one
fn fr_rtcp_compound(b: &[u8]) -> Vec<u8> {
    let mut v = rtcp_pkt(201, 0, &SSRC);
    v.extend_from_slice(&fr_rtcp_any(b));
    v
}

fn rtcp_class(v: &[RtcpPacket]) -> u32 {
    let mut c = 1 + v.len().min(3) as u32;
    if let Some(p) = v.last() {
        let k = match p {
            RtcpPacket::SenderReport(_) => 1,
            RtcpPacket::ReceiverReport(_) => 2,
            RtcpPacket::SourceDescription(_) => 3,
            RtcpPacket::Goodbye(_) => 4,
            RtcpPacket::PictureLossIndication(_) => 5,
            RtcpPacket::FullIntraRequest(_) => 6,
            RtcpPacket::GenericNack(_) => 7,
            RtcpPacket::RemoteBitrateEstimate(_) => 8,
            RtcpPacket::TransportWideCc(_) => 9,
        };
        c += 8 * k;
    }
    c
}
fn run_rtcp_parse(i: &[u8], _p: &mut Probe) -> u32 {
    let _ = rustrtc::rtp::is_rtcp(i);
    match parse_rtcp_packets(i, Some(addr())) {
        Ok(v) => rtcp_class(&v),
        Err(_) => 0,
    }
}
fn run_rtcp_reserialise(i: &[u8], _p: &mut Probe) -> u32 {
    let Ok(v) = parse_rtcp_packets(i, None) else { return 0 };
    match marshal_rtcp_packets(&v) {
        Ok(b) => {
            let again = parse_rtcp_packets(&b, None).is_ok();
            rtcp_class(&v) + 128 * (1 + again as u32)
        }
        Err(_) => rtcp_class(&v),
    }
}

fn rb(n: u32) -> ReportBlock {
    ReportBlock {
        ssrc: 0x0A0B0C00 + n,
        fraction_lost: 3,
        packets_lost: -2,
        highest_sequence: 0x00010203,
        jitter: 7,
        last_sender_report: 0x11111111,
        delay_since_last_sender_report: 0x00000100,
    }
}
pub fn rtcp_seeds() -> Vec<(String, Vec<u8>)> {
    let s = 0x11223344;
    let m = 0x55667788;
    let pk: Vec<(&str, Vec<RtcpPacket>)> = vec![
        (
            "sr1",
            vec![RtcpPacket::SenderReport(SenderReport {
                sender_ssrc: s,
                ntp_most: 1,
                ntp_least: 2,
                rtp_timestamp: 3,
                packet_count: 4,
                octet_count: 5,
                report_blocks: vec![rb(1)],
            })],
        ),
        ("rr2", vec![RtcpPacket::ReceiverReport(ReceiverReport { sender_ssrc: s, report_blocks: vec![rb(1), rb(2)] })]),
        (
            "sdes",
            vec![RtcpPacket::SourceDescription(SourceDescription {
                chunks: vec![
                    SdesChunk { ssrc: s, items: vec![SdesItem { ty: 1, text: "cname@x".into() }, SdesItem { ty: 2, text: "n".into() }] },
                    SdesChunk { ssrc: m, items: vec![SdesItem { ty: 1, text: "\u{e9}".into() }] },
                ],
            })],
        ),
        ("bye", vec![RtcpPacket::Goodbye(Goodbye { sources: vec![s, m], reason: Some("bye!".into()) })]),
        ("pli", vec![RtcpPacket::PictureLossIndication(PictureLossIndication { sender_ssrc: s, media_ssrc: m })]),
        (
            "fir",
            vec![RtcpPacket::FullIntraRequest(FullIntraRequest {
                sender_ssrc: s,
                requests: vec![FirRequest { ssrc: m, sequence_number: 9 }],
            })],
        ),
        ("nack", vec![RtcpPacket::GenericNack(GenericNack { sender_ssrc: s, media_ssrc: m, lost_packets: vec![10, 11, 13, 40] })]),
        (
            "remb",
            vec![RtcpPacket::RemoteBitrateEstimate(RemoteBitrateEstimate { sender_ssrc: s, bitrate_bps: 1_000_000, ssrcs: vec![m, 7] })],
        ),
        (
            "twcc",
            vec![RtcpPacket::TransportWideCc(TransportWideCc {
                sender_ssrc: s,
                media_ssrc: m,
                base_sequence: 5,
                packet_status_count: 3,
                reference_time_64ms: 0x010203,
                feedback_packet_count: 1,
                payload: vec![0x20, 0x03, 4, 4, 4, 0, 0, 0],
            })],
        ),
        (
            "compound",
            vec![
                RtcpPacket::ReceiverReport(ReceiverReport { sender_ssrc: s, report_blocks: vec![rb(1)] }),
                RtcpPacket::SourceDescription(SourceDescription {
                    chunks: vec![SdesChunk { ssrc: s, items: vec![SdesItem { ty: 1, text: "c".into() }] }],
                }),
                RtcpPacket::Goodbye(Goodbye { sources: vec![s], reason: None }),
            ],
        ),
    ];
    pk.into_iter()
        .filter_map(|(n, p)| marshal_rtcp_packets(&p).ok().map(|b| (format!("rtcp-{n}"), b)))
        .collect()
}

// ---------------------------------------------------------------------------------------
// STUN
// ---------------------------------------------------------------------------------------

const STUN_A: [u8; 8] = [0x00, 0x01, 0x02, 0x04, 0x08, 0x14, 0x20, 0xFF];
const STUN_ATTR_A: [u8; 9] = [0x00, 0x01, 0x02, 0x04, 0x09, 0x12, 0x14, 0x20, 0xFF];
const COOKIE: [u8; 4] = [0x21, 0x12, 0xA4, 0x42];

fn stun_msg(typ: u16, body: &[u8]) -> Vec<u8> {
    let mut v = typ.to_be_bytes().to_vec();
    v.extend_from_slice(&(body.len() as u16).to_be_bytes());
    v.extend_from_slice(&COOKIE);
    v.extend_from_slice(&[0x5A; 12]);
    v.extend_from_slice(body);
    v
}
/// Binding success response; the attribute area is the enumerated string (exact length field)
fn fr_stun_attrs(b: &[u8]) -> Vec<u8> {
    stun_msg(0x0101, b)
}
/// Data indication (TURN relayed data path)
fn fr_stun_data_ind(b: &[u8]) -> Vec<u8> {
    stun_msg(0x0017, b)
}
/// message type from the first two bytes
fn fr_stun_typed(b: &[u8]) -> Vec<u8> {
    if b.len() < 2 {
        return stun_msg(0x0001, &[]);
    }
    stun_msg(u16::from_be_bytes([b[0], b[1]]), &b[2..])
}
/// one attribute: type from the first two bytes, correct length, value = rest
fn fr_stun_one_attr(b: &[u8]) -> Vec<u8> {
    if b.len() < 2 {
        return stun_msg(0x0101, &[]);
    }
    let mut a = vec![b[0], b[1]];
    a.extend_from_slice(&((b.len() - 2) as u16).to_be_bytes());
    a.extend_from_slice(&b[2..]);
    while a.len() % 4 != 0 {
        a.push(0);
    }
    stun_msg(0x0101, &a)
}
fn run_stun_decode(i: &[u8], _p: &mut Probe) -> u32 {
    match StunMessage::decode(i) {
        Ok(d) => {
            1 + (d.xor_mapped_address.is_some() as u32)
                + 2 * (d.xor_relayed_address.is_some() as u32)
                + 4 * (d.xor_peer_address.is_some() as u32)
                + 8 * (d.error_code.is_some() as u32)
                + 16 * (d.realm.is_some() as u32)
                + 32 * (d.nonce.is_some() as u32)
                + 64 * (d.data.is_some() as u32)
                + 128 * (d.use_candidate as u32)
                + 256 * (d.lifetime.is_some() as u32)
        }
        Err(_) => 0,
    }
}
fn stun_seeds() -> Vec<(String, Vec<u8>)> {
    let tx = [0x01, 0x23, 0x45, 0x67, 0x89, 0xab, 0xcd, 0xef, 0x10, 0x32, 0x54, 0x76];
    let v4: SocketAddr = "192.0.2.1:3478".parse().unwrap();
    let v6: SocketAddr = "[2001:db8::ff]:8473".parse().unwrap();
    let key = b"pass";
    let mut out = vec![];
    let mut add = |n: &str, m: StunMessage, k: Option<&[u8]>, fp: bool| {
        if let Ok(b) = m.encode(k, fp) {
            out.push((format!("stun-{n}"), b));
        }
    };
    add("binding-req", StunMessage::binding_request(tx, Some("rustrtc")), None, false);
    add(
        "binding-req-ice",
        StunMessage {
            class: StunClass::Request,
            method: StunMethod::Binding,
            transaction_id: tx,
            attributes: vec![
                StunAttribute::Username("a:b".into()),
                StunAttribute::Priority(0x6e0001ff),
                StunAttribute::IceControlling(0x0102030405060708),
                StunAttribute::UseCandidate,
            ],
        },
        Some(key),
        true,
    );
    add("binding-ok-v4", StunMessage::binding_success_response(tx, v4), Some(key), true);
    add("binding-ok-v6", StunMessage::binding_success_response(tx, v6), None, false);
    add(
        "allocate-req",
        StunMessage::allocate_request(
            tx,
            vec![
                StunAttribute::RequestedTransport(17),
                StunAttribute::Lifetime(600),
                StunAttribute::Username("u".into()),
                StunAttribute::Realm("r.example".into()),
                StunAttribute::Nonce("nonce".into()),
            ],
        ),
        Some(key),
        false,
    );
    add(
        "data-ind",
        StunMessage {
            class: StunClass::Indication,
            method: StunMethod::Data,
            transaction_id: tx,
            attributes: vec![StunAttribute::XorPeerAddress(v4), StunAttribute::Data(vec![0x80, 0x60, 1, 2, 3])],
        },
        None,
        false,
    );
    add(
        "data-ind-empty",
        StunMessage {
            class: StunClass::Indication,
            method: StunMethod::Data,
            transaction_id: tx,
            attributes: vec![StunAttribute::XorPeerAddress(v6), StunAttribute::Data(vec![])],
        },
        None,
        false,
    );
    add(
        "channel-bind",
        StunMessage {
            class: StunClass::Request,
            method: StunMethod::ChannelBind,
            transaction_id: tx,
            attributes: vec![StunAttribute::ChannelNumber(0x4000), StunAttribute::XorPeerAddress(v4)],
        },
        Some(key),
        true,
    );
    add(
        "allocate-err",
        StunMessage {
            class: StunClass::ErrorResponse,
            method: StunMethod::Allocate,
            transaction_id: tx,
            attributes: vec![StunAttribute::Realm("r".into()), StunAttribute::Nonce("n".into())],
        },
        None,
        true,
    );
    add(
        "refresh-ok",
        StunMessage {
            class: StunClass::SuccessResponse,
            method: StunMethod::Refresh,
            transaction_id: tx,
            attributes: vec![StunAttribute::Lifetime(0), StunAttribute::XorMappedAddress(v6), StunAttribute::IceControlled(1)],
        },
        None,
        false,
    );
    out
}

// ---------------------------------------------------------------------------------------
// DTLS records and handshake messages
// ---------------------------------------------------------------------------------------

const DTLS_A: [u8; 9] = [0x00, 0x01, 0x02, 0x03, 0x16, 0x20, 0x7F, 0xFE, 0xFF];

fn dtls_record(ct: u8, epoch: u16, payload: &[u8]) -> Vec<u8> {
    let mut v = vec![ct, 0xFE, 0xFD];
    v.extend_from_slice(&epoch.to_be_bytes());
    v.extend_from_slice(&[0, 0, 0, 0, 0, 1]);
    v.extend_from_slice(&(payload.len() as u16).to_be_bytes());
    v.extend_from_slice(payload);
    v
}
fn hs_msg(t: u8, body: &[u8]) -> Vec<u8> {
    let l = body.len() as u32;
    let l3 = [(l >> 16) as u8, (l >> 8) as u8, l as u8];
    let mut v = vec![t];
    v.extend_from_slice(&l3);
    v.extend_from_slice(&[0, 0]);
    v.extend_from_slice(&[0, 0, 0]);
    v.extend_from_slice(&l3);
    v.extend_from_slice(body);
    v
}
/// handshake record, length field correct, payload enumerated
fn fr_rec_hs(b: &[u8]) -> Vec<u8> {
    dtls_record(22, 0, b)
}
/// content type and epoch from the first two bytes
fn fr_rec_typed(b: &[u8]) -> Vec<u8> {
    if b.len() < 2 {
        return dtls_record(22, 0, &[]);
    }
    dtls_record(b[0], b[1] as u16, &b[2..])
}
/// two records back to back: a valid one, then the enumerated bytes as the second record
fn fr_rec_second(b: &[u8]) -> Vec<u8> {
    let mut v = dtls_record(20, 0, &[1]);
    v.extend_from_slice(b);
    v
}
/// handshake header with correct lengths, type from the first byte
fn fr_hs_typed(b: &[u8]) -> Vec<u8> {
    match b.split_first() {
        Some((t, rest)) => hs_msg(*t, rest),
        None => hs_msg(1, &[]),
    }
}
/// handshake header with the 12 header bytes fixed to ClientHello/len 0x000001 and enumerated tail
fn fr_hs_after_header(b: &[u8]) -> Vec<u8> {
    let mut v = vec![1, 0, 0, 1, 0, 0, 0, 0, 0, 0, 0, 1];
    v.extend_from_slice(b);
    v
}
/// record > handshake message > body, all lengths correct, handshake type from the first byte
fn fr_rec_hs_body(b: &[u8]) -> Vec<u8> {
    dtls_record(22, 0, &fr_hs_typed(b))
}
fn hello_prefix() -> Vec<u8> {
    let mut v = vec![0xFE, 0xFD];
    v.extend_from_slice(&[0x01, 0x02, 0x03, 0x04]);
    v.extend_from_slice(&[0x5A; 28]);
    v
}
/// version + random (34 bytes) then the enumerated tail
fn fr_hello34(b: &[u8]) -> Vec<u8> {
    let mut v = hello_prefix();
    v.extend_from_slice(b);
    v
}
/// 34 bytes + empty session id, then the enumerated tail
fn fr_hello35(b: &[u8]) -> Vec<u8> {
    let mut v = hello_prefix();
    v.push(0);
    v.extend_from_slice(b);
    v
}
fn fr_hvr(b: &[u8]) -> Vec<u8> {
    let mut v = vec![0xFE, 0xFF];
    v.extend_from_slice(b);
    v
}
fn fr_ske(b: &[u8]) -> Vec<u8> {
    let mut v = vec![3, 0, 23];
    v.extend_from_slice(b);
    v
}
/// certificate list with correct outer length
fn fr_cert_outer(b: &[u8]) -> Vec<u8> {
    let l = b.len() as u32;
    let mut v = vec![(l >> 16) as u8, (l >> 8) as u8, l as u8];
    v.extend_from_slice(b);
    v
}

fn run_record_decode(i: &[u8], _p: &mut Probe) -> u32 {
    // the receive path decodes records until the datagram is exhausted
    let mut b = Bytes::copy_from_slice(i);
    let mut n = 0u32;
    loop {
        let before = b.len();
        match DtlsRecord::decode(&mut b) {
            Ok(Some(_)) => n += 1,
            Ok(None) => return 1 + n.min(6),
            Err(_) => return 8 + n.min(6),
        }
        if b.len() == before {
            return 16; // no progress: would loop forever in the stack
        }
        if n > 70000 {
            return 17;
        }
    }
}
fn run_hs_decode(i: &[u8], _p: &mut Probe) -> u32 {
    let mut b = Bytes::copy_from_slice(i);
    let mut n = 0u32;
    loop {
        let before = b.len();
        match HandshakeMessage::decode(&mut b) {
            Ok(Some(_)) => n += 1,
            Ok(None) => return 1 + n.min(6),
            Err(_) => return 8 + n.min(6),
        }
        if b.len() == before {
            return 16;
        }
        if n > 70000 {
            return 17;
        }
    }
}
fn body_decode(t: HandshakeType, body: &mut Bytes) -> u32 {
    match t {
        HandshakeType::ClientHello => ClientHello::decode(body).is_ok() as u32,
        HandshakeType::ServerHello => ServerHello::decode(body).is_ok() as u32,
        HandshakeType::HelloVerifyRequest => HelloVerifyRequest::decode(body).is_ok() as u32,
        HandshakeType::Certificate => CertificateMessage::decode(body).is_ok() as u32,
        HandshakeType::ServerKeyExchange => ServerKeyExchange::decode(body).is_ok() as u32,
        HandshakeType::ClientKeyExchange => ClientKeyExchange::decode(body).is_ok() as u32,
        HandshakeType::Finished => Finished::decode(body).is_ok() as u32,
        _ => 2,
    }
}
/// datagram -> records -> (epoch 0 handshake) -> messages -> body decoder selected by type:
/// the chain the DTLS transport applies to a cleartext flight.
fn run_dtls_chain(i: &[u8], _p: &mut Probe) -> u32 {
    let mut b = Bytes::copy_from_slice(i);
    let mut acc = 1u32;
    let mut guard = 0;
    while let Ok(Some(rec)) = DtlsRecord::decode(&mut b) {
        guard += 1;
        if guard > 5000 {
            break;
        }
        if rec.content_type != ContentType::Handshake || rec.epoch != 0 {
            acc = acc.wrapping_mul(3).wrapping_add(1);
            continue;
        }
        let mut pl = rec.payload.clone();
        let mut g2 = 0;
        while let Ok(Some(m)) = HandshakeMessage::decode(&mut pl) {
            g2 += 1;
            if g2 > 5000 {
                break;
            }
            if m.fragment_offset == 0 && m.fragment_length == m.total_length {
                let mut body = m.body.clone();
                acc = acc.wrapping_mul(3).wrapping_add(2 + body_decode(m.msg_type, &mut body));
            }
        }
    }
    1 + acc % 1000
}
macro_rules! body_entry {
    ($fname:ident, $ty:ty) => {
        fn $fname(i: &[u8], _p: &mut Probe) -> u32 {
            let mut b = Bytes::copy_from_slice(i);
            match <$ty>::decode(&mut b) {
                Ok(_) => 1 + (b.is_empty() as u32),
                Err(_) => 0,
            }
        }
    };
}
body_entry!(run_client_hello, ClientHello);
body_entry!(run_server_hello, ServerHello);
body_entry!(run_hvr, HelloVerifyRequest);
body_entry!(run_ske, ServerKeyExchange);
body_entry!(run_cert, CertificateMessage);
body_entry!(run_cke, ClientKeyExchange);
fn run_finished(i: &[u8], _p: &mut Probe) -> u32 {
    let mut b = Bytes::copy_from_slice(i);
    match Finished::decode(&mut b) {
        Ok(f) => 1 + f.verify_data.len().min(13) as u32,
        Err(_) => 0,
    }
}

fn fixed_random() -> Random {
    Random { gmt_unix_time: 0x01020304, random_bytes: [0x5A; 28] }
}
fn enc<F: FnOnce(&mut BytesMut)>(f: F) -> Vec<u8> {
    let mut b = BytesMut::new();
    f(&mut b);
    b.to_vec()
}
pub struct DtlsSeeds {
    pub client_hello: Vec<(String, Vec<u8>)>,
    pub server_hello: Vec<(String, Vec<u8>)>,
    pub hvr: Vec<(String, Vec<u8>)>,
    pub ske: Vec<(String, Vec<u8>)>,
    pub cert: Vec<(String, Vec<u8>)>,
    pub cke: Vec<(String, Vec<u8>)>,
    pub finished: Vec<(String, Vec<u8>)>,
    pub handshake: Vec<(String, Vec<u8>)>,
    pub records: Vec<(String, Vec<u8>)>,
}
pub fn dtls_seeds() -> DtlsSeeds {
    let v12 = ProtocolVersion::DTLS_1_2;
    let ch_full = ClientHello {
        version: v12,
        random: fixed_random(),
        session_id: vec![],
        cookie: vec![0xC0; 20],
        cipher_suites: rustrtc::transports::dtls::get_client_hello_cipher_suites(),
        compression_methods: vec![0],
        extensions: rustrtc::transports::dtls::get_client_hello_extensions(),
    };
    let ch_min = ClientHello {
        version: v12,
        random: fixed_random(),
        session_id: vec![],
        cookie: vec![],
        cipher_suites: vec![0xC02B],
        compression_methods: vec![0],
        extensions: vec![],
    };
    let ch_sid = ClientHello { session_id: vec![7; 8], ..ch_min.clone() };
    let client_hello = vec![
        ("ch-full".to_string(), enc(|b| ch_full.encode(b))),
        ("ch-min".to_string(), enc(|b| ch_min.encode(b))),
        ("ch-sid".to_string(), enc(|b| ch_sid.encode(b))),
    ];
    let sh = ServerHello {
        version: v12,
        random: fixed_random(),
        session_id: vec![],
        cipher_suite: 0xC02B,
        compression_method: 0,
        extensions: vec![0x00, 0x17, 0x00, 0x00, 0x00, 0x0e, 0x00, 0x05, 0x00, 0x02, 0x00, 0x01, 0x00],
    };
    let sh_min = ServerHello { extensions: vec![], session_id: vec![1, 2, 3, 4], ..sh.clone() };
    let server_hello = vec![("sh-ext".to_string(), enc(|b| sh.encode(b))), ("sh-min".to_string(), enc(|b| sh_min.encode(b)))];
    let hv = HelloVerifyRequest { version: ProtocolVersion::DTLS_1_0, cookie: vec![0xC0; 20] };
    let hvr = vec![("hvr".to_string(), enc(|b| hv.encode(b)))];
    let mut pk = vec![4u8];
    pk.extend_from_slice(&[0x11; 64]);
    let sk = ServerKeyExchange { curve_type: 3, named_curve: 23, public_key: pk.clone(), signature: vec![0x30; 70] };
    let ske = vec![("ske".to_string(), enc(|b| sk.encode(b)))];
    let fake_der: Vec<u8> = (0..96u32).map(|i| (i * 7 + 0x30) as u8).collect();
    let cm1 = CertificateMessage { certificates: vec![fake_der.clone()] };
    let cm2 = CertificateMessage { certificates: vec![fake_der[..10].to_vec(), vec![], fake_der[..5].to_vec()] };
    let cm0 = CertificateMessage { certificates: vec![] };
    let cert = vec![
        ("cert-1".to_string(), enc(|b| cm1.encode(b))),
        ("cert-3".to_string(), enc(|b| cm2.encode(b))),
        ("cert-0".to_string(), enc(|b| cm0.encode(b))),
    ];
    let ck = ClientKeyExchange { identity_hint: vec![], public_key: pk };
    let cke = vec![("cke".to_string(), enc(|b| ck.encode(b)))];
    let fin = Finished { verify_data: vec![0xF1; 12] };
    let finished = vec![("finished".to_string(), enc(|b| fin.encode(b)))];

    let mut handshake = vec![];
    let mut records = vec![];
    let bodies: Vec<(&str, HandshakeType, Vec<u8>)> = vec![
        ("ch-full", HandshakeType::ClientHello, client_hello[0].1.clone()),
        ("ch-min", HandshakeType::ClientHello, client_hello[1].1.clone()),
        ("sh-ext", HandshakeType::ServerHello, server_hello[0].1.clone()),
        ("hvr", HandshakeType::HelloVerifyRequest, hvr[0].1.clone()),
        ("cert-3", HandshakeType::Certificate, cert[1].1.clone()),
        ("ske", HandshakeType::ServerKeyExchange, ske[0].1.clone()),
        ("shd", HandshakeType::ServerHelloDone, vec![]),
        ("cke", HandshakeType::ClientKeyExchange, cke[0].1.clone()),
        ("finished", HandshakeType::Finished, finished[0].1.clone()),
    ];
    let mut flight = BytesMut::new();
    for (k, (n, t, body)) in bodies.iter().enumerate() {
        let m = HandshakeMessage {
            msg_type: *t,
            total_length: body.len() as u32,
            message_seq: k as u16,
            fragment_offset: 0,
            fragment_length: body.len() as u32,
            body: Bytes::from(body.clone()),
        };
        let mb = enc(|b| m.encode(b));
        handshake.push((format!("hs-{n}"), mb.clone()));
        let r = DtlsRecord {
            content_type: ContentType::Handshake,
            version: v12,
            epoch: 0,
            sequence_number: k as u64,
            payload: Bytes::from(mb),
        };
        let rbts = enc(|b| r.encode(b));
        if matches!(*n, "ch-min" | "hvr" | "shd" | "cke" | "finished") {
            flight.extend_from_slice(&rbts);
        }
        records.push((format!("rec-{n}"), rbts));
    }
    for (n, ct, epoch, pl) in [
        ("ccs", ContentType::ChangeCipherSpec, 0u16, vec![1u8]),
        ("alert", ContentType::Alert, 0, vec![2, 40]),
        ("appdata-e1", ContentType::ApplicationData, 1, vec![0xEE; 24]),
    ] {
        let r = DtlsRecord { content_type: ct, version: v12, epoch, sequence_number: 5, payload: Bytes::from(pl) };
        records.push((format!("rec-{n}"), enc(|b| r.encode(b))));
    }
    records.push(("rec-flight5".to_string(), flight.to_vec()));
    DtlsSeeds { client_hello, server_hello, hvr, ske, cert, cke, finished, handshake, records }
}

// ---------------------------------------------------------------------------------------
// DCEP
// ---------------------------------------------------------------------------------------

const DCEP_A: [u8; 8] = [0x00, 0x01, 0x02, 0x03, 0x7F, 0x80, 0xC3, 0xFF];

/// OPEN with fixed type/priority/reliability; body starts at the label length field
fn fr_dcep_open(b: &[u8]) -> Vec<u8> {
    let mut v = vec![0x03, 0x00, 0x00, 0x00, 0x00, 0x00, 0x00, 0x00];
    v.extend_from_slice(b);
    v
}
/// OPEN with label_len=1, protocol_len=1 and the enumerated bytes as label+protocol (UTF-8 checks)
fn fr_dcep_open_strings(b: &[u8]) -> Vec<u8> {
    let l = b.len() / 2;
    let mut v = vec![0x03, 0x80, 0x01, 0x00, 0x00, 0x00, 0x00, 0x05];
    v.extend_from_slice(&(l as u16).to_be_bytes());
    v.extend_from_slice(&((b.len() - l) as u16).to_be_bytes());
    v.extend_from_slice(b);
    v
}
fn run_dcep_open(i: &[u8], _p: &mut Probe) -> u32 {
    match DataChannelOpen::unmarshal(i) {
        Ok(o) => {
            let re = o.marshal();
            1 + (o.label.is_empty() as u32) + 2 * (o.protocol.is_empty() as u32) + 4 * ((re == i) as u32)
        }
        Err(_) => 0,
    }
}
fn run_dcep_ack(i: &[u8], _p: &mut Probe) -> u32 {
    match DataChannelAck::unmarshal(i) {
        Ok(a) => 1 + a.marshal().len() as u32,
        Err(_) => 0,
    }
}
fn dcep_seeds() -> Vec<(String, Vec<u8>)> {
    let mk = |ct: u8, rel: u32, l: &str, p: &str| {
        DataChannelOpen {
            message_type: 0x03,
            channel_type: ct,
            priority: 256,
            reliability_parameter: rel,
            label: l.into(),
            protocol: p.into(),
        }
        .marshal()
    };
    vec![
        ("dcep-open".into(), mk(0x00, 0, "chat", "")),
        ("dcep-open-unordered-rtx".into(), mk(0x81, 3, "d\u{e9}", "proto")),
        ("dcep-open-empty".into(), mk(0x02, 500, "", "")),
        ("dcep-ack".into(), DataChannelAck { message_type: 0x02 }.marshal()),
    ]
}

// ---------------------------------------------------------------------------------------
// SRTP / SRTCP
// ---------------------------------------------------------------------------------------

fn ks() -> sc::KeySet {
    sc::keysets().into_iter().nth(2).unwrap()
}
fn run_srtp_packet_parse(i: &[u8], _p: &mut Probe) -> u32 {
    match SrtpPacket::parse(BytesMut::from(i)) {
        Ok(p) => 1 + p.header().extension.is_some() as u32,
        Err(_) => 0,
    }
}
fn unprotect_rtp(profile: SrtpProfile, i: &[u8]) -> u32 {
    let mut s = sc::receiver_session(profile, &ks());
    let Ok(pk) = SrtpPacket::parse(BytesMut::from(i)) else { return 0 };
    match s.unprotect_rtp(pk) {
        Ok(p) => {
            // the receive path hands the packet on: extension lookup and re-serialisation
            let _ = p.header.get_extension(1);
            let _ = p.marshal();
            2 + rtp_class(&p)
        }
        Err(_) => 1,
    }
}
fn unprotect_rtcp(profile: SrtpProfile, i: &[u8]) -> u32 {
    let mut s = sc::receiver_session(profile, &ks());
    let mut v = i.to_vec();
    match s.unprotect_rtcp(&mut v) {
        Ok(()) => match parse_rtcp_packets(&v, None) {
            Ok(p) => 3 + rtcp_class(&p),
            Err(_) => 2,
        },
        Err(_) => (i.len() >= 14) as u32,
    }
}
macro_rules! srtp_entry {
    ($rtp:ident, $rtcp:ident, $frtp:ident, $frtp_raw:ident, $frtcp:ident, $p:expr) => {
        fn $rtp(i: &[u8], _p: &mut Probe) -> u32 {
            unprotect_rtp($p, i)
        }
        fn $rtcp(i: &[u8], _p: &mut Probe) -> u32 {
            unprotect_rtcp($p, i)
        }
        /// authenticated packet: fixed header, flags from the first byte, enumerated payload,
        /// protected by rustrtc's own sender
        pub fn $frtp(b: &[u8]) -> Vec<u8> {
            protect_plain_rtp($p, b)
        }
        /// authenticated packet whose clear bytes (incl. P/X/CC flags and a possibly inconsistent
        /// padding count) are arbitrary: protected by the independent reference implementation
        pub fn $frtp_raw(b: &[u8]) -> Vec<u8> {
            protect_raw_rtp($p, b)
        }
        /// authenticated SRTCP whose plaintext is `fr_rtcp_any(body)`
        pub fn $frtcp(b: &[u8]) -> Vec<u8> {
            protect_plain_rtcp($p, b)
        }
    };
}
fn protect_plain_rtp(p: SrtpProfile, b: &[u8]) -> Vec<u8> {
    let (f, rest) = match b.split_first() {
        Some((f, r)) => (*f, r),
        None => (0, &[][..]),
    };
    let mut h = RtpHeader::new(96, 0x0102, 0x01020304, 0x11223344);
    if f & 0x10 != 0 {
        h.extension = Some(RtpHeaderExtension::new(0xBEDE, vec![0x10, 0xAA, 0, 0]));
    }
    for k in 0..(f & 0x03) {
        h.csrcs.push(k as u32);
    }
    let mut pk = RtpPacket::new(h, rest.to_vec());
    if f & 0x20 != 0 {
        pk.padding_len = (f >> 6) + 1;
    }
    let mut s = sc::sender_session(p, &ks());
    sc::sess_protect_rtp(&mut s, &pk).unwrap_or_default()
}
fn protect_raw_rtp(p: SrtpProfile, b: &[u8]) -> Vec<u8> {
    if sc::ref_profile(p).is_none() {
        // no reference for the NULL cipher: fall back to the stack's own protect
        return protect_plain_rtp(p, b);
    }
    protect_raw_bytes(p, fr_rtp_flags(b))
}
/// Protect arbitrary clear RTP bytes with the independent reference implementation (it only
/// needs a parseable header); returns the clear bytes if the reference refuses them.
pub fn protect_raw_bytes(p: SrtpProfile, raw: Vec<u8>) -> Vec<u8> {
    let r = std::panic::catch_unwind(|| match sc::new_ref(p, &ks()) {
        Some(mut r) => r.encrypt_rtp(&raw).ok().map(|o| o.to_vec()),
        None => None,
    });
    match r {
        Ok(Some(v)) => v,
        _ => raw,
    }
}
fn protect_plain_rtcp(p: SrtpProfile, b: &[u8]) -> Vec<u8> {
    let plain = fr_rtcp_any(b);
    let mut plain8 = plain.clone();
    if plain8.len() < 8 {
        plain8.resize(8, 0);
    }
    let mut s = sc::sender_session(p, &ks());
    sc::sess_protect_rtcp(&mut s, &plain8).unwrap_or_default()
}
srtp_entry!(run_srtp_rtp_80, run_srtp_rtcp_80, fr_srtp_80, fr_srtp_raw_80, fr_srtcp_80, SrtpProfile::Aes128Sha1_80);
srtp_entry!(run_srtp_rtp_32, run_srtp_rtcp_32, fr_srtp_32, fr_srtp_raw_32, fr_srtcp_32, SrtpProfile::Aes128Sha1_32);
srtp_entry!(run_srtp_rtp_gcm, run_srtp_rtcp_gcm, fr_srtp_gcm, fr_srtp_raw_gcm, fr_srtcp_gcm, SrtpProfile::AeadAes128Gcm);
srtp_entry!(run_srtp_rtp_null, run_srtp_rtcp_null, fr_srtp_null, fr_srtp_raw_null, fr_srtcp_null, SrtpProfile::NullCipherHmac);

pub fn srtp_seeds(p: SrtpProfile, rtcp: bool) -> Vec<(String, Vec<u8>)> {
    let mut out = vec![];
    if rtcp {
        for (n, plain) in rtcp_seeds().into_iter().take(4) {
            let mut s = sc::sender_session(p, &ks());
            if let Ok(b) = sc::sess_protect_rtcp(&mut s, &plain) {
                out.push((format!("srtcp-{n}"), b));
            }
        }
    } else {
        for (n, plain) in rtp_seeds().into_iter().take(6) {
            let Ok(pk) = RtpPacket::parse(&plain) else { continue };
            let mut s = sc::sender_session(p, &ks());
            if let Ok(b) = sc::sess_protect_rtp(&mut s, &pk) {
                out.push((format!("srtp-{n}"), b));
            }
        }
    }
    out
}

// ---------------------------------------------------------------------------------------
// UDPTL (through a real loopback socket: `UdtlTransport::recv` is the only public door)
// ---------------------------------------------------------------------------------------

const UDPTL_A: [u8; 7] = [0x00, 0x01, 0x02, 0x04, 0x7F, 0x80, 0xFF];

struct UdptlRig {
    rt: tokio::runtime::Runtime,
    tx: std::sync::Arc<tokio::net::UdpSocket>,
    rx: UdtlTransport,
    rx_addr: SocketAddr,
}
thread_local! {
    static UDPTL: std::cell::RefCell<Option<UdptlRig>> = const { std::cell::RefCell::new(None) };
}
fn udptl_rig() -> UdptlRig {
    let rt = tokio::runtime::Builder::new_current_thread()
        .enable_all()
        .build()
        .unwrap_or_else(|e| crate::machinery_failure(&format!("tokio runtime: {e}")));
    let (tx, rxs) = rt.block_on(async {
        let a = tokio::net::UdpSocket::bind("127.0.0.1:0").await;
        let b = tokio::net::UdpSocket::bind("127.0.0.1:0").await;
        match (a, b) {
            (Ok(a), Ok(b)) => (std::sync::Arc::new(a), std::sync::Arc::new(b)),
            _ => crate::machinery_failure("cannot bind loopback UDP sockets for the UDPTL entry"),
        }
    });
    let rx_addr = rxs.local_addr().unwrap();
    let tx_addr = tx.local_addr().unwrap();
    let rx = UdtlTransport::new(rxs, tx_addr);
    UdptlRig { rt, tx, rx, rx_addr }
}
fn run_udptl(i: &[u8], p: &mut Probe) -> u32 {
    UDPTL.with(|cell| {
        let mut g = cell.borrow_mut();
        let rig = g.get_or_insert_with(udptl_rig);
        let mut buf = UdtlReceiveBuffer::new();
        // expected_seq follows the datagram's own sequence number so that delivery is reached
        if i.len() >= 2 {
            buf.reset(u16::from_be_bytes([i[0], i[1]]));
        }
        let sent = rig.rt.block_on(rig.tx.send_to(i, rig.rx_addr));
        if sent.is_err() {
            // larger than a UDP datagram can carry: not deliverable
            return 9;
        }
        p.begin();
        let r = rig.rt.block_on(async {
            tokio::time::timeout(Duration::from_secs(5), rig.rx.recv(&mut buf)).await
        });
        p.end();
        match r {
            Err(_) => crate::machinery_failure("UDPTL loopback datagram was not delivered within 5 s"),
            Ok(Ok(Some(_))) => 3,
            Ok(Ok(None)) => 2,
            Ok(Err(_)) => 1,
        }
    })
}
fn udptl_seeds() -> Vec<(String, Vec<u8>)> {
    // produced by UdtlTransport::send over loopback (third packet carries two redundant IFPs)
    let rt = match tokio::runtime::Builder::new_current_thread().enable_all().build() {
        Ok(r) => r,
        Err(_) => return vec![],
    };
    rt.block_on(async {
        let Ok(a) = tokio::net::UdpSocket::bind("127.0.0.1:0").await else { return vec![] };
        let Ok(b) = tokio::net::UdpSocket::bind("127.0.0.1:0").await else { return vec![] };
        let baddr = b.local_addr().unwrap();
        let t = UdtlTransport::new(std::sync::Arc::new(a), baddr);
        let mut out = vec![];
        for (k, ifp) in [&[0x00u8][..], &[0x06, 0x20, 0x01, 0xAA][..], &[0xC0, 0x01, 0x80, 0, 3, 1, 2, 3][..], &[][..]].iter().enumerate() {
            if t.send(ifp).await.is_err() {
                continue;
            }
            let mut buf = vec![0u8; 2048];
            if let Ok(Ok((n, _))) = tokio::time::timeout(Duration::from_secs(2), b.recv_from(&mut buf)).await {
                out.push((format!("udptl-{k}"), buf[..n].to_vec()));
            }
        }
        out
    })
}

// ---------------------------------------------------------------------------------------
// registry
// ---------------------------------------------------------------------------------------

pub fn entries() -> Vec<Entry> {
    let rtp = rtp_seeds();
    let rtcp = rtcp_seeds();
    let d = dtls_seeds();
    let mut v = vec![
        Entry::new("RtpHeader::parse", "src/rtp.rs:67", run_rtp_header_parse, &RTP_A)
            .frame("hdr12+flags(b0)", fr_rtp_flags)
            .frame("hdr12+X", fr_rtp_x)
            .seeds(rtp.clone()),
        Entry::new("RtpPacket::parse", "src/rtp.rs:321", run_rtp_parse, &RTP_A)
            .frame("hdr12+flags(b0)", fr_rtp_flags)
            .frame("hdr12+X", fr_rtp_x)
            .frame("hdr12+P", fr_rtp_p)
            .seeds(rtp.clone()),
        Entry::new("RtpPacket::parse_bytes", "src/rtp.rs:327", run_rtp_parse_bytes, &RTP_A)
            .frame("hdr12+flags(b0)", fr_rtp_flags)
            .seeds(rtp.clone()),
        Entry::new("RtpPacket::parse>get_extension", "src/rtp.rs:123", run_rtp_get_extension, &EXT_A)
            .frame("hdr12+X", fr_rtp_x)
            .frame("BEDE-block", fr_rtp_bede)
            .frame("0x1000-block", fr_rtp_1000)
            .cost(0.6)
            .seeds(rtp.clone()),
        Entry::new("RtpPacket::parse>set_extension>marshal", "src/rtp.rs:182", run_rtp_set_extension, &EXT_A)
            .frame("hdr12+X", fr_rtp_x)
            .frame("BEDE-block", fr_rtp_bede)
            .frame("0x1000-block", fr_rtp_1000)
            .cost(1.5)
            .seeds(rtp.clone()),
        Entry::new("RtpPacket::parse>marshal", "src/rtp.rs:348", run_rtp_marshal, &RTP_A)
            .frame("hdr12+flags(b0)", fr_rtp_flags)
            .frame("hdr12+X", fr_rtp_x)
            .frame("hdr12+P", fr_rtp_p)
            .seeds(rtp.clone()),
        Entry::new("RtpPacket::parse>unwrap_rtx_packet", "src/rtx.rs:51", run_rtx_unwrap, &RTP_A)
            .frame("hdr12+payload", fr_rtp_payload)
            .frame("hdr12+P", fr_rtp_p)
            .seeds(rtp.clone()),
        Entry::new("unwrap_rtx_packet(payload)", "src/rtx.rs:51", run_rtx_unwrap_payload, &RTP_A),
        Entry::new("RtpPacket::parse>depacketizers", "src/media/depacketizer.rs:23", run_rtp_depacketize, &H264_A)
            .frame("hdr12+payload", fr_rtp_payload)
            .cost(1.5)
            .seeds(rtp.clone()),
        Entry::new("H264Depacketizer::push(fresh)", "src/media/depacketizer.rs:78", run_h264_fresh, &H264_A)
            .cost(0.6)
            .seeds(h264_payload_seeds()),
        Entry::new("H264Depacketizer::push(after FU-A start)", "src/media/depacketizer.rs:156", run_h264_after_start, &H264_A)
            .cost(1.2)
            .seeds(h264_payload_seeds()),
        Entry::new("RtpPacket::parse>JitterBuffer::push", "src/media/jitter_buffer.rs:56", run_jitter, &RTP_A)
            .frame("hdr12+flags(b0)", fr_rtp_flags)
            .frame("seq/ts bytes", fr_rtp_seq_ts)
            .cost(3.0)
            .seeds(rtp.clone()),
        Entry::new("parse_rtcp_packets", "src/rtp.rs:511", run_rtcp_parse, &RTCP_A)
            .frame("any(pt,fmt)", fr_rtcp_any)
            .frame("RR+any", fr_rtcp_compound)
            .frame("SR", fr_rtcp_sr)
            .frame("RR", fr_rtcp_rr)
            .frame("SDES", fr_rtcp_sdes)
            .frame("BYE", fr_rtcp_bye)
            .frame("NACK", fr_rtcp_nack)
            .frame("TWCC", fr_rtcp_twcc)
            .frame("FIR", fr_rtcp_fir)
            .frame("REMB", fr_rtcp_remb)
            .seeds(rtcp.clone()),
        Entry::new("parse_rtcp_packets>marshal_rtcp_packets", "src/rtp.rs:564", run_rtcp_reserialise, &RTCP_A)
            .frame("any(pt,fmt)", fr_rtcp_any)
            .frame("SDES", fr_rtcp_sdes)
            .frame("BYE", fr_rtcp_bye)
            .frame("NACK", fr_rtcp_nack)
            .frame("TWCC", fr_rtcp_twcc)
            .frame("REMB", fr_rtcp_remb)
            .cost(0.8)
            .seeds(rtcp.clone()),
        Entry::new("StunMessage::decode", "src/transports/ice/stun.rs:293", run_stun_decode, &STUN_A)
            .frame("binding-ok+attrs", fr_stun_attrs)
            .frame("data-indication+attrs", fr_stun_data_ind)
            .frame("typed", fr_stun_typed)
            .seeds(stun_seeds()),
        Entry::new("StunMessage::decode(one attribute)", "src/transports/ice/stun.rs:395", run_stun_decode, &STUN_ATTR_A)
            .frame("one-attr(type,value)", fr_stun_one_attr),
        Entry::new("DtlsRecord::decode", "src/transports/dtls/record.rs:75", run_record_decode, &DTLS_A)
            .frame("handshake-record(payload)", fr_rec_hs)
            .frame("record(type,epoch,payload)", fr_rec_typed)
            .frame("ccs-record+tail", fr_rec_second)
            .seeds(d.records.clone()),
        Entry::new("HandshakeMessage::decode", "src/transports/dtls/handshake.rs:77", run_hs_decode, &DTLS_A)
            .frame("hs(type,body)", fr_hs_typed)
            .frame("hs-header+tail", fr_hs_after_header)
            .seeds(d.handshake.clone()),
        Entry::new("dtls.datagram>records>handshake>body", "src/transports/dtls/mod.rs:632", run_dtls_chain, &DTLS_A)
            .frame("record>hs(type,body)", fr_rec_hs_body)
            .frame("handshake-record(payload)", fr_rec_hs)
            .cost(0.8)
            .seeds(d.records.clone()),
        Entry::new("ClientHello::decode", "src/transports/dtls/handshake.rs:185", run_client_hello, &DTLS_A)
            .frame("ver+random(34)+tail", fr_hello34)
            .frame("ver+random+sid0(35)+tail", fr_hello35)
            .seeds(d.client_hello.clone()),
        Entry::new("ServerHello::decode", "src/transports/dtls/handshake.rs:291", run_server_hello, &DTLS_A)
            .frame("ver+random(34)+tail", fr_hello34)
            .frame("ver+random+sid0(35)+tail", fr_hello35)
            .seeds(d.server_hello.clone()),
        Entry::new("HelloVerifyRequest::decode", "src/transports/dtls/handshake.rs:356", run_hvr, &DTLS_A)
            .frame("ver+tail", fr_hvr)
            .seeds(d.hvr.clone()),
        Entry::new("ServerKeyExchange::decode", "src/transports/dtls/handshake.rs:408", run_ske, &DTLS_A)
            .frame("curve+tail", fr_ske)
            .seeds(d.ske.clone()),
        Entry::new("CertificateMessage::decode", "src/transports/dtls/handshake.rs:461", run_cert, &DTLS_A)
            .frame("outer-len+tail", fr_cert_outer)
            .seeds(d.cert.clone()),
        Entry::new("ClientKeyExchange::decode", "src/transports/dtls/handshake.rs:513", run_cke, &DTLS_A).seeds(d.cke.clone()),
        Entry::new("Finished::decode", "src/transports/dtls/handshake.rs:541", run_finished, &DTLS_A).seeds(d.finished.clone()),
        Entry::new("DataChannelOpen::unmarshal", "src/transports/datachannel.rs:45", run_dcep_open, &DCEP_A)
            .frame("open-hdr8+tail", fr_dcep_open)
            .frame("open+label/protocol bytes", fr_dcep_open_strings)
            .seeds(dcep_seeds()),
        Entry::new("DataChannelAck::unmarshal", "src/transports/datachannel.rs:93", run_dcep_ack, &DCEP_A).seeds(dcep_seeds()),
        Entry::new("SrtpPacket::parse", "src/srtp.rs:34", run_srtp_packet_parse, &RTP_A)
            .frame("hdr12+flags(b0)", fr_rtp_flags)
            .frame("hdr12+X", fr_rtp_x)
            .seeds(rtp.clone()),
        Entry::new("UdtlTransport::recv", "src/transports/udptl.rs:118", run_udptl, &UDPTL_A)
            .cost(25.0)
            .seeds(udptl_seeds()),
    ];
    macro_rules! srtp {
        ($name_rtp:expr, $name_rtcp:expr, $rtp:ident, $rtcp:ident, $frtp:ident, $fraw:ident, $frtcp:ident, $p:expr) => {
            v.push(
                Entry::new($name_rtp, "src/srtp.rs:178,711", $rtp, &RTP_A)
                    .frame("authenticated(flags,payload) by rustrtc protect", $frtp)
                    .frame("authenticated raw clear bytes by webrtc-srtp", $fraw)
                    .cost(6.0)
                    .seeds(srtp_seeds($p, false)),
            );
            v.push(
                Entry::new($name_rtcp, "src/srtp.rs:214,506", $rtcp, &RTCP_A)
                    .frame("authenticated rtcp any(pt,fmt)", $frtcp)
                    .cost(6.0)
                    .seeds(srtp_seeds($p, true)),
            );
        };
    }
    srtp!("SrtpSession::unprotect_rtp[AES_CM_128_HMAC_SHA1_80]", "SrtpSession::unprotect_rtcp[AES_CM_128_HMAC_SHA1_80]", run_srtp_rtp_80, run_srtp_rtcp_80, fr_srtp_80, fr_srtp_raw_80, fr_srtcp_80, SrtpProfile::Aes128Sha1_80);
    srtp!("SrtpSession::unprotect_rtp[AES_CM_128_HMAC_SHA1_32]", "SrtpSession::unprotect_rtcp[AES_CM_128_HMAC_SHA1_32]", run_srtp_rtp_32, run_srtp_rtcp_32, fr_srtp_32, fr_srtp_raw_32, fr_srtcp_32, SrtpProfile::Aes128Sha1_32);
    srtp!("SrtpSession::unprotect_rtp[AEAD_AES_128_GCM]", "SrtpSession::unprotect_rtcp[AEAD_AES_128_GCM]", run_srtp_rtp_gcm, run_srtp_rtcp_gcm, fr_srtp_gcm, fr_srtp_raw_gcm, fr_srtcp_gcm, SrtpProfile::AeadAes128Gcm);
    srtp!("SrtpSession::unprotect_rtp[NULL_HMAC_SHA1_80]", "SrtpSession::unprotect_rtcp[NULL_HMAC_SHA1_80]", run_srtp_rtp_null, run_srtp_rtcp_null, fr_srtp_null, fr_srtp_raw_null, fr_srtcp_null, SrtpProfile::NullCipherHmac);
    v
}

const H264_A: [u8; 9] = [0x00, 0x01, 0x02, 0x18, 0x1C, 0x40, 0x7C, 0x80, 0xFF];

/// sequence number and timestamp taken from the first six body bytes (jitter-buffer arithmetic)
fn fr_rtp_seq_ts(b: &[u8]) -> Vec<u8> {
    let mut v = RTP_FIXED.to_vec();
    for (k, x) in b.iter().take(6).enumerate() {
        v[2 + k] = *x;
    }
    v.extend_from_slice(&[1, 2, 3, 4]);
    if b.len() > 6 {
        v[1] = b[6];
    }
    v
}
