//! Datagrams through the real receive pipeline without a network: `IceConn::receive` (the
//! first-byte classifier) -> `RtpTransport::receive` (SRTP unprotect, RTCP parse, demux by
//! rid/mid/ssrc/pt, rewrite bridge that stamps the MID extension and re-serialises towards a
//! second transport). All objects are rustrtc's own, built through public constructors; the
//! socket is the cfg-guarded in-memory `IceSocketWrapper::Verif`.
use super::Entry;
use super::oracle::Probe;
use crate::srtp_common as sc;
use bytes::Bytes;
use rustrtc::rtp::{RtcpPacket, RtpPacket};
use rustrtc::transports::PacketReceiver;
use rustrtc::transports::ice::IceSocketWrapper;
use rustrtc::transports::ice::conn::IceConn;
use rustrtc::transports::rtp::RtpTransport;
use rustrtc::verif::{VerifDatagram, VerifSocket};
use rustrtc::{RtpRewriteBridgeOptions, RtpRewriteRule, SrtpProfile};
use std::net::SocketAddr;
use std::sync::Arc;
use tokio::sync::{mpsc, watch};

fn sa(s: &str) -> SocketAddr {
    s.parse().unwrap()
}
struct End {
    conn: Arc<IceConn>,
    tr: Arc<RtpTransport>,
    rx: mpsc::UnboundedReceiver<VerifDatagram>,
    _sock_tx: watch::Sender<Option<IceSocketWrapper>>,
}
fn mk_end(local: &str, remote: &str, srtp_required: bool) -> End {
    let (tx, rx) = mpsc::unbounded_channel();
    let sock = IceSocketWrapper::Verif(Arc::new(VerifSocket { local: sa(local), tx }));
    let (stx, srx) = watch::channel(Some(sock));
    let conn = IceConn::new(srx, sa(remote), None);
    let tr = Arc::new(RtpTransport::new(conn.clone(), srtp_required));
    conn.set_rtp_receiver(tr.clone() as Arc<dyn PacketReceiver>);
    End { conn, tr, rx, _sock_tx: stx }
}

thread_local! {
    static RT: tokio::runtime::Runtime = tokio::runtime::Builder::new_current_thread()
        .enable_time()
        .build()
        .unwrap_or_else(|e| crate::machinery_failure(&format!("tokio runtime: {e}")));
}

#[derive(Clone, Copy)]
enum Mode {
    Plain,
    /// plain source bridged to a plain destination, MID stamped with extension id 3
    Bridge,
    /// plain source bridged to an SRTP destination (protect on relay), extensions stripped
    BridgeStrip,
    Srtp(SrtpProfile),
    /// SRTP source bridged with MID stamp to a plain destination
    SrtpBridge(SrtpProfile),
}

fn ks() -> sc::KeySet {
    sc::keysets().into_iter().nth(2).unwrap()
}

fn run_mode(mode: Mode, i: &[u8], p: &mut Probe) -> u32 {
    RT.with(|rt| {
        rt.block_on(async {
            let peer = "10.0.0.2:6000";
            let a = mk_end("10.0.0.1:5000", peer, matches!(mode, Mode::Srtp(_) | Mode::SrtpBridge(_)));
            let (ltx, mut lrx) = mpsc::channel::<(RtpPacket, SocketAddr)>(64);
            a.tr.register_listener_sync(0x11223344, ltx.clone());
            a.tr.register_rid_listener("hi".into(), ltx.clone());
            a.tr.register_mid_listener("0".into(), ltx.clone());
            a.tr.register_pt_listener(96, ltx.clone());
            a.tr.register_provisional_listener(ltx);
            let (rtx, mut rrx) = mpsc::channel::<Vec<RtcpPacket>>(64);
            a.tr.register_rtcp_listener(rtx);
            a.tr.set_rid_extension_id(Some(1));
            a.tr.set_abs_send_time_extension_id(Some(2));
            a.tr.set_sdes_mid_extension_id(Some(3));
            match mode {
                Mode::Srtp(pr) | Mode::SrtpBridge(pr) => a.tr.start_srtp(sc::receiver_session(pr, &ks())),
                _ => {}
            }
            let mut b = None;
            if matches!(mode, Mode::Bridge | Mode::BridgeStrip | Mode::SrtpBridge(_)) {
                let strip = matches!(mode, Mode::BridgeStrip);
                let e = mk_end("10.0.1.1:5000", "10.0.1.2:6000", strip);
                if strip {
                    e.tr.start_srtp(sc::sender_session(SrtpProfile::Aes128Sha1_80, &ks()));
                }
                let rule = RtpRewriteRule {
                    match_payload_type: None,
                    fixed_out_ssrc: Some(0x0D0E0F00),
                    ssrc_offset: 0,
                    out_payload_type: Some(111),
                    sdes_mid_extension_id: Some(3),
                    sdes_mid: Some("0".into()),
                };
                let opts = RtpRewriteBridgeOptions {
                    strip_extensions: strip,
                    initial_sequence_number: Some(0xFFFF),
                    initial_timestamp_offset: Some(0xFFFF_FF00),
                    initial_output_timestamp: None,
                };
                a.tr.bridge_rewrite_rules_to(e.tr.clone(), opts, vec![rule]);
                b = Some(e);
            }
            let mut buf = Vec::new();
            let pkt = Bytes::copy_from_slice(i);
            p.begin();
            a.conn.receive(pkt.clone(), sa(peer), &mut buf).await;
            // a second datagram finds the per-SSRC state created by the first
            a.conn.receive(pkt, sa(peer), &mut buf).await;
            p.end();
            let mut c = 1u32;
            while let Ok((q, _)) = lrx.try_recv() {
                let _ = q.marshal();
                c += 1;
            }
            while let Ok(v) = rrx.try_recv() {
                c += 8 * (1 + v.len().min(3) as u32);
            }
            if let Some(e) = b.as_mut() {
                while let Ok((d, _, _)) = e.rx.try_recv() {
                    c += 64;
                    if !matches!(mode, Mode::BridgeStrip) {
                        // what went out must be parseable RTP again
                        if RtpPacket::parse(&d).is_err() {
                            c += 1024;
                        }
                    }
                }
            }
            let _ = a.tr.received_rtp_packets();
            drop(a.rx);
            c
        })
    })
}

fn run_plain(i: &[u8], p: &mut Probe) -> u32 {
    run_mode(Mode::Plain, i, p)
}
fn run_bridge(i: &[u8], p: &mut Probe) -> u32 {
    run_mode(Mode::Bridge, i, p)
}
fn run_bridge_strip(i: &[u8], p: &mut Probe) -> u32 {
    run_mode(Mode::BridgeStrip, i, p)
}
fn run_srtp80(i: &[u8], p: &mut Probe) -> u32 {
    run_mode(Mode::Srtp(SrtpProfile::Aes128Sha1_80), i, p)
}
fn run_srtp_gcm(i: &[u8], p: &mut Probe) -> u32 {
    run_mode(Mode::Srtp(SrtpProfile::AeadAes128Gcm), i, p)
}
fn run_srtp80_bridge(i: &[u8], p: &mut Probe) -> u32 {
    run_mode(Mode::SrtpBridge(SrtpProfile::Aes128Sha1_80), i, p)
}

/// any first byte (classifier), then enumerated bytes
fn fr_first_byte(b: &[u8]) -> Vec<u8> {
    b.to_vec()
}

pub fn entries() -> Vec<Entry> {
    use super::entries_bin as eb;
    let rtp = eb::rtp_seeds();
    let rtcp = eb::rtcp_seeds();
    let mut both = rtp.clone();
    both.extend(rtcp.iter().take(5).cloned());
    let anchor = "src/transports/ice/conn.rs:483; src/transports/rtp.rs:950,833,222";
    vec![
        Entry::new("IceConn::receive>RtpTransport::receive[plain]", anchor, run_plain, &eb::EXT_A)
            .frame("datagram", fr_first_byte)
            .frame("hdr12+flags(b0)", eb::fr_rtp_flags)
            .frame("BEDE-block", eb::fr_rtp_bede)
            .frame("0x1000-block", eb::fr_rtp_1000)
            .frame("rtcp any(pt,fmt)", eb::fr_rtcp_any)
            .cost(6.0)
            .seeds(both.clone()),
        Entry::new("IceConn::receive>RtpTransport::receive[plain,bridge+MID stamp]", anchor, run_bridge, &eb::EXT_A)
            .frame("hdr12+flags(b0)", eb::fr_rtp_flags)
            .frame("hdr12+X", eb::fr_rtp_x)
            .frame("BEDE-block", eb::fr_rtp_bede)
            .frame("0x1000-block", eb::fr_rtp_1000)
            .cost(8.0)
            .seeds(rtp.clone()),
        Entry::new("IceConn::receive>RtpTransport::receive[plain,bridge strip->SRTP]", anchor, run_bridge_strip, &eb::EXT_A)
            .frame("hdr12+flags(b0)", eb::fr_rtp_flags)
            .frame("BEDE-block", eb::fr_rtp_bede)
            .cost(10.0)
            .seeds(rtp.clone()),
        Entry::new("IceConn::receive>RtpTransport::receive[AES_CM_128_HMAC_SHA1_80]", anchor, run_srtp80, &eb::RTP_A)
            .frame("authenticated(flags,payload) by rustrtc protect", eb::fr_srtp_80)
            .frame("authenticated raw clear bytes by webrtc-srtp", eb::fr_srtp_raw_80)
            .frame("authenticated rtcp any(pt,fmt)", eb::fr_srtcp_80)
            .cost(12.0)
            .seeds(eb::srtp_seeds(SrtpProfile::Aes128Sha1_80, false))
            .seeds(eb::srtp_seeds(SrtpProfile::Aes128Sha1_80, true)),
        Entry::new("IceConn::receive>RtpTransport::receive[AEAD_AES_128_GCM]", anchor, run_srtp_gcm, &eb::RTP_A)
            .frame("authenticated(flags,payload) by rustrtc protect", eb::fr_srtp_gcm)
            .frame("authenticated raw clear bytes by webrtc-srtp", eb::fr_srtp_raw_gcm)
            .frame("authenticated rtcp any(pt,fmt)", eb::fr_srtcp_gcm)
            .cost(12.0)
            .seeds(eb::srtp_seeds(SrtpProfile::AeadAes128Gcm, false))
            .seeds(eb::srtp_seeds(SrtpProfile::AeadAes128Gcm, true)),
        Entry::new("IceConn::receive>RtpTransport::receive[AES_CM_128_HMAC_SHA1_80,bridge+MID stamp]", anchor, run_srtp80_bridge, &eb::EXT_A)
            .frame("authenticated BEDE-block by webrtc-srtp", fr_srtp_raw_bede)
            .cost(14.0)
            .seeds(eb::srtp_seeds(SrtpProfile::Aes128Sha1_80, false)),
    ]
}

/// authenticated packet whose one-byte-header extension block is the enumerated string
fn fr_srtp_raw_bede(b: &[u8]) -> Vec<u8> {
    super::entries_bin::protect_raw_bytes(SrtpProfile::Aes128Sha1_80, super::entries_bin::fr_rtp_bede(b))
}
