//! C14, PeerConnection-level part (engine E5: finite lattice on real loopback).
//!
//! One real `PeerConnection` in an SRTP-mandatory mode (SDES-SRTP or WebRTC/DTLS-SRTP) talks to
//! a bare UDP socket owned by the harness (the "peer").  The peer plays the remote side of the
//! offer/answer exchange with a hand-written description (one variant per lattice point),
//! answers ICE connectivity checks, completes (or withholds, or spoils) the DTLS handshake with
//! rustrtc's own `DtlsTransport` running on an in-memory socket that is spliced onto the UDP
//! socket, injects cleartext RTP / RTCP at one of three phases and records every datagram the
//! PeerConnection emits.  Each point runs on its own runtime and OS-assigned ports.
//!
//! Oracle (exactly the property):
//!  * nothing derived from a cleartext datagram reaches a public sink of the PeerConnection:
//!    the receiver track, a configured receiver interceptor, an `RtpObserver`, the sender's RTCP
//!    subscription;
//!  * every datagram the PeerConnection emits to the peer socket whose first byte is 128..=191
//!    (RTP / RTCP; STUN and DTLS records are not media) authenticates under the negotiated SRTP
//!    transmit keys (independent `webrtc-srtp` context) when keys exist; when no keys exist no
//!    such datagram is emitted at all (in particular the close-time BYE).
//! Liveness (authentic media is delivered, protected media is emitted) is counted for the
//! vacuity guards, never judged.
use async_trait::async_trait;
use bytes::Bytes;
use parking_lot::Mutex;
use rustrtc::media::MediaStreamTrack;
use rustrtc::media::frame::{AudioFrame, MediaKind as FrameKind, MediaSample};
use rustrtc::media::track::sample_track;
use rustrtc::peer_connection::RtpObserver;
use rustrtc::rtp::{RtcpPacket, RtpHeader, RtpPacket};
use rustrtc::transports::PacketReceiver;
use rustrtc::transports::dtls::{self, DtlsState, DtlsTransport};
use rustrtc::transports::ice::IceSocketWrapper;
use rustrtc::transports::ice::conn::IceConn;
use rustrtc::transports::rtp::RtpTransport;
use rustrtc::verif::{VerifDatagram, VerifSocket};
use rustrtc::{
    PeerConnection, PeerConnectionState, RtcConfiguration, RtpCodecParameters, RtpReceiverInterceptor, SdpType,
    SessionDescription, TransportMode,
};
use serde_json::{Value, json};
use srtp::context::Context as RefContext;
use srtp::protection_profile::ProtectionProfile;
use std::collections::BTreeMap;
use std::net::SocketAddr;
use std::sync::Arc;
use std::sync::atomic::{AtomicBool, AtomicU64, Ordering};
use std::time::{Duration, Instant};
use tokio::net::UdpSocket;
use tokio::sync::{mpsc, watch};

// ------------------------------------------------------------------------------------------
// Lattice

#[derive(Clone, Copy, Debug, PartialEq, Eq, Hash, PartialOrd, Ord)]
pub enum Mode {
    Srtp,
    WebRtc,
    /// plain RTP: only used as the negative control, never part of the lattice
    Rtp,
}
#[derive(Clone, Copy, Debug, PartialEq, Eq, Hash, PartialOrd, Ord)]
pub enum Variant {
    WellFormed,
    // SDES
    NoCrypto,
    SuiteMismatch,
    ShortKey,
    // WebRTC
    NoFingerprint,
    DtlsSilent,
    FingerprintMismatch,
}
#[derive(Clone, Copy, Debug, PartialEq, Eq, Hash, PartialOrd, Ord)]
pub enum Phase {
    BeforeRemote,
    AfterRemote,
    AfterTerminal,
}
#[derive(Clone, Copy, Debug, PartialEq, Eq, Hash, PartialOrd, Ord)]
pub enum Traffic {
    Rtp,
    Rtcp,
}
#[derive(Clone, Copy, Debug, PartialEq, Eq, Hash, PartialOrd, Ord)]
pub enum End {
    Close,
    Drop,
}

/// Crypto suite the peer puts into its well-formed SDES description (the PeerConnection mirrors
/// an offered suite in its answer; its own offers always carry AES_CM_128_HMAC_SHA1_80).
#[derive(Clone, Copy, Debug, PartialEq, Eq, Hash, PartialOrd, Ord)]
pub enum Suite {
    Sha1_80,
    Sha1_32,
    Gcm,
}
pub fn suite_name(s: Suite) -> &'static str {
    match s {
        Suite::Sha1_80 => "AES_CM_128_HMAC_SHA1_80",
        Suite::Sha1_32 => "AES_CM_128_HMAC_SHA1_32",
        Suite::Gcm => "AEAD_AES_128_GCM",
    }
}
const SUITES: [Suite; 3] = [Suite::Sha1_80, Suite::Sha1_32, Suite::Gcm];

#[derive(Clone, Copy, Debug, PartialEq, Eq, Hash, PartialOrd, Ord)]
pub struct Point {
    pub mode: Mode,
    pub pc_offers: bool,
    pub variant: Variant,
    pub phase: Phase,
    pub traffic: Traffic,
    pub end: End,
    /// only varied for (Srtp, peer offers, well-formed); Sha1_80 everywhere else
    pub suite: Suite,
}

pub fn mode_name(m: Mode) -> &'static str {
    match m {
        Mode::Srtp => "Srtp",
        Mode::WebRtc => "WebRtc",
        Mode::Rtp => "Rtp",
    }
}
pub fn variant_name(v: Variant) -> &'static str {
    match v {
        Variant::WellFormed => "well-formed",
        Variant::NoCrypto => "no-crypto",
        Variant::SuiteMismatch => "suite-mismatch",
        Variant::ShortKey => "short-key",
        Variant::NoFingerprint => "no-fingerprint",
        Variant::DtlsSilent => "dtls-never-completes",
        Variant::FingerprintMismatch => "fingerprint-mismatch",
    }
}
pub fn phase_name(p: Phase) -> &'static str {
    match p {
        Phase::BeforeRemote => "before-remote-description",
        Phase::AfterRemote => "after-remote-description",
        Phase::AfterTerminal => "after-failed-or-connected",
    }
}
pub fn traffic_name(t: Traffic) -> &'static str {
    match t {
        Traffic::Rtp => "cleartext-rtp",
        Traffic::Rtcp => "cleartext-rtcp",
    }
}
pub fn end_name(e: End) -> &'static str {
    match e {
        End::Close => "close",
        End::Drop => "drop",
    }
}

const MODES: [Mode; 2] = [Mode::Srtp, Mode::WebRtc];
const SDES_VARIANTS: [Variant; 4] = [Variant::WellFormed, Variant::NoCrypto, Variant::SuiteMismatch, Variant::ShortKey];
const WEBRTC_VARIANTS: [Variant; 4] =
    [Variant::WellFormed, Variant::NoFingerprint, Variant::DtlsSilent, Variant::FingerprintMismatch];
const PHASES: [Phase; 3] = [Phase::BeforeRemote, Phase::AfterRemote, Phase::AfterTerminal];
const TRAFFICS: [Traffic; 2] = [Traffic::Rtp, Traffic::Rtcp];
const ENDS: [End; 2] = [End::Close, End::Drop];

pub fn variants_of(m: Mode) -> &'static [Variant] {
    match m {
        Mode::Srtp => &SDES_VARIANTS,
        Mode::WebRtc => &WEBRTC_VARIANTS,
        Mode::Rtp => &[Variant::WellFormed],
    }
}

/// The full product (both tiers enumerate all of it).  `all_suites` (thorough tier) adds, for
/// the well-formed SDES offer made by the peer, the two other suites rustrtc implements.
pub fn lattice(all_suites: bool) -> Vec<Point> {
    let mut v = vec![];
    for mode in MODES {
        for pc_offers in [true, false] {
            for variant in variants_of(mode) {
                let suites: &[Suite] =
                    if all_suites && mode == Mode::Srtp && !pc_offers && *variant == Variant::WellFormed { &SUITES } else { &SUITES[..1] };
                for suite in suites {
                    for phase in PHASES {
                        for traffic in TRAFFICS {
                            for end in ENDS {
                                v.push(Point { mode, pc_offers, variant: *variant, phase, traffic, end, suite: *suite });
                            }
                        }
                    }
                }
            }
        }
    }
    v
}

pub fn point_json(p: &Point) -> Value {
    json!({
        "part": "pc-level",
        "mode": mode_name(p.mode),
        "offerer": if p.pc_offers { "pc" } else { "peer" },
        "variant": variant_name(p.variant),
        "phase": phase_name(p.phase),
        "traffic": traffic_name(p.traffic),
        "end": end_name(p.end),
        "suite": suite_name(p.suite),
    })
}

pub fn point_from_json(v: &Value) -> Option<Point> {
    let s = |k: &str| v.get(k).and_then(|x| x.as_str());
    let mode = [Mode::Srtp, Mode::WebRtc, Mode::Rtp].into_iter().find(|m| Some(mode_name(*m)) == s("mode"))?;
    let pc_offers = match s("offerer")? {
        "pc" => true,
        "peer" => false,
        _ => return None,
    };
    let variant = [
        Variant::WellFormed,
        Variant::NoCrypto,
        Variant::SuiteMismatch,
        Variant::ShortKey,
        Variant::NoFingerprint,
        Variant::DtlsSilent,
        Variant::FingerprintMismatch,
    ]
    .into_iter()
    .find(|x| Some(variant_name(*x)) == s("variant"))?;
    let phase = PHASES.into_iter().find(|x| Some(phase_name(*x)) == s("phase"))?;
    let traffic = TRAFFICS.into_iter().find(|x| Some(traffic_name(*x)) == s("traffic"))?;
    let end = ENDS.into_iter().find(|x| Some(end_name(*x)) == s("end"))?;
    let suite = SUITES.into_iter().find(|x| Some(suite_name(*x)) == s("suite")).unwrap_or(Suite::Sha1_80);
    Some(Point { mode, pc_offers, variant, phase, traffic, end, suite })
}

// ------------------------------------------------------------------------------------------
// Small wire helpers

const CLEAR_MARK: &[u8] = b"C14-CLEARTEXT-INBOUND";
const AUTH_MARK: &[u8] = b"C14-AUTHENTIC-INBOUND";
const OUT_MARK: &[u8] = b"C14-OUTBOUND-PLAINTEXT";
const RAW_MARK: &[u8] = b"C14-RAWSEND-PLAINTEXT";
const PEER_SSRC: u32 = 0x0C14_5EED;
const RAW_SSRC: u32 = 0x0C14_0BAD;
const PT_PCMU: u8 = 0;
const PEER_UFRAG: &str = "c14peer";
const PEER_PWD: &str = "c14peerpassword0123456789";

fn contains(hay: &[u8], needle: &[u8]) -> bool {
    hay.len() >= needle.len() && hay.windows(needle.len()).any(|w| w == needle)
}

fn b64_encode(d: &[u8]) -> String {
    const T: &[u8; 64] = b"ABCDEFGHIJKLMNOPQRSTUVWXYZabcdefghijklmnopqrstuvwxyz0123456789+/";
    let mut s = String::new();
    for c in d.chunks(3) {
        let n = (c[0] as u32) << 16 | (*c.get(1).unwrap_or(&0) as u32) << 8 | *c.get(2).unwrap_or(&0) as u32;
        s.push(T[(n >> 18) as usize & 63] as char);
        s.push(T[(n >> 12) as usize & 63] as char);
        s.push(if c.len() > 1 { T[(n >> 6) as usize & 63] as char } else { '=' });
        s.push(if c.len() > 2 { T[n as usize & 63] as char } else { '=' });
    }
    s
}

fn b64_decode(s: &str) -> Option<Vec<u8>> {
    let mut out = vec![];
    let mut acc = 0u32;
    let mut bits = 0;
    for ch in s.bytes() {
        let v = match ch {
            b'A'..=b'Z' => ch - b'A',
            b'a'..=b'z' => ch - b'a' + 26,
            b'0'..=b'9' => ch - b'0' + 52,
            b'+' => 62,
            b'/' => 63,
            b'=' => break,
            _ => return None,
        };
        acc = acc << 6 | v as u32;
        bits += 6;
        if bits >= 8 {
            bits -= 8;
            out.push((acc >> bits) as u8);
        }
    }
    Some(out)
}

fn plain_rtp(pt: u8, ssrc: u32, seq: u16, ts: u32, mark: &[u8], tag: u8) -> Vec<u8> {
    let mut v = vec![0x80, pt & 0x7f];
    v.extend_from_slice(&seq.to_be_bytes());
    v.extend_from_slice(&ts.to_be_bytes());
    v.extend_from_slice(&ssrc.to_be_bytes());
    v.extend_from_slice(mark);
    v.push(b'#');
    v.push(tag);
    while v.len() < 12 + 160 {
        v.push(0x55);
    }
    v
}

fn rtcp_sr(ssrc: u32, tag: u32) -> Vec<u8> {
    let mut v = vec![0x80, 200, 0, 6];
    v.extend_from_slice(&ssrc.to_be_bytes());
    v.extend_from_slice(&0x0C14_0C14u32.to_be_bytes());
    v.extend_from_slice(&tag.to_be_bytes());
    v.extend_from_slice(&0x1000u32.to_be_bytes());
    v.extend_from_slice(&7u32.to_be_bytes());
    v.extend_from_slice(&1120u32.to_be_bytes());
    v
}
fn rtcp_pli(sender: u32, media: u32) -> Vec<u8> {
    let mut v = vec![0x81, 206, 0, 2];
    v.extend_from_slice(&sender.to_be_bytes());
    v.extend_from_slice(&media.to_be_bytes());
    v
}
fn rtcp_bye(ssrc: u32) -> Vec<u8> {
    let mut v = vec![0x81, 203, 0, 1];
    v.extend_from_slice(&ssrc.to_be_bytes());
    v
}

// --- STUN (RFC 5389 / 8445 subset; encoder as validated in C06) ---
const MAGIC: u32 = 0x2112_A442;
fn hmac_sha1(key: &[u8], data: &[u8]) -> [u8; 20] {
    use hmac::{Hmac, Mac};
    let mut mac = <Hmac<sha1::Sha1> as hmac::digest::KeyInit>::new_from_slice(key).expect("hmac key");
    mac.update(data);
    let mut out = [0u8; 20];
    out.copy_from_slice(&mac.finalize().into_bytes());
    out
}
fn put_attr(b: &mut Vec<u8>, typ: u16, val: &[u8]) {
    b.extend_from_slice(&typ.to_be_bytes());
    b.extend_from_slice(&(val.len() as u16).to_be_bytes());
    b.extend_from_slice(val);
    while b.len() % 4 != 0 {
        b.push(0);
    }
}
fn build_stun(typ: u16, txid: &[u8; 12], attrs: &[(u16, Vec<u8>)], key: &[u8]) -> Vec<u8> {
    let mut b = vec![0u8; 20];
    b[0..2].copy_from_slice(&typ.to_be_bytes());
    b[4..8].copy_from_slice(&MAGIC.to_be_bytes());
    b[8..20].copy_from_slice(txid);
    for (t, v) in attrs {
        put_attr(&mut b, *t, v);
    }
    let body = (b.len() - 20 + 24) as u16;
    b[2..4].copy_from_slice(&body.to_be_bytes());
    let h = hmac_sha1(key, &b);
    put_attr(&mut b, 0x0008, &h);
    let body = (b.len() - 20 + 8) as u16;
    b[2..4].copy_from_slice(&body.to_be_bytes());
    let c = crc32fast::hash(&b) ^ 0x5354_554e;
    put_attr(&mut b, 0x8028, &c.to_be_bytes());
    b
}
fn xor_mapped(addr: SocketAddr) -> Vec<u8> {
    let mut v = vec![0u8, 1];
    v.extend_from_slice(&(addr.port() ^ (MAGIC >> 16) as u16).to_be_bytes());
    if let SocketAddr::V4(a) = addr {
        let c = MAGIC.to_be_bytes();
        for (i, o) in a.ip().octets().iter().enumerate() {
            v.push(o ^ c[i]);
        }
    }
    v
}

// ------------------------------------------------------------------------------------------
// Reference SRTP

#[derive(Clone, Debug)]
struct Keys {
    profile: ProtectionProfile,
    profile_name: &'static str,
    /// what the PeerConnection protects with
    pc_tx: (Vec<u8>, Vec<u8>),
    /// what the peer protects with (the PeerConnection's receive keys)
    peer_tx: (Vec<u8>, Vec<u8>),
}

fn profile_by_suite(s: &str) -> Option<(ProtectionProfile, &'static str, usize)> {
    match s {
        "AES_CM_128_HMAC_SHA1_80" => Some((ProtectionProfile::Aes128CmHmacSha1_80, "AES_CM_128_HMAC_SHA1_80", 14)),
        "AES_CM_128_HMAC_SHA1_32" => Some((ProtectionProfile::Aes128CmHmacSha1_32, "AES_CM_128_HMAC_SHA1_32", 14)),
        "AEAD_AES_128_GCM" => Some((ProtectionProfile::AeadAes128Gcm, "AEAD_AES_128_GCM", 12)),
        _ => None,
    }
}

fn new_ref(profile: ProtectionProfile, k: &(Vec<u8>, Vec<u8>)) -> Result<RefContext, String> {
    RefContext::new(&k.0, &k.1, profile, None, None).map_err(|e| format!("reference Context::new: {e}"))
}

fn ref_auth_rtp(ctx: &mut RefContext, bytes: &[u8]) -> bool {
    vcore::catch(std::panic::AssertUnwindSafe(|| ctx.decrypt_rtp(bytes).is_ok())).unwrap_or(false)
}

/// webrtc-srtp's AES-CM cipher returns an SRTCP packet whose E bit is 0 without checking the
/// tag, so for those profiles the E bit must be set before the reference is consulted (same
/// tolerance as the transport-level part).
fn ref_auth_rtcp(profile: ProtectionProfile, ctx: &mut RefContext, bytes: &[u8]) -> bool {
    if !matches!(profile, ProtectionProfile::AeadAes128Gcm) {
        if bytes.len() < 8 + 4 + 10 || bytes[bytes.len() - 14] & 0x80 == 0 {
            return false;
        }
    } else if bytes.len() < 8 + 16 + 4 {
        return false;
    }
    vcore::catch(std::panic::AssertUnwindSafe(|| ctx.decrypt_rtcp(bytes).is_ok())).unwrap_or(false)
}

// ------------------------------------------------------------------------------------------
// Public sinks of the PeerConnection

#[derive(Default)]
struct Sinks {
    obs_clear: AtomicU64,
    obs_auth: AtomicU64,
    obs_other: AtomicU64,
    icpt_clear: AtomicU64,
    icpt_auth: AtomicU64,
    icpt_rtcp: AtomicU64,
    track_clear: AtomicU64,
    track_auth: AtomicU64,
    track_other: AtomicU64,
    sender_rtcp: AtomicU64,
}

impl RtpObserver for Sinks {
    fn on_ingress(&self, p: &RtpPacket, _a: SocketAddr) {
        if contains(&p.payload, CLEAR_MARK) {
            self.obs_clear.fetch_add(1, Ordering::SeqCst);
        } else if contains(&p.payload, AUTH_MARK) {
            self.obs_auth.fetch_add(1, Ordering::SeqCst);
        } else {
            self.obs_other.fetch_add(1, Ordering::SeqCst);
        }
    }
}

#[async_trait]
impl RtpReceiverInterceptor for Sinks {
    async fn on_packet_received(&self, p: &RtpPacket, _src: SocketAddr, _local: SocketAddr) -> Option<RtcpPacket> {
        if contains(&p.payload, CLEAR_MARK) {
            self.icpt_clear.fetch_add(1, Ordering::SeqCst);
        } else if contains(&p.payload, AUTH_MARK) {
            self.icpt_auth.fetch_add(1, Ordering::SeqCst);
        }
        None
    }
    async fn on_rtcp_received(&self, _p: &RtcpPacket, _t: Arc<RtpTransport>) {
        self.icpt_rtcp.fetch_add(1, Ordering::SeqCst);
    }
}

// ------------------------------------------------------------------------------------------
// The peer: one UDP socket, a reader task, optional DTLS endpoint spliced in

#[derive(Clone, Copy, PartialEq, Eq, Debug, PartialOrd, Ord)]
enum Stage {
    BeforeRemote,
    AfterRemote,
    AfterTerminal,
    AtEnd,
}
fn stage_name(s: Stage, end: End) -> String {
    match s {
        Stage::BeforeRemote => "before-remote-description".into(),
        Stage::AfterRemote => "after-remote-description".into(),
        Stage::AfterTerminal => "after-failed-or-connected".into(),
        Stage::AtEnd => format!("at-{}", end_name(end)),
    }
}

struct PeerShared {
    sock: Arc<UdpSocket>,
    addr: SocketAddr,
    stage: Mutex<Stage>,
    /// media datagrams (first byte 128..=191) received from anywhere: (stage, from, bytes)
    media: Mutex<Vec<(Stage, SocketAddr, Vec<u8>)>>,
    stun_requests: AtomicU64,
    stun_other: AtomicU64,
    dtls_in: AtomicU64,
    other_in: AtomicU64,
    answer_stun: AtomicBool,
    /// (pc ufrag, pc pwd): when set and `nominate` is on, the peer nominates (PC is controlled)
    pc_ice: Mutex<Option<(String, String)>>,
    nominate: AtomicBool,
    /// DTLS datagrams are held here until the endpoint is attached
    dtls_held: Mutex<Vec<Vec<u8>>>,
    dtls_feed: Mutex<Option<mpsc::UnboundedSender<Vec<u8>>>>,
    txid_ctr: AtomicU64,
}

impl PeerShared {
    async fn reader(self: Arc<Self>) {
        let mut buf = vec![0u8; 4096];
        loop {
            let Ok((n, from)) = self.sock.recv_from(&mut buf).await else { return };
            if n == 0 {
                continue;
            }
            let d = &buf[..n];
            match d[0] {
                0..=3 => self.on_stun(d, from).await,
                20..=63 => {
                    self.dtls_in.fetch_add(1, Ordering::SeqCst);
                    let feed = self.dtls_feed.lock().clone();
                    match feed {
                        Some(tx) => {
                            let _ = tx.send(d.to_vec());
                        }
                        None => self.dtls_held.lock().push(d.to_vec()),
                    }
                }
                128..=191 => {
                    let st = *self.stage.lock();
                    self.media.lock().push((st, from, d.to_vec()));
                }
                _ => {
                    self.other_in.fetch_add(1, Ordering::SeqCst);
                }
            }
        }
    }

    async fn on_stun(&self, d: &[u8], from: SocketAddr) {
        if d.len() < 20 || u32::from_be_bytes([d[4], d[5], d[6], d[7]]) != MAGIC {
            self.stun_other.fetch_add(1, Ordering::SeqCst);
            return;
        }
        let typ = u16::from_be_bytes([d[0], d[1]]);
        if typ != 0x0001 {
            self.stun_other.fetch_add(1, Ordering::SeqCst);
            return;
        }
        let n = self.stun_requests.fetch_add(1, Ordering::SeqCst);
        if !self.answer_stun.load(Ordering::SeqCst) {
            return;
        }
        let mut txid = [0u8; 12];
        txid.copy_from_slice(&d[8..20]);
        let ok = build_stun(0x0101, &txid, &[(0x0020, xor_mapped(from))], PEER_PWD.as_bytes());
        let _ = self.sock.send_to(&ok, from).await;
        if self.nominate.load(Ordering::SeqCst) && n < 4 {
            let ice = self.pc_ice.lock().clone();
            if let Some((ufrag, pwd)) = ice {
                let c = self.txid_ctr.fetch_add(1, Ordering::SeqCst);
                let mut t = [0u8; 12];
                t[..4].copy_from_slice(b"C14\0");
                t[4..].copy_from_slice(&c.to_be_bytes());
                let attrs = vec![
                    (0x0006u16, format!("{ufrag}:{PEER_UFRAG}").into_bytes()),
                    (0x0024, ((110u32 << 24) | (65_535 << 8) | 255).to_be_bytes().to_vec()),
                    (0x802A, 0x0C14_0C14_0C14_0C14u64.to_be_bytes().to_vec()),
                    (0x0025, vec![]),
                ];
                let req = build_stun(0x0001, &t, &attrs, pwd.as_bytes());
                let _ = self.sock.send_to(&req, from).await;
            }
        }
    }
}

struct Certs {
    real: dtls::Certificate,
    other: dtls::Certificate,
}
fn certs() -> &'static Certs {
    static C: std::sync::OnceLock<Certs> = std::sync::OnceLock::new();
    C.get_or_init(|| Certs {
        real: dtls::generate_certificate().expect("certificate"),
        other: dtls::generate_certificate().expect("certificate"),
    })
}

struct DtlsEnd {
    dtls: Arc<DtlsTransport>,
    tasks: Vec<tokio::task::JoinHandle<()>>,
    _keep: watch::Sender<Option<IceSocketWrapper>>,
    _conn: Arc<IceConn>,
}

async fn attach_dtls(peer: &Arc<PeerShared>, pc_addr: SocketAddr, is_client: bool, cert: dtls::Certificate) -> Result<DtlsEnd, String> {
    let (net_tx, mut net_rx) = mpsc::unbounded_channel::<VerifDatagram>();
    let sock = IceSocketWrapper::Verif(Arc::new(VerifSocket { local: peer.addr, tx: net_tx }));
    let (stx, srx) = watch::channel(Some(sock));
    let conn = IceConn::new(srx, pc_addr, None);
    let (dtls_t, incoming, runner) =
        DtlsTransport::new(conn.clone(), cert, is_client, 100, None).await.map_err(|e| format!("peer DtlsTransport::new: {e}"))?;
    let mut tasks = vec![tokio::spawn(runner)];
    let out_sock = peer.sock.clone();
    tasks.push(tokio::spawn(async move {
        while let Some((bytes, _from, to)) = net_rx.recv().await {
            let _ = out_sock.send_to(&bytes, to).await;
        }
    }));
    let (feed_tx, mut feed_rx) = mpsc::unbounded_channel::<Vec<u8>>();
    let conn2 = conn.clone();
    tasks.push(tokio::spawn(async move {
        let _incoming = incoming; // keep the application-data channel open
        let mut buf = Vec::new();
        while let Some(d) = feed_rx.recv().await {
            conn2.receive(Bytes::from(d), pc_addr, &mut buf).await;
        }
    }));
    // splice: first what was held, then live
    {
        let mut feed = peer.dtls_feed.lock();
        let held: Vec<Vec<u8>> = std::mem::take(&mut *peer.dtls_held.lock());
        for d in held {
            let _ = feed_tx.send(d);
        }
        *feed = Some(feed_tx);
    }
    Ok(DtlsEnd { dtls: dtls_t, tasks, _keep: stx, _conn: conn })
}

// ------------------------------------------------------------------------------------------
// Outcome of one point

#[derive(Clone, Debug)]
pub struct Finding {
    pub signature: String,
    pub detail: String,
}

#[derive(Clone, Debug, Default)]
pub struct Outcome {
    pub findings: Vec<Finding>,
    /// harness trouble (never a verdict)
    pub machinery: Option<String>,
    pub terminal: String,
    pub keys: bool,
    pub clear_injected: u64,
    pub media_emitted: u64,
    pub emitted_auth_rtp: u64,
    pub emitted_auth_rtcp: u64,
    pub authentic_injected: u64,
    pub authentic_delivered_track: u64,
    pub authentic_seen_observer: u64,
    pub stun_requests: u64,
    pub dtls_in: u64,
    pub ended_closed: bool,
    pub wall_ms: u64,
    pub trace: Vec<String>,
}

impl Outcome {
    /// structural class of the run, for the outcome-diversity count
    pub fn class(&self) -> String {
        format!(
            "{}|keys={}|emit={}|auth_rtp={}|auth_rtcp={}|deliv={}|viol={}",
            self.terminal,
            self.keys,
            self.media_emitted.min(1),
            self.emitted_auth_rtp.min(1),
            self.emitted_auth_rtcp.min(1),
            self.authentic_delivered_track.min(1),
            self.findings.len().min(1)
        )
    }
    pub fn to_json(&self, p: &Point) -> Value {
        json!({
            "point": point_json(p),
            "terminal": self.terminal,
            "keys_exist": self.keys,
            "cleartext_datagrams_injected": self.clear_injected,
            "media_datagrams_emitted_by_pc": self.media_emitted,
            "emitted_authenticated_srtp": self.emitted_auth_rtp,
            "emitted_authenticated_srtcp": self.emitted_auth_rtcp,
            "authentic_injected": self.authentic_injected,
            "authentic_delivered_to_track": self.authentic_delivered_track,
            "stun_requests_from_pc": self.stun_requests,
            "dtls_datagrams_from_pc": self.dtls_in,
            "ended_in_closed_state": self.ended_closed,
            "wall_ms": self.wall_ms,
            "violations": self.findings.iter().map(|f| f.signature.clone()).collect::<Vec<_>>(),
            "machinery": self.machinery,
        })
    }
}

struct Run {
    p: Point,
    t0: Instant,
    verbose: bool,
    trace: Vec<String>,
}
impl Run {
    fn log(&mut self, s: impl Into<String>) {
        let s = format!("[{:>5} ms] {}", self.t0.elapsed().as_millis(), s.into());
        if self.verbose {
            println!("    {s}");
        }
        self.trace.push(s);
    }
}

fn attr_of<'a>(d: &'a SessionDescription, key: &str) -> Option<&'a str> {
    for m in &d.media_sections {
        if let Some(a) = m.attributes.iter().find(|a| a.key == key) {
            return Some(a.value.as_deref().unwrap_or(""));
        }
    }
    d.session.attributes.iter().find(|a| a.key == key).map(|a| a.value.as_deref().unwrap_or(""))
}

fn peer_sdes_key() -> Vec<u8> {
    (0..30u8).map(|i| i.wrapping_mul(37) ^ 0xC1).collect()
}

/// The description the peer sends (as offer or answer).
fn peer_sdp(p: &Point, peer_addr: SocketAddr, mid: &str, setup: &str, fingerprint: &str, pt: u8, rtpmap: &str) -> String {
    let mut s = String::new();
    s.push_str("v=0\r\no=- 4242 1 IN IP4 127.0.0.1\r\ns=-\r\nc=IN IP4 127.0.0.1\r\nt=0 0\r\n");
    let proto = match p.mode {
        Mode::Srtp => "RTP/SAVP",
        Mode::WebRtc => "UDP/TLS/RTP/SAVPF",
        Mode::Rtp => "RTP/AVP",
    };
    if p.mode == Mode::WebRtc && !mid.is_empty() {
        s.push_str(&format!("a=group:BUNDLE {mid}\r\n"));
    }
    s.push_str(&format!("m=audio {} {proto} {pt}\r\n", peer_addr.port()));
    s.push_str("c=IN IP4 127.0.0.1\r\n");
    if !mid.is_empty() {
        s.push_str(&format!("a=mid:{mid}\r\n"));
    }
    s.push_str(&format!("a=rtpmap:{pt} {rtpmap}\r\na=sendrecv\r\na=rtcp-mux\r\n"));
    s.push_str(&format!("a=ssrc:{PEER_SSRC} cname:c14peer\r\n"));
    match p.mode {
        Mode::Srtp => {
            let key = peer_sdes_key();
            match p.variant {
                Variant::WellFormed => {
                    let n = if p.suite == Suite::Gcm { 28 } else { 30 };
                    s.push_str(&format!("a=crypto:1 {} inline:{}\r\n", suite_name(p.suite), b64_encode(&key[..n])))
                }
                Variant::NoCrypto => {}
                Variant::SuiteMismatch => {
                    // as answer: a supported suite that is not the offered one; as offer: a suite
                    // of RFC 4568 that rustrtc does not implement (it answers with its default)
                    if p.pc_offers {
                        s.push_str(&format!("a=crypto:1 AEAD_AES_128_GCM inline:{}\r\n", b64_encode(&key[..28])))
                    } else {
                        s.push_str(&format!("a=crypto:1 F8_128_HMAC_SHA1_80 inline:{}\r\n", b64_encode(&key)))
                    }
                }
                Variant::ShortKey => {
                    s.push_str(&format!("a=crypto:1 AES_CM_128_HMAC_SHA1_80 inline:{}\r\n", b64_encode(&key[..20])))
                }
                _ => {}
            }
        }
        Mode::WebRtc => {
            s.push_str(&format!("a=ice-ufrag:{PEER_UFRAG}\r\na=ice-pwd:{PEER_PWD}\r\n"));
            if p.variant != Variant::NoFingerprint {
                s.push_str(&format!("a=fingerprint:sha-256 {fingerprint}\r\n"));
            }
            s.push_str(&format!("a=setup:{setup}\r\n"));
            s.push_str(&format!("a=candidate:1 1 udp 2130706431 127.0.0.1 {} typ host\r\n", peer_addr.port()));
            s.push_str("a=end-of-candidates\r\n");
        }
        Mode::Rtp => {}
    }
    s
}

async fn wait_until(cap: Duration, mut cond: impl FnMut() -> bool) -> bool {
    let end = Instant::now() + cap;
    loop {
        if cond() {
            return true;
        }
        if Instant::now() >= end {
            return false;
        }
        tokio::time::sleep(Duration::from_millis(2)).await;
    }
}

const STEP_CAP: Duration = Duration::from_secs(5);

async fn step<T, E: std::fmt::Display>(what: &str, f: impl std::future::Future<Output = Result<T, E>>) -> Result<T, String> {
    match tokio::time::timeout(STEP_CAP, f).await {
        Ok(Ok(v)) => Ok(v),
        Ok(Err(e)) => Err(format!("{what}: {e}")),
        Err(_) => Err(format!("{what}: no return within {STEP_CAP:?}")),
    }
}

struct Injector {
    peer: Arc<PeerShared>,
    pc_addr: SocketAddr,
    /// payload type of the negotiated codec (the first format of the PC's offer, or PCMU when
    /// the peer offers)
    pt: u8,
    seq: u16,
    sent: u64,
}
impl Injector {
    /// cleartext traffic of the point's kind, from the negotiated remote address
    async fn clear(&mut self, traffic: Traffic, stage_tag: u8, pc_sender_ssrc: u32) {
        match traffic {
            Traffic::Rtp => {
                for _ in 0..3 {
                    self.seq = self.seq.wrapping_add(1);
                    let d = plain_rtp(self.pt, PEER_SSRC, self.seq, 160 * self.seq as u32, CLEAR_MARK, stage_tag);
                    let _ = self.peer.sock.send_to(&d, self.pc_addr).await;
                    self.sent += 1;
                }
            }
            Traffic::Rtcp => {
                let mut a = rtcp_sr(PEER_SSRC, stage_tag as u32);
                a.extend(rtcp_pli(PEER_SSRC, pc_sender_ssrc));
                let mut b = rtcp_sr(PEER_SSRC, 0x100 | stage_tag as u32);
                b.extend(rtcp_bye(PEER_SSRC));
                let c = rtcp_bye(PEER_SSRC);
                for d in [a, b, c] {
                    let _ = self.peer.sock.send_to(&d, self.pc_addr).await;
                    self.sent += 1;
                }
            }
        }
    }
}

/// Everything about one point.  `Err` = harness trouble.
async fn run_point_async(p: Point, verbose: bool) -> Outcome {
    let mut run = Run { p, t0: Instant::now(), verbose, trace: vec![] };
    let mut out = Outcome::default();
    let r = drive(&mut run, &mut out).await;
    if let Err(e) = r {
        run.log(format!("MACHINERY: {e}"));
        out.machinery = Some(e);
    }
    out.wall_ms = run.t0.elapsed().as_millis() as u64;
    out.trace = run.trace;
    out
}

async fn drive(run: &mut Run, out: &mut Outcome) -> Result<(), String> {
    let p = run.p;
    let sock = Arc::new(UdpSocket::bind("127.0.0.1:0").await.map_err(|e| format!("bind: {e}"))?);
    let peer_addr = sock.local_addr().map_err(|e| e.to_string())?;
    let peer = Arc::new(PeerShared {
        sock,
        addr: peer_addr,
        stage: Mutex::new(Stage::BeforeRemote),
        media: Mutex::new(vec![]),
        stun_requests: AtomicU64::new(0),
        stun_other: AtomicU64::new(0),
        dtls_in: AtomicU64::new(0),
        other_in: AtomicU64::new(0),
        answer_stun: AtomicBool::new(true),
        pc_ice: Mutex::new(None),
        nominate: AtomicBool::new(false),
        dtls_held: Mutex::new(vec![]),
        dtls_feed: Mutex::new(None),
        txid_ctr: AtomicU64::new(1),
    });
    let reader = tokio::spawn(peer.clone().reader());
    let sinks = Arc::new(Sinks::default());

    let mut cfg = RtcConfiguration::default();
    cfg.transport_mode = match p.mode {
        Mode::Srtp => TransportMode::Srtp,
        Mode::WebRtc => TransportMode::WebRtc,
        Mode::Rtp => TransportMode::Rtp,
    };
    cfg.bind_ip = Some("127.0.0.1".into());
    cfg.disable_ipv6 = true;
    cfg.recorder_interceptors.receivers.push(sinks.clone() as Arc<dyn RtpReceiverInterceptor>);
    let pc = PeerConnection::new(cfg);
    let (source, track, _fb) = sample_track(FrameKind::Audio, 64);
    let params = RtpCodecParameters { payload_type: PT_PCMU, name: "PCMU".into(), clock_rate: 8000, channels: 1 };
    let sender = pc.add_track(track, params).map_err(|e| format!("add_track: {e}"))?;
    let pc_sender_ssrc = sender.ssrc();
    // sender's RTCP subscription (public sink for feedback RTCP)
    let mut sender_rtcp_rx = sender.subscribe_rtcp();
    let sinks_r = sinks.clone();
    let sender_rtcp_task = tokio::spawn(async move {
        while sender_rtcp_rx.recv().await.is_ok() {
            sinks_r.sender_rtcp.fetch_add(1, Ordering::SeqCst);
        }
    });
    drop(sender);

    // normal send: the application pushes a sample every 10 ms for the whole run
    let feeding = Arc::new(AtomicBool::new(true));
    let feeder = {
        let feeding = feeding.clone();
        tokio::spawn(async move {
            let mut i = 0u32;
            while feeding.load(Ordering::SeqCst) {
                let mut data = OUT_MARK.to_vec();
                data.resize(160, 0x2a);
                let _ = source.send(MediaSample::Audio(AudioFrame {
                    rtp_timestamp: 160 * i,
                    clock_rate: 8000,
                    data: Bytes::from(data),
                    ..Default::default()
                }));
                i += 1;
                tokio::time::sleep(Duration::from_millis(10)).await;
            }
            drop(source);
        })
    };

    let mut state_rx = pc.subscribe_peer_state();
    let certs = certs();
    let fingerprint = dtls::fingerprint(&certs.real);

    // --- local side up to the point where the PC's address is known ---
    let mut offer: Option<SessionDescription> = None;
    if p.pc_offers {
        let _ = step("create_offer", pc.create_offer()).await?;
        tokio::time::timeout(STEP_CAP, pc.wait_for_gathering_complete()).await.map_err(|_| "gathering did not complete")?;
        let o = step("create_offer", pc.create_offer()).await?;
        pc.set_local_description(o.clone()).map_err(|e| format!("set_local_description(offer): {e}"))?;
        offer = Some(o);
    } else {
        tokio::time::timeout(STEP_CAP, pc.wait_for_gathering_complete()).await.map_err(|_| "gathering did not complete")?;
        // SDES mode binds its socket only while building a description; an answerer that wants
        // its port known earlier starts gathering through the public ICE handle
        if pc.ice_transport().local_candidates().is_empty() {
            pc.ice_transport().start_gathering().map_err(|e| format!("start_gathering: {e}"))?;
            let ice = pc.ice_transport();
            wait_until(Duration::from_secs(2), || !ice.local_candidates().is_empty()).await;
        }
    }
    let pc_addr = if p.pc_offers && p.mode != Mode::WebRtc {
        let d = pc.local_description().ok_or("no local description")?;
        let m = d.media_sections.first().ok_or("no media section")?;
        let conn = m.connection.clone().or_else(|| d.session.connection.clone()).ok_or("no c= line")?;
        let ip = conn.split_whitespace().last().unwrap_or("").to_string();
        format!("{ip}:{}", m.port).parse::<SocketAddr>().map_err(|e| format!("pc media address: {e}"))?
    } else {
        let c = pc.ice_transport().local_candidates();
        c.iter().find(|c| c.transport == "udp").map(|c| c.address).ok_or("PC has no UDP candidate")?
    };
    run.log(format!("pc={pc_addr} peer={peer_addr} sender_ssrc={pc_sender_ssrc:#x}"));
    // the codec the peer's description carries: the first format of the PC's offer, PCMU otherwise
    let (pt, rtpmap) = match &offer {
        Some(o) => {
            let m = o.media_sections.first().ok_or("offer without media section")?;
            let f = m.formats.first().ok_or("offer without formats")?.clone();
            let map = m
                .attributes
                .iter()
                .filter(|a| a.key == "rtpmap")
                .filter_map(|a| a.value.as_deref())
                .find_map(|v| v.strip_prefix(&format!("{f} ")).map(|x| x.to_string()))
                .unwrap_or_else(|| "PCMU/8000".to_string());
            (f.parse::<u8>().map_err(|e| format!("offer format {f}: {e}"))?, map)
        }
        None => (PT_PCMU, "PCMU/8000".to_string()),
    };
    let mut inj = Injector { peer: peer.clone(), pc_addr, pt, seq: 100, sent: 0 };

    // receiver-track reader (the receiver exists from the start when the PC offers; when it
    // answers the transceiver is the one add_track created and is reused for the remote offer)
    let reader_tasks: Arc<Mutex<Vec<tokio::task::JoinHandle<()>>>> = Arc::new(Mutex::new(vec![]));
    let watched: Arc<Mutex<Vec<usize>>> = Arc::new(Mutex::new(vec![]));
    let watch_tracks = |pc: &PeerConnection| {
        for t in pc.get_transceivers() {
            if let Some(r) = t.receiver() {
                let tr = r.track();
                let key = Arc::as_ptr(&tr) as *const () as usize;
                if watched.lock().contains(&key) {
                    continue;
                }
                watched.lock().push(key);
                let s = sinks.clone();
                reader_tasks.lock().push(tokio::spawn(async move {
                    loop {
                        match tr.recv().await {
                            Ok(MediaSample::Audio(f)) => {
                                if contains(&f.data, CLEAR_MARK) {
                                    s.track_clear.fetch_add(1, Ordering::SeqCst);
                                } else if contains(&f.data, AUTH_MARK) {
                                    s.track_auth.fetch_add(1, Ordering::SeqCst);
                                } else {
                                    s.track_other.fetch_add(1, Ordering::SeqCst);
                                }
                            }
                            Ok(_) => {
                                s.track_other.fetch_add(1, Ordering::SeqCst);
                            }
                            Err(_) => break,
                        }
                    }
                }));
            }
        }
    };
    watch_tracks(&pc);

    // --- phase 0 ---
    if p.phase == Phase::BeforeRemote {
        inj.clear(p.traffic, b'0', pc_sender_ssrc).await;
        run.log(format!("injected {} cleartext datagrams before the remote description", inj.sent));
        tokio::time::sleep(Duration::from_millis(20)).await;
    }

    // --- remote description ---
    let mut pc_is_dtls_client = false;
    let mut set_remote_err: Option<String> = None;
    if p.pc_offers {
        let o = offer.as_ref().unwrap();
        let mid = o.media_sections.first().map(|m| m.mid.clone()).unwrap_or_default();
        // PC offered actpass: the peer answers passive, so the PC is the DTLS client
        pc_is_dtls_client = true;
        let sdp = peer_sdp(&p, peer_addr, &mid, "passive", &fingerprint, pt, &rtpmap);
        if run.verbose {
            run.log(format!("pc offer:\n{}", o.to_sdp_string()));
            run.log(format!("peer answer:\n{sdp}"));
        }
        if p.mode == Mode::WebRtc {
            let ld = pc.local_description().ok_or("no local description")?;
            let u = attr_of(&ld, "ice-ufrag").ok_or("pc offer without ice-ufrag")?.to_string();
            let w = attr_of(&ld, "ice-pwd").ok_or("pc offer without ice-pwd")?.to_string();
            *peer.pc_ice.lock() = Some((u, w));
        }
        let ans = SessionDescription::parse(SdpType::Answer, &sdp).map_err(|e| format!("harness answer does not parse: {e}"))?;
        *peer.stage.lock() = Stage::AfterRemote;
        match tokio::time::timeout(STEP_CAP, pc.set_remote_description(ans)).await {
            Ok(Ok(())) => {}
            Ok(Err(e)) => set_remote_err = Some(e.to_string()),
            Err(_) => return Err("set_remote_description(answer) did not return".into()),
        }
    } else {
        let sdp = peer_sdp(&p, peer_addr, "0", "actpass", &fingerprint, pt, &rtpmap);
        if run.verbose {
            run.log(format!("peer offer:\n{sdp}"));
        }
        let off = SessionDescription::parse(SdpType::Offer, &sdp).map_err(|e| format!("harness offer does not parse: {e}"))?;
        *peer.stage.lock() = Stage::AfterRemote;
        match tokio::time::timeout(STEP_CAP, pc.set_remote_description(off)).await {
            Ok(Ok(())) => {}
            Ok(Err(e)) => set_remote_err = Some(e.to_string()),
            Err(_) => return Err("set_remote_description(offer) did not return".into()),
        }
    }
    if let Some(e) = &set_remote_err {
        run.log(format!("set_remote_description refused: {e}"));
    }
    watch_tracks(&pc);

    // --- phase 1 (first half): right after the remote description ---
    if p.phase == Phase::AfterRemote {
        inj.clear(p.traffic, b'1', pc_sender_ssrc).await;
        run.log("injected cleartext right after set_remote_description");
    }

    // --- the answer, when the PC answers ---
    if !p.pc_offers && set_remote_err.is_none() {
        if p.phase == Phase::AfterRemote {
            tokio::time::sleep(Duration::from_millis(30)).await;
        }
        let a = step("create_answer", pc.create_answer()).await?;
        if run.verbose {
            run.log(format!("pc answer:\n{}", a.to_sdp_string()));
        }
        pc.set_local_description(a.clone()).map_err(|e| format!("set_local_description(answer): {e}"))?;
        if p.mode == Mode::WebRtc {
            let ld = pc.local_description().ok_or("no local description")?;
            let u = attr_of(&ld, "ice-ufrag").ok_or("pc answer without ice-ufrag")?.to_string();
            let w = attr_of(&ld, "ice-pwd").ok_or("pc answer without ice-pwd")?.to_string();
            *peer.pc_ice.lock() = Some((u, w));
            peer.nominate.store(true, Ordering::SeqCst);
            pc_is_dtls_client = match attr_of(&ld, "setup") {
                Some("active") => true,
                Some("passive") => false,
                other => return Err(format!("pc answer has a=setup:{other:?}")),
            };
        }
        watch_tracks(&pc);
    }

    // --- WebRTC: ICE, then (second half of phase 1) traffic while the transport exists without
    //     keys, then the peer's DTLS endpoint ---
    let mut dtls_end: Option<DtlsEnd> = None;
    let started = set_remote_err.is_none();
    if p.mode == Mode::WebRtc && started {
        let nom = pc.ice_transport().subscribe_nomination_complete();
        let ok = wait_until(STEP_CAP, || *nom.borrow() == Some(true)).await;
        if !ok {
            return Err(format!(
                "ICE nomination did not complete (stun requests seen {}, ice state {:?})",
                peer.stun_requests.load(Ordering::SeqCst),
                pc.ice_transport().state()
            ));
        }
        run.log("ICE nominated");
        if p.phase == Phase::AfterRemote {
            // the PC creates its RTP transport right after nomination
            let _ = tokio::time::timeout(Duration::from_millis(300), pc.wait_for_rtp_transport_ready(Duration::from_millis(300))).await;
            pc.add_observer(sinks.clone() as Arc<dyn RtpObserver>);
            inj.clear(p.traffic, b'2', pc_sender_ssrc).await;
            run.log("injected cleartext after ICE, before the peer takes part in DTLS");
            tokio::time::sleep(Duration::from_millis(40)).await;
        }
        if p.variant != Variant::DtlsSilent {
            let cert = if p.variant == Variant::FingerprintMismatch { certs.other.clone() } else { certs.real.clone() };
            dtls_end = Some(attach_dtls(&peer, pc_addr, !pc_is_dtls_client, cert).await?);
            run.log(format!("peer DTLS endpoint attached (peer is {})", if pc_is_dtls_client { "server" } else { "client" }));
        }
    }

    // --- terminal state ---
    let expect_fail_fast = matches!(p.variant, Variant::NoCrypto | Variant::SuiteMismatch | Variant::ShortKey);
    let mut terminal = "not-started".to_string();
    if started {
        if p.variant == Variant::DtlsSilent {
            tokio::time::sleep(Duration::from_millis(250)).await;
            terminal = format!("{:?}", *state_rx.borrow()).to_lowercase();
        } else {
            let cap = if p.variant == Variant::FingerprintMismatch { Duration::from_secs(8) } else { STEP_CAP };
            let end = Instant::now() + cap;
            loop {
                let s = *state_rx.borrow_and_update();
                if matches!(s, PeerConnectionState::Connected | PeerConnectionState::Failed | PeerConnectionState::Closed) {
                    terminal = format!("{s:?}").to_lowercase();
                    break;
                }
                let left = end.saturating_duration_since(Instant::now());
                if left.is_zero() {
                    terminal = format!("{s:?}").to_lowercase();
                    break;
                }
                let _ = tokio::time::timeout(left.min(Duration::from_millis(50)), state_rx.changed()).await;
            }
        }
    }
    run.log(format!("terminal state: {terminal}"));
    out.terminal = terminal.clone();
    if p.variant == Variant::WellFormed && terminal != "connected" {
        return Err(format!("well-formed exchange did not reach Connected (state {terminal}, set_remote error {set_remote_err:?})"));
    }
    if expect_fail_fast && terminal != "failed" {
        return Err(format!("variant {} did not make the PeerConnection report Failed (state {terminal})", variant_name(p.variant)));
    }
    *peer.stage.lock() = Stage::AfterTerminal;
    watch_tracks(&pc);
    pc.add_observer(sinks.clone() as Arc<dyn RtpObserver>);

    // --- negotiated keys, when they exist ---
    let mut keys: Option<Keys> = None;
    if terminal == "connected" {
        match p.mode {
            Mode::Srtp => {
                let ld = pc.local_description().ok_or("no local description")?;
                let c = ld.media_sections.first().and_then(|m| m.get_crypto_attributes().into_iter().next()).ok_or("pc description without a=crypto")?;
                let (prof, name, salt_len) = profile_by_suite(&c.crypto_suite).ok_or_else(|| format!("pc chose suite {}", c.crypto_suite))?;
                let b = c.key_params.strip_prefix("inline:").and_then(|s| s.split('|').next()).and_then(b64_decode).ok_or("pc a=crypto key does not decode")?;
                if b.len() < 16 + salt_len {
                    return Err("pc a=crypto key too short".into());
                }
                let pk = peer_sdes_key();
                keys = Some(Keys {
                    profile: prof,
                    profile_name: name,
                    pc_tx: (b[..16].to_vec(), b[16..16 + salt_len].to_vec()),
                    peer_tx: (pk[..16].to_vec(), pk[16..16 + salt_len].to_vec()),
                });
            }
            Mode::WebRtc => {
                let de = dtls_end.as_ref().ok_or("connected without a peer DTLS endpoint")?;
                let mut rx = de.dtls.subscribe_state();
                let mut prof_id = None;
                let ok = wait_until(Duration::from_secs(2), || {
                    if let DtlsState::Connected(_, pr) = &*rx.borrow_and_update() {
                        prof_id = Some(*pr);
                        true
                    } else {
                        false
                    }
                })
                .await;
                if !ok {
                    return Err("PeerConnection reports Connected but the peer's DTLS endpoint is not connected".into());
                }
                let (prof, name, salt_len) = match prof_id.flatten() {
                    Some(0x0002) => profile_by_suite("AES_CM_128_HMAC_SHA1_32").unwrap(),
                    Some(0x0007) => profile_by_suite("AEAD_AES_128_GCM").unwrap(),
                    _ => profile_by_suite("AES_CM_128_HMAC_SHA1_80").unwrap(),
                };
                let mat = de.dtls.export_keying_material("EXTRACTOR-dtls_srtp", 2 * (16 + salt_len)).map_err(|e| format!("export_keying_material: {e}"))?;
                let ck = mat[0..16].to_vec();
                let sk = mat[16..32].to_vec();
                let cs = mat[32..32 + salt_len].to_vec();
                let ss = mat[32 + salt_len..32 + 2 * salt_len].to_vec();
                let (pc_tx, peer_tx) = if pc_is_dtls_client { ((ck, cs), (sk, ss)) } else { ((sk, ss), (ck, cs)) };
                keys = Some(Keys { profile: prof, profile_name: name, pc_tx, peer_tx });
            }
            Mode::Rtp => {}
        }
    }
    out.keys = keys.is_some();
    if let Some(k) = &keys {
        run.log(format!("keys exist ({})", k.profile_name));
    }

    // --- phase 2 ---
    if p.phase == Phase::AfterTerminal {
        inj.clear(p.traffic, b'3', pc_sender_ssrc).await;
        run.log("injected cleartext after the terminal state");
    }

    // --- raw send through the public escape hatch; authentic traffic as the positive control ---
    {
        let mut payload = RAW_MARK.to_vec();
        payload.resize(160, 0x3b);
        let pkt = RtpPacket::new(RtpHeader::new(PT_PCMU, 7000, 1600, RAW_SSRC), payload);
        let r = tokio::time::timeout(Duration::from_secs(2), pc.send_raw_rtp(pkt)).await;
        run.log(format!(
            "send_raw_rtp -> {}",
            match &r {
                Ok(Ok(())) => "ok".to_string(),
                Ok(Err(e)) => format!("err({e})"),
                Err(_) => "no return".to_string(),
            }
        ));
    }
    if let Some(k) = &keys {
        let mut tx = new_ref(k.profile, &k.peer_tx)?;
        let mut sent = 0u64;
        for round in 0..30u16 {
            let raw = plain_rtp(pt, PEER_SSRC, 20_000 + round, 160 * (20_000 + round as u32), AUTH_MARK, b'A');
            let prot = tx.encrypt_rtp(&raw).map_err(|e| format!("reference encrypt_rtp: {e}"))?;
            let _ = peer.sock.send_to(&prot, pc_addr).await;
            sent += 1;
            tokio::time::sleep(Duration::from_millis(15)).await;
            let have_out = peer.media.lock().iter().any(|(_, f, _)| *f == pc_addr);
            if round >= 2 && sinks.track_auth.load(Ordering::SeqCst) > 0 && have_out {
                break;
            }
        }
        out.authentic_injected = sent;
        tokio::time::sleep(Duration::from_millis(60)).await;
    } else if p.mode == Mode::Rtp {
        tokio::time::sleep(Duration::from_millis(200)).await;
    } else {
        tokio::time::sleep(Duration::from_millis(150)).await;
    }

    // --- the terminating call ---
    *peer.stage.lock() = Stage::AtEnd;
    tokio::time::sleep(Duration::from_millis(5)).await;
    let mut end_rx = pc.subscribe_peer_state();
    match p.end {
        End::Close => {
            pc.close();
            run.log("close()");
            tokio::time::sleep(Duration::from_millis(150)).await;
            out.ended_closed = *end_rx.borrow_and_update() == PeerConnectionState::Closed;
            drop(pc);
        }
        End::Drop => {
            drop(pc);
            run.log("dropped the PeerConnection");
            tokio::time::sleep(Duration::from_millis(150)).await;
            out.ended_closed = *end_rx.borrow_and_update() == PeerConnectionState::Closed;
        }
    }
    drop(state_rx);
    feeding.store(false, Ordering::SeqCst);
    let _ = feeder.await;
    tokio::time::sleep(Duration::from_millis(30)).await;

    // --- judge ---
    out.clear_injected = inj.sent;
    out.stun_requests = peer.stun_requests.load(Ordering::SeqCst);
    out.dtls_in = peer.dtls_in.load(Ordering::SeqCst);
    out.authentic_delivered_track = sinks.track_auth.load(Ordering::SeqCst);
    out.authentic_seen_observer = sinks.obs_auth.load(Ordering::SeqCst);
    let tail = |what: &str| format!("{what};mode={};variant={};phase={}", mode_name(p.mode), variant_name(p.variant), phase_name(p.phase));
    let ctx_txt = format!(
        "point {} (terminal state {}, keys {}, {} cleartext datagrams injected from the negotiated remote address {})",
        point_json(&p),
        out.terminal,
        if out.keys { "exist" } else { "do not exist" },
        inj.sent,
        peer_addr
    );
    for (sink, n) in [
        ("track", sinks.track_clear.load(Ordering::SeqCst)),
        ("observer", sinks.obs_clear.load(Ordering::SeqCst)),
        ("interceptor", sinks.icpt_clear.load(Ordering::SeqCst)),
    ] {
        if n > 0 {
            out.findings.push(Finding {
                signature: format!("pc-level;{}", tail(&format!("cleartext-delivered:{sink}"))),
                detail: format!("{n} item(s) carrying the cleartext marker reached the {sink}; {ctx_txt}"),
            });
        }
    }
    // no authentic RTCP is ever sent by the peer, so anything at these sinks stems from cleartext
    for (sink, n) in [
        ("sender-rtcp-subscription", sinks.sender_rtcp.load(Ordering::SeqCst)),
        ("interceptor-rtcp", sinks.icpt_rtcp.load(Ordering::SeqCst)),
    ] {
        if n > 0 {
            out.findings.push(Finding {
                signature: format!("pc-level;{}", tail(&format!("cleartext-delivered:{sink}"))),
                detail: format!("{n} RTCP packet(s) reached the {sink} although the peer only ever sent cleartext RTCP; {ctx_txt}"),
            });
        }
    }
    let media: Vec<(Stage, SocketAddr, Vec<u8>)> = peer.media.lock().clone();
    let mut ref_out = match &keys {
        Some(k) => Some((k.profile, new_ref(k.profile, &k.pc_tx)?)),
        None => None,
    };
    let mut emitted: BTreeMap<String, (u64, String)> = BTreeMap::new();
    for (st, from, d) in &media {
        if *from != pc_addr {
            continue;
        }
        out.media_emitted += 1;
        let looks_rtcp = d.len() >= 2 && (192..=223).contains(&d[1]);
        let what = match &mut ref_out {
            Some((prof, ctx)) => {
                let ok = if looks_rtcp {
                    if ref_auth_rtcp(*prof, ctx, d) {
                        out.emitted_auth_rtcp += 1;
                        true
                    } else {
                        false
                    }
                } else if ref_auth_rtp(ctx, d) {
                    out.emitted_auth_rtp += 1;
                    true
                } else {
                    false
                };
                if ok {
                    continue;
                }
                let clear = contains(d, OUT_MARK) || contains(d, RAW_MARK) || contains(d, b"PeerConnection closed");
                format!("{}-{}", if clear { "plaintext" } else { "unauthenticated" }, if looks_rtcp { format!("rtcp-pt{}", d[1]) } else { "rtp".into() })
            }
            None => {
                if looks_rtcp {
                    if d[1] == 203 { "rtcp-bye".to_string() } else { format!("rtcp-pt{}", d[1]) }
                } else if contains(d, RAW_MARK) {
                    "rtp-raw-send".to_string()
                } else {
                    "rtp".to_string()
                }
            }
        };
        let sig = format!(
            "pc-level;cleartext-emitted:{what};mode={};variant={};phase={}",
            mode_name(p.mode),
            variant_name(p.variant),
            stage_name(*st, p.end)
        );
        let e = emitted.entry(sig).or_insert((0, vcore::hex(&d[..d.len().min(40)])));
        e.0 += 1;
    }
    for (sig, (n, head)) in emitted {
        out.findings.push(Finding {
            signature: sig,
            detail: format!(
                "{n} RTP/RTCP datagram(s) emitted by the PeerConnection to the peer socket that {}; first: {head}; {ctx_txt}",
                if out.keys { "do not authenticate under the negotiated SRTP transmit keys" } else { "left although no SRTP keys exist" }
            ),
        });
    }
    run.log(format!(
        "sinks: track clear/auth/other {}/{}/{}, observer clear/auth/other {}/{}/{}, interceptor clear/auth {}/{} rtcp {}, sender rtcp {}; emitted media {} (auth rtp {}, auth rtcp {}); stun reqs {}, dtls in {}, other {}; ended closed {}",
        sinks.track_clear.load(Ordering::SeqCst),
        sinks.track_auth.load(Ordering::SeqCst),
        sinks.track_other.load(Ordering::SeqCst),
        sinks.obs_clear.load(Ordering::SeqCst),
        sinks.obs_auth.load(Ordering::SeqCst),
        sinks.obs_other.load(Ordering::SeqCst),
        sinks.icpt_clear.load(Ordering::SeqCst),
        sinks.icpt_auth.load(Ordering::SeqCst),
        sinks.icpt_rtcp.load(Ordering::SeqCst),
        sinks.sender_rtcp.load(Ordering::SeqCst),
        out.media_emitted,
        out.emitted_auth_rtp,
        out.emitted_auth_rtcp,
        out.stun_requests,
        out.dtls_in,
        peer.other_in.load(Ordering::SeqCst) + peer.stun_other.load(Ordering::SeqCst),
        out.ended_closed
    ));
    for f in &out.findings {
        run.log(format!("VIOLATES {} — {}", f.signature, f.detail));
    }

    // tear down
    reader.abort();
    sender_rtcp_task.abort();
    for t in reader_tasks.lock().drain(..) {
        t.abort();
    }
    if let Some(de) = dtls_end {
        de.dtls.close();
        for t in de.tasks {
            t.abort();
        }
    }
    Ok(())
}

/// One point on its own runtime.
pub fn run_point(p: &Point, verbose: bool) -> Outcome {
    let p = *p;
    let r = vcore::catch(std::panic::AssertUnwindSafe(move || {
        let rt = match tokio::runtime::Builder::new_multi_thread().worker_threads(2).enable_all().build() {
            Ok(rt) => rt,
            Err(e) => return Outcome { machinery: Some(format!("runtime: {e}")), ..Default::default() },
        };
        let o = rt.block_on(async move {
            match tokio::time::timeout(Duration::from_secs(40), run_point_async(p, verbose)).await {
                Ok(o) => o,
                Err(_) => Outcome { machinery: Some("point did not finish within 40 s".into()), ..Default::default() },
            }
        });
        rt.shutdown_timeout(Duration::from_millis(200));
        o
    }));
    match r {
        Ok(o) => o,
        Err(e) => Outcome { machinery: Some(format!("panic while running the point: {e}")), ..Default::default() },
    }
}

/// All points, `threads` at a time (mostly waiting, so more than the core count is fine).
pub fn run_parallel(points: &[Point], threads: usize) -> Vec<Outcome> {
    let next = std::sync::atomic::AtomicUsize::new(0);
    let results: Mutex<Vec<Option<Outcome>>> = Mutex::new(vec![None; points.len()]);
    std::thread::scope(|s| {
        for _ in 0..threads.min(points.len()).max(1) {
            s.spawn(|| {
                loop {
                    let i = next.fetch_add(1, Ordering::SeqCst);
                    if i >= points.len() {
                        break;
                    }
                    let o = run_point(&points[i], false);
                    results.lock()[i] = Some(o);
                }
            });
        }
    });
    results.into_inner().into_iter().map(|o| o.unwrap_or_default()).collect()
}

/// Negative control: the same machinery against a plain-RTP PeerConnection must see cleartext
/// delivered to the track and cleartext leaving.
pub fn negative_control() -> Outcome {
    let p = Point {
        mode: Mode::Rtp,
        pc_offers: true,
        variant: Variant::WellFormed,
        phase: Phase::AfterTerminal,
        traffic: Traffic::Rtp,
        end: End::Close,
        suite: Suite::Sha1_80,
    };
    run_point(&p, false)
}
