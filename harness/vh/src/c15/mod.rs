//! C15 — RTP/RTCP codecs: shared pieces of the exhaustive boundary-value enumeration.
//!
//! Every case is a small serialisable descriptor (`Case`); `run_case` executes it on the real
//! rustrtc code and judges it with inverse laws, a boring RFC model written here, and the
//! independent `rtp` / `rtcp` crates.  The explorer and `--replay` both call `run_case`.
use serde::{Deserialize, Serialize};
use std::collections::BTreeMap;
use std::panic::AssertUnwindSafe;

pub mod nackx;
pub mod rtcpx;
pub mod rtpx;

/// One oracle failure of one case.
#[derive(Clone, Debug)]
pub struct Fail {
    /// Structural signature (stable, narrow).
    pub sig: String,
    pub detail: String,
}

/// Result of one case.
#[derive(Clone, Debug, Default)]
pub struct Out {
    /// (input-shape bucket, result class) — used for the distinct/non-trivial count.
    pub class: String,
    pub fails: Vec<Fail>,
    /// number of comparisons against the independent implementation made by this case
    pub ref_checks: u32,
    /// the marshaller accepted the input
    pub accepted: bool,
}

impl Out {
    pub fn fail(&mut self, sig: impl Into<String>, detail: impl Into<String>) {
        self.fails.push(Fail { sig: sig.into(), detail: detail.into() });
    }
}

#[derive(Clone, Debug, Serialize, Deserialize, PartialEq)]
pub enum Case {
    Rtp(rtpx::RtpCase),
    ExtAlg(rtpx::ExtAlgCase),
    Rtx(rtpx::RtxCase),
    Rtcp(Vec<rtcpx::Spec>),
    RembWire { exp: u8, mantissa: u32, ssrcs: usize },
    LostWire { v24: u32 },
    NackWire { pid: u16, blp: u16 },
    NackSet { seqs: Vec<u16> },
    NackGap { last: u16, seq: u16 },
    // ---- thorough-tier deep blocks (added later; earlier replay files stay valid)
    /// RTX wrap/unwrap with explicit primary and RTX payload types
    RtxPt { seq: u16, pt: u8, rtx_pt: u8, marker: bool },
    /// hand-built generic NACK with several FCI (pid, blp) entries
    NackWireN { pairs: Vec<(u16, u16)> },
    /// canonical image of `specs` with one structural mutation applied to packet `which`
    WireMut { specs: Vec<rtcpx::Spec>, which: usize, m: rtcpx::Mutn },
}

impl Case {
    pub fn section(&self) -> &'static str {
        match self {
            Case::Rtp(_) => "rtp",
            Case::ExtAlg(_) => "ext_algebra",
            Case::Rtx(_) => "rtx",
            Case::Rtcp(v) if v.len() == 1 => "rtcp",
            Case::Rtcp(_) => "rtcp_compound",
            Case::RembWire { .. } => "remb_wire",
            Case::LostWire { .. } => "lost_wire",
            Case::NackWire { .. } => "nack_wire",
            Case::NackSet { .. } => "nack_set",
            Case::NackGap { .. } => "nack_gap",
            Case::RtxPt { .. } => "rtx",
            Case::NackWireN { .. } => "nack_wire",
            Case::WireMut { .. } => "rtcp_wire_mutation",
        }
    }
}

/// Runs one case on the real code. A panic anywhere inside rustrtc on these harness-made valid
/// inputs is reported as a failure of that case (codec totality on valid input is implied by the
/// inverse laws: a panicking marshal/parse returns nothing).
pub fn run_case(c: &Case) -> Out {
    let r = crate::catch(AssertUnwindSafe(|| match c {
        Case::Rtp(x) => rtpx::check_rtp(x),
        Case::ExtAlg(x) => rtpx::check_ext_alg(x),
        Case::Rtx(x) => rtpx::check_rtx(x),
        Case::Rtcp(x) => rtcpx::check_rtcp(x),
        Case::RembWire { exp, mantissa, ssrcs } => rtcpx::check_remb_wire(*exp, *mantissa, *ssrcs),
        Case::LostWire { v24 } => rtcpx::check_lost_wire(*v24),
        Case::NackWire { pid, blp } => nackx::check_nack_wire(*pid, *blp),
        Case::NackSet { seqs } => nackx::check_nack_set(seqs),
        Case::NackGap { last, seq } => nackx::check_nack_gap(*last, *seq),
        Case::RtxPt { seq, pt, rtx_pt, marker } => rtpx::check_rtx_pt(*seq, *pt, *rtx_pt, *marker),
        Case::NackWireN { pairs } => nackx::check_nack_wire_n(pairs),
        Case::WireMut { specs, which, m } => rtcpx::check_wire_mut(specs, *which, m),
    }));
    match r {
        Ok(o) => o,
        Err(p) => {
            let loc = p.rsplit(" @ ").next().unwrap_or("").to_string();
            let mut o = Out { class: format!("{}:panic", c.section()), ..Default::default() };
            o.fail(format!("{};panic;{}", c.section(), loc), format!("panic: {p}"));
            o
        }
    }
}

/// Calls into the reference crates are isolated: a panic there is a reference problem, reported
/// with its own failure kind by the caller.
pub fn ref_call<T>(f: impl FnOnce() -> T) -> Result<T, String> {
    crate::catch(AssertUnwindSafe(f)).map_err(|e| format!("reference crate panicked: {e}"))
}

/// Accumulator merged across rayon workers.
#[derive(Default)]
pub struct Acc {
    pub evals: u64,
    pub accepted: u64,
    pub ref_checks: u64,
    pub classes: BTreeMap<String, u64>,
    /// signature -> (rank, hits, detail, case)
    pub viols: BTreeMap<String, (u64, u64, String, Case)>,
}

impl Acc {
    pub fn push(&mut self, rank: u64, case: &Case, out: Out) {
        self.evals += 1;
        if out.accepted {
            self.accepted += 1;
        }
        self.ref_checks += out.ref_checks as u64;
        *self.classes.entry(out.class).or_default() += 1;
        for f in out.fails {
            match self.viols.get_mut(&f.sig) {
                Some(e) => {
                    e.1 += 1;
                    if rank < e.0 {
                        e.0 = rank;
                        e.2 = f.detail;
                        e.3 = case.clone();
                    }
                }
                None => {
                    self.viols.insert(f.sig, (rank, 1, f.detail, case.clone()));
                }
            }
        }
    }
    pub fn merge(mut self, o: Acc) -> Acc {
        self.evals += o.evals;
        self.accepted += o.accepted;
        self.ref_checks += o.ref_checks;
        for (k, v) in o.classes {
            *self.classes.entry(k).or_default() += v;
        }
        for (k, v) in o.viols {
            match self.viols.get_mut(&k) {
                Some(e) => {
                    e.1 += v.1;
                    if v.0 < e.0 {
                        e.0 = v.0;
                        e.2 = v.2;
                        e.3 = v.3;
                    }
                }
                None => {
                    self.viols.insert(k, v);
                }
            }
        }
        self
    }
}

/// Deterministic field filler: 0 → all zero, 1 → all ones, else a salt-dependent mixed value.
pub fn v32(fill: u8, salt: u32) -> u32 {
    match fill {
        0 => 0,
        1 => u32::MAX,
        _ => 0x9E37_79B9u32.wrapping_mul(salt.wrapping_add(1)) ^ 0x1234_5678,
    }
}
