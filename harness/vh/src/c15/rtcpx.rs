//! RTCP: every packet type rustrtc supports, compounds, hand-built REMB / loss-count wire images.
use super::{Out, ref_call, v32};
use bytes::Bytes;
use rtcp::packet::Packet as RefPacket;
use rustrtc::rtp::*;
use serde::{Deserialize, Serialize};
use webrtc_util::marshal::Marshal;

type RefBox = Box<dyn RefPacket + Send + Sync>;

#[derive(Clone, Debug, Serialize, Deserialize, PartialEq)]
pub struct Text {
    pub len: usize,
    /// 0 ASCII, 1 ends in a 2-byte UTF-8 character, 2 ends in a 3-byte UTF-8 character
    pub kind: u8,
}

impl Text {
    pub fn build(&self) -> String {
        let tail: &str = match self.kind {
            1 if self.len >= 2 => "é",
            2 if self.len >= 3 => "€",
            _ => "",
        };
        let mut s: String = (0..self.len - tail.len()).map(|i| (b'a' + (i % 26) as u8) as char).collect();
        s.push_str(tail);
        debug_assert_eq!(s.len(), self.len);
        s
    }
    fn bucket(&self) -> String {
        format!("{}{}", self.len, ["", "u2", "u3"][self.kind as usize % 3])
    }
}

#[derive(Clone, Debug, Serialize, Deserialize, PartialEq)]
pub enum Spec {
    Sr { blocks: usize, lost: i32, fill: u8 },
    Rr { blocks: usize, lost: i32, fill: u8 },
    Sdes { chunks: usize, items: usize, ty: u8, text: Text },
    Bye { sources: usize, reason: Option<Text> },
    Pli { fill: u8 },
    Fir { entries: usize, fill: u8 },
    Nack { lost: Vec<u16>, fill: u8 },
    Remb { bitrate: u64, ssrcs: usize, fill: u8 },
    /// kind 0..=3: structured feedback (see `twcc_payload`); kind 10+n: opaque payload of n bytes
    Twcc { kind: u8, fill: u8 },
    // ---- thorough-tier deep blocks
    /// SR / RR with an explicit fraction-lost octet in every block
    SrX { blocks: usize, lost: i32, fraction: u8, fill: u8 },
    RrX { blocks: usize, lost: i32, fraction: u8, fill: u8 },
    /// SDES whose chunks all carry this item list (type, text)
    SdesX { chunks: usize, items: Vec<(u8, Text)> },
    /// FIR whose entries carry command sequence numbers seq, seq+1, ...
    FirX { entries: usize, seq: u8, fill: u8 },
    /// TWCC with explicit header fields and an opaque payload of `plen` bytes
    TwccX { base: u16, count: u16, ref_time: u32, fb: u8, plen: usize },
}

/// One structural mutation of a canonical RTCP image (deep block `rtcp_wire_mutation`).
#[derive(Clone, Debug, Serialize, Deserialize, PartialEq)]
pub enum Mutn {
    /// add to the 16-bit length field (32-bit words) of the chosen packet
    Len(i8),
    /// drop this many bytes off the end of the whole image
    Cut(u8),
    /// append this many bytes of this value to the whole image
    Add(u8, u8),
    /// add to the 5-bit count / format field of the chosen packet
    Count(i8),
    /// flip the padding bit of the chosen packet
    PadBit,
    /// set the version bits of the chosen packet
    Ver(u8),
    /// overwrite the packet type octet of the chosen packet
    Pt(u8),
}

fn len_bucket(n: usize) -> &'static str {
    match n {
        0 => "0",
        1..=254 => "1..254",
        255 => "255",
        _ => ">255",
    }
}

fn lost_bucket(l: i32) -> &'static str {
    if l < LOST_MIN {
        "<min"
    } else if l == LOST_MIN {
        "min"
    } else if l < 0 {
        "neg"
    } else if l == 0 {
        "0"
    } else if l < LOST_MAX {
        "pos"
    } else if l == LOST_MAX {
        "max"
    } else {
        ">max"
    }
}

const LOST_MIN: i32 = -(1 << 23);
const LOST_MAX: i32 = (1 << 23) - 1;

/// REMB wire precision: 18-bit mantissa, 6-bit exponent. Largest value not above `x` that an
/// encoder choosing the minimal exponent can express.
pub fn remb_floor(x: u64) -> u64 {
    let mut e = 0;
    let mut m = x;
    while m > 0x3FFFF {
        m >>= 1;
        e += 1;
    }
    m << e
}

fn twcc_payload(kind: u8) -> (u16, Vec<u8>) {
    match kind {
        0 => (0, vec![]),
        // run-length chunk: small delta x1, then one 1-byte delta
        1 => (1, vec![0x20, 0x01, 0x04]),
        // run-length chunk: not received x2, no deltas
        2 => (2, vec![0x00, 0x02]),
        // run-length chunk: large delta x1, then one 2-byte delta
        3 => (1, vec![0x40, 0x01, 0x01, 0x02]),
        k => (0, (0..(k - 10) as usize).map(|i| 0xD1u8.wrapping_add(i as u8)).collect()),
    }
}

impl Spec {
    pub fn kind(&self) -> &'static str {
        match self {
            Spec::Sr { .. } => "sr",
            Spec::Rr { .. } => "rr",
            Spec::Sdes { .. } => "sdes",
            Spec::Bye { .. } => "bye",
            Spec::Pli { .. } => "pli",
            Spec::Fir { .. } => "fir",
            Spec::Nack { .. } => "nack",
            Spec::Remb { .. } => "remb",
            Spec::Twcc { .. } | Spec::TwccX { .. } => "twcc",
            Spec::SrX { .. } => "sr",
            Spec::RrX { .. } => "rr",
            Spec::SdesX { .. } => "sdes",
            Spec::FirX { .. } => "fir",
        }
    }
    /// Opaque TWCC payloads are not valid chunk/delta structures; the reference is not consulted.
    pub fn ref_comparable(&self) -> bool {
        match self {
            Spec::Twcc { kind, .. } => *kind < 10,
            // an opaque payload is not a chunk/delta structure, and a status count without chunks
            // is malformed to the reference
            Spec::TwccX { count, plen, .. } => *count == 0 && *plen == 0,
            // the reference knows SDES item types 1..=8 only
            Spec::SdesX { items, .. } => items.iter().all(|(ty, _)| (1..=8).contains(ty)),
            _ => true,
        }
    }
    /// The over-limit feature of the input (first by priority), or "in-range".
    pub fn feature(&self) -> &'static str {
        match self {
            Spec::Sr { blocks, .. } | Spec::Rr { blocks, .. } if *blocks > 31 => "count>31",
            Spec::Sdes { chunks, .. } if *chunks > 31 => "count>31",
            Spec::Sdes { chunks, items, text, .. } if *chunks > 0 && *items > 0 && text.len > 255 => "text_len>255",
            Spec::Bye { sources, .. } if *sources > 31 => "count>31",
            Spec::Bye { reason: Some(t), .. } if t.len > 255 => "reason_len>255",
            Spec::Remb { ssrcs, .. } if *ssrcs > 255 => "ssrcs>255",
            Spec::Twcc { kind, .. } if twcc_payload(*kind).1.len() % 4 != 0 => "payload_len%4!=0",
            Spec::SrX { blocks, .. } | Spec::RrX { blocks, .. } if *blocks > 31 => "count>31",
            Spec::SdesX { chunks, .. } if *chunks > 31 => "count>31",
            Spec::SdesX { chunks, items } if *chunks > 0 && items.iter().any(|(_, t)| t.len > 255) => "text_len>255",
            Spec::SdesX { chunks, items } if *chunks > 0 && items.iter().any(|(ty, _)| *ty == 0) => "item_type=0",
            Spec::TwccX { plen, .. } if plen % 4 != 0 => "payload_len%4!=0",
            _ => "in-range",
        }
    }
    pub fn bucket(&self) -> String {
        match self {
            Spec::Sr { blocks, lost, fill } => format!("sr:b={blocks},lost={lost},f={fill}"),
            Spec::Rr { blocks, lost, fill } => format!("rr:b={blocks},lost={lost},f={fill}"),
            Spec::Sdes { chunks, items, ty, text } => format!("sdes:c={chunks},i={items},ty={ty},t={}", text.bucket()),
            Spec::Bye { sources, reason } => format!("bye:s={sources},r={}", reason.as_ref().map(|t| t.bucket()).unwrap_or("none".into())),
            Spec::Pli { fill } => format!("pli:f={fill}"),
            Spec::Fir { entries, fill } => format!("fir:n={entries},f={fill}"),
            Spec::Nack { lost, fill } => format!("nack:n={},f={fill}", lost.len()),
            Spec::Remb { bitrate, ssrcs, fill } => format!("remb:br={bitrate},n={ssrcs},f={fill}"),
            Spec::Twcc { kind, fill } => format!("twcc:k={kind},f={fill}"),
            // deep blocks: coarse buckets
            Spec::SrX { blocks, lost, fraction, fill } => format!("srx:b={blocks},lost={},fr={},f={fill}", lost_bucket(*lost), match fraction { 0 => "0", 255 => "255", _ => "mid" }),
            Spec::RrX { blocks, lost, fraction, fill } => format!("rrx:b={blocks},lost={},fr={},f={fill}", lost_bucket(*lost), match fraction { 0 => "0", 255 => "255", _ => "mid" }),
            Spec::SdesX { chunks, items } => format!(
                "sdesx:c={chunks},items=[{}]",
                items.iter().map(|(ty, t)| format!("{}/{}{}", match ty { 0 => "0", 1..=8 => "1..8", _ => "9..255" }, len_bucket(t.len), ["", "u2", "u3"][t.kind as usize % 3])).collect::<Vec<_>>().join(",")
            ),
            Spec::FirX { entries, seq, fill } => format!("firx:n={entries},seq={},f={fill}", match seq { 0 => "0", 255 => "255", _ => "mid" }),
            Spec::TwccX { base, count, ref_time, fb, plen } => format!(
                "twccx:base={},count={},rt={},fb={},pl%4={},pl={}",
                match base { 0 => "0", 65535 => "max", _ => "mid" },
                match count { 0 => "0", 65535 => "max", _ => "mid" },
                match ref_time { 0 => "0", 0x7F_FFFF => "0x7fffff", 0x80_0000 => "0x800000", 0xFF_FFFF => "max", _ => "mid" },
                match fb { 0 => "0", 255 => "255", _ => "mid" },
                plen % 4,
                match plen { 0 => "0", 1..=255 => "1..255", _ => ">255" }
            ),
        }
    }

    fn block_x(i: usize, lost: i32, fraction: u8, fill: u8) -> ReportBlock {
        let mut b = Self::block(i, lost, fill);
        b.fraction_lost = fraction.wrapping_add(i as u8);
        b
    }

    fn block(i: usize, lost: i32, fill: u8) -> ReportBlock {
        let s = 100 + 8 * i as u32;
        ReportBlock {
            ssrc: v32(fill, s),
            fraction_lost: v32(fill, s + 1) as u8,
            packets_lost: lost,
            highest_sequence: v32(fill, s + 2),
            jitter: v32(fill, s + 3),
            last_sender_report: v32(fill, s + 4),
            delay_since_last_sender_report: v32(fill, s + 5),
        }
    }

    /// The logical packet handed to rustrtc.
    pub fn build(&self) -> RtcpPacket {
        match self {
            Spec::Sr { blocks, lost, fill } => RtcpPacket::SenderReport(SenderReport {
                sender_ssrc: v32(*fill, 1),
                ntp_most: v32(*fill, 2),
                ntp_least: v32(*fill, 3),
                rtp_timestamp: v32(*fill, 4),
                packet_count: v32(*fill, 5),
                octet_count: v32(*fill, 6),
                report_blocks: (0..*blocks).map(|i| Self::block(i, *lost, *fill)).collect(),
            }),
            Spec::Rr { blocks, lost, fill } => RtcpPacket::ReceiverReport(ReceiverReport {
                sender_ssrc: v32(*fill, 1),
                report_blocks: (0..*blocks).map(|i| Self::block(i, *lost, *fill)).collect(),
            }),
            Spec::Sdes { chunks, items, ty, text } => RtcpPacket::SourceDescription(SourceDescription {
                chunks: (0..*chunks)
                    .map(|c| SdesChunk {
                        ssrc: v32(2, c as u32),
                        items: (0..*items)
                            .map(|i| SdesItem { ty: if i == 0 { *ty } else { 1 + ((*ty as usize + i) % 8) as u8 }, text: text.build() })
                            .collect(),
                    })
                    .collect(),
            }),
            Spec::Bye { sources, reason } => RtcpPacket::Goodbye(Goodbye {
                sources: (0..*sources).map(|i| v32(2, i as u32)).collect(),
                reason: reason.as_ref().map(|t| t.build()),
            }),
            Spec::Pli { fill } => RtcpPacket::PictureLossIndication(PictureLossIndication { sender_ssrc: v32(*fill, 1), media_ssrc: v32(*fill, 2) }),
            Spec::Fir { entries, fill } => RtcpPacket::FullIntraRequest(FullIntraRequest {
                sender_ssrc: v32(*fill, 1),
                requests: (0..*entries).map(|i| FirRequest { ssrc: v32(*fill, 10 + i as u32), sequence_number: v32(*fill, 500 + i as u32) as u8 }).collect(),
            }),
            Spec::Nack { lost, fill } => RtcpPacket::GenericNack(GenericNack { sender_ssrc: v32(*fill, 1), media_ssrc: v32(*fill, 2), lost_packets: lost.clone() }),
            Spec::Remb { bitrate, ssrcs, fill } => RtcpPacket::RemoteBitrateEstimate(RemoteBitrateEstimate {
                sender_ssrc: v32(*fill, 1),
                bitrate_bps: *bitrate,
                ssrcs: (0..*ssrcs).map(|i| v32(*fill, 10 + i as u32)).collect(),
            }),
            Spec::SrX { blocks, lost, fraction, fill } => RtcpPacket::SenderReport(SenderReport {
                sender_ssrc: v32(*fill, 1),
                ntp_most: v32(*fill, 2),
                ntp_least: v32(*fill, 3),
                rtp_timestamp: v32(*fill, 4),
                packet_count: v32(*fill, 5),
                octet_count: v32(*fill, 6),
                report_blocks: (0..*blocks).map(|i| Self::block_x(i, *lost, *fraction, *fill)).collect(),
            }),
            Spec::RrX { blocks, lost, fraction, fill } => RtcpPacket::ReceiverReport(ReceiverReport {
                sender_ssrc: v32(*fill, 1),
                report_blocks: (0..*blocks).map(|i| Self::block_x(i, *lost, *fraction, *fill)).collect(),
            }),
            Spec::SdesX { chunks, items } => RtcpPacket::SourceDescription(SourceDescription {
                chunks: (0..*chunks)
                    .map(|c| SdesChunk { ssrc: v32(2, c as u32), items: items.iter().map(|(ty, t)| SdesItem { ty: *ty, text: t.build() }).collect() })
                    .collect(),
            }),
            Spec::FirX { entries, seq, fill } => RtcpPacket::FullIntraRequest(FullIntraRequest {
                sender_ssrc: v32(*fill, 1),
                requests: (0..*entries).map(|i| FirRequest { ssrc: v32(*fill, 10 + i as u32), sequence_number: seq.wrapping_add(i as u8) }).collect(),
            }),
            Spec::TwccX { base, count, ref_time, fb, plen } => RtcpPacket::TransportWideCc(TransportWideCc {
                sender_ssrc: v32(2, 1),
                media_ssrc: v32(2, 2),
                base_sequence: *base,
                packet_status_count: *count,
                reference_time_64ms: *ref_time & 0x00FF_FFFF,
                feedback_packet_count: *fb,
                payload: (0..*plen).map(|i| 0xD1u8.wrapping_add(i as u8)).collect(),
            }),
            Spec::Twcc { kind, fill } => {
                let (count, payload) = twcc_payload(*kind);
                RtcpPacket::TransportWideCc(TransportWideCc {
                    sender_ssrc: v32(*fill, 1),
                    media_ssrc: v32(*fill, 2),
                    base_sequence: v32(*fill, 3) as u16,
                    packet_status_count: count,
                    reference_time_64ms: v32(*fill, 4) & 0x00FF_FFFF,
                    feedback_packet_count: v32(*fill, 5) as u8,
                    payload,
                })
            }
        }
    }

    /// What a standards-conformant decode of a standards-conformant encode of `build()` yields:
    /// the packet itself, except where the wire format itself saturates / rounds
    /// (RFC 3550 A.3 clamps the 24-bit loss counter; REMB carries an 18-bit mantissa).
    pub fn expected(&self) -> RtcpPacket {
        let mut x = self.build();
        match &mut x {
            RtcpPacket::SenderReport(SenderReport { report_blocks, .. }) | RtcpPacket::ReceiverReport(ReceiverReport { report_blocks, .. }) => {
                for b in report_blocks {
                    b.packets_lost = b.packets_lost.clamp(LOST_MIN, LOST_MAX);
                }
            }
            RtcpPacket::RemoteBitrateEstimate(r) => r.bitrate_bps = remb_floor(r.bitrate_bps),
            _ => {}
        }
        x
    }

    /// The same logical packet in the reference crate's types (None where it has no equivalent).
    pub fn build_ref(&self) -> Option<RefBox> {
        use rtcp::reception_report::ReceptionReport;
        let rb = |b: &ReportBlock| ReceptionReport {
            ssrc: b.ssrc,
            fraction_lost: b.fraction_lost,
            total_lost: (b.packets_lost.clamp(LOST_MIN, LOST_MAX) as u32) & 0x00FF_FFFF,
            last_sequence_number: b.highest_sequence,
            jitter: b.jitter,
            last_sender_report: b.last_sender_report,
            delay: b.delay_since_last_sender_report,
        };
        Some(match self.build() {
            RtcpPacket::SenderReport(s) => Box::new(rtcp::sender_report::SenderReport {
                ssrc: s.sender_ssrc,
                ntp_time: ((s.ntp_most as u64) << 32) | s.ntp_least as u64,
                rtp_time: s.rtp_timestamp,
                packet_count: s.packet_count,
                octet_count: s.octet_count,
                reports: s.report_blocks.iter().map(rb).collect(),
                ..Default::default()
            }),
            RtcpPacket::ReceiverReport(r) => Box::new(rtcp::receiver_report::ReceiverReport { ssrc: r.sender_ssrc, reports: r.report_blocks.iter().map(rb).collect(), ..Default::default() }),
            RtcpPacket::SourceDescription(s) => {
                if s.chunks.iter().any(|c| c.items.iter().any(|i| !(1..=8).contains(&i.ty))) {
                    return None;
                }
                Box::new(rtcp::source_description::SourceDescription {
                chunks: s
                    .chunks
                    .iter()
                    .map(|c| rtcp::source_description::SourceDescriptionChunk {
                        source: c.ssrc,
                        items: c
                            .items
                            .iter()
                            .map(|i| rtcp::source_description::SourceDescriptionItem { sdes_type: rtcp::source_description::SdesType::from(i.ty), text: Bytes::from(i.text.clone().into_bytes()) })
                            .collect(),
                    })
                    .collect(),
            })
            }
            RtcpPacket::Goodbye(g) => Box::new(rtcp::goodbye::Goodbye { sources: g.sources.clone(), reason: Bytes::from(g.reason.clone().unwrap_or_default().into_bytes()) }),
            RtcpPacket::PictureLossIndication(p) => Box::new(rtcp::payload_feedbacks::picture_loss_indication::PictureLossIndication { sender_ssrc: p.sender_ssrc, media_ssrc: p.media_ssrc }),
            RtcpPacket::FullIntraRequest(f) => Box::new(rtcp::payload_feedbacks::full_intra_request::FullIntraRequest {
                sender_ssrc: f.sender_ssrc,
                media_ssrc: 0,
                fir: f.requests.iter().map(|e| rtcp::payload_feedbacks::full_intra_request::FirEntry { ssrc: e.ssrc, sequence_number: e.sequence_number }).collect(),
            }),
            RtcpPacket::GenericNack(n) => {
                if n.lost_packets.is_empty() {
                    return None;
                }
                let mut s = n.lost_packets.clone();
                s.sort_unstable();
                s.dedup();
                Box::new(rtcp::transport_feedbacks::transport_layer_nack::TransportLayerNack {
                    sender_ssrc: n.sender_ssrc,
                    media_ssrc: n.media_ssrc,
                    nacks: rtcp::transport_feedbacks::transport_layer_nack::nack_pairs_from_sequence_numbers(&s),
                })
            }
            RtcpPacket::RemoteBitrateEstimate(r) => {
                // only values the reference's f32 carries exactly, and not its mantissa==0 case
                let fl = remb_floor(r.bitrate_bps);
                if fl != r.bitrate_bps || fl == 0 || r.ssrcs.len() > 255 {
                    return None;
                }
                Box::new(rtcp::payload_feedbacks::receiver_estimated_maximum_bitrate::ReceiverEstimatedMaximumBitrate { sender_ssrc: r.sender_ssrc, bitrate: fl as f32, ssrcs: r.ssrcs.clone() })
            }
            RtcpPacket::TransportWideCc(t) => {
                use rtcp::transport_feedbacks::transport_layer_cc::*;
                let kind = match self {
                    Spec::Twcc { kind, .. } => kind,
                    Spec::TwccX { count: 0, plen: 0, .. } => &0u8,
                    _ => return None,
                };
                let rl = |sym, n| PacketStatusChunk::RunLengthChunk(RunLengthChunk { type_tcc: StatusChunkTypeTcc::RunLengthChunk, packet_status_symbol: sym, run_length: n });
                let (chunks, deltas) = match kind {
                    0 => (vec![], vec![]),
                    1 => (vec![rl(SymbolTypeTcc::PacketReceivedSmallDelta, 1)], vec![RecvDelta { type_tcc_packet: SymbolTypeTcc::PacketReceivedSmallDelta, delta: 4 * 250 }]),
                    2 => (vec![rl(SymbolTypeTcc::PacketNotReceived, 2)], vec![]),
                    3 => (vec![rl(SymbolTypeTcc::PacketReceivedLargeDelta, 1)], vec![RecvDelta { type_tcc_packet: SymbolTypeTcc::PacketReceivedLargeDelta, delta: 0x0102 * 250 }]),
                    _ => return None,
                };
                Box::new(TransportLayerCc {
                    sender_ssrc: t.sender_ssrc,
                    media_ssrc: t.media_ssrc,
                    base_sequence_number: t.base_sequence,
                    packet_status_count: t.packet_status_count,
                    reference_time: t.reference_time_64ms,
                    fb_pkt_count: t.feedback_packet_count,
                    packet_chunks: chunks,
                    recv_deltas: deltas,
                })
            }
        })
    }
}

/// Logical equality as the property means it: NACK compares the *set* of lost sequence numbers.
pub fn logical_eq(a: &RtcpPacket, b: &RtcpPacket) -> bool {
    match (a, b) {
        (RtcpPacket::GenericNack(x), RtcpPacket::GenericNack(y)) => {
            let s = |v: &Vec<u16>| v.iter().copied().collect::<std::collections::BTreeSet<u16>>();
            x.sender_ssrc == y.sender_ssrc && x.media_ssrc == y.media_ssrc && s(&x.lost_packets) == s(&y.lost_packets)
        }
        _ => a == b,
    }
}

fn short(p: &RtcpPacket) -> String {
    vcore::truncate(&format!("{p:?}"), 300)
}

/// Field-level agreement between a rustrtc packet and what the reference crate holds.
pub fn agree(x: &RtcpPacket, r: &(dyn RefPacket + Send + Sync)) -> Result<(), String> {
    use rtcp::reception_report::ReceptionReport;
    let any = r.as_any();
    let blocks = |a: &Vec<ReportBlock>, b: &Vec<ReceptionReport>| -> Result<(), String> {
        if a.len() != b.len() {
            return Err(format!("report block count rustrtc={} ref={}", a.len(), b.len()));
        }
        for (i, (p, q)) in a.iter().zip(b).enumerate() {
            let ok = p.ssrc == q.ssrc
                && p.fraction_lost == q.fraction_lost
                && (p.packets_lost as u32 & 0x00FF_FFFF) == q.total_lost
                && (LOST_MIN..=LOST_MAX).contains(&p.packets_lost)
                && p.highest_sequence == q.last_sequence_number
                && p.jitter == q.jitter
                && p.last_sender_report == q.last_sender_report
                && p.delay_since_last_sender_report == q.delay;
            if !ok {
                return Err(format!("report block {i}: rustrtc={p:?} ref={q:?}"));
            }
        }
        Ok(())
    };
    match x {
        RtcpPacket::SenderReport(s) => {
            let q = any.downcast_ref::<rtcp::sender_report::SenderReport>().ok_or_else(|| format!("ref type is {r:?}"))?;
            if q.ssrc != s.sender_ssrc || q.ntp_time != ((s.ntp_most as u64) << 32 | s.ntp_least as u64) || q.rtp_time != s.rtp_timestamp || q.packet_count != s.packet_count || q.octet_count != s.octet_count {
                return Err("SR fixed fields differ".into());
            }
            if !q.profile_extensions.is_empty() {
                return Err(format!("ref sees {} bytes of profile extension (rustrtc: {} report blocks)", q.profile_extensions.len(), s.report_blocks.len()));
            }
            blocks(&s.report_blocks, &q.reports)
        }
        RtcpPacket::ReceiverReport(s) => {
            let q = any.downcast_ref::<rtcp::receiver_report::ReceiverReport>().ok_or_else(|| format!("ref type is {r:?}"))?;
            if q.ssrc != s.sender_ssrc {
                return Err("RR ssrc differs".into());
            }
            if !q.profile_extensions.is_empty() {
                return Err(format!("ref sees {} bytes of profile extension (rustrtc: {} report blocks)", q.profile_extensions.len(), s.report_blocks.len()));
            }
            blocks(&s.report_blocks, &q.reports)
        }
        RtcpPacket::SourceDescription(s) => {
            let q = any.downcast_ref::<rtcp::source_description::SourceDescription>().ok_or_else(|| format!("ref type is {r:?}"))?;
            if q.chunks.len() != s.chunks.len() {
                return Err(format!("SDES chunk count rustrtc={} ref={}", s.chunks.len(), q.chunks.len()));
            }
            for (a, b) in s.chunks.iter().zip(&q.chunks) {
                if a.ssrc != b.source || a.items.len() != b.items.len() {
                    return Err(format!("SDES chunk differs: rustrtc ssrc {} items {}, ref ssrc {} items {}", a.ssrc, a.items.len(), b.source, b.items.len()));
                }
                for (i, j) in a.items.iter().zip(&b.items) {
                    if i.ty != j.sdes_type as u8 || i.text.as_bytes() != &j.text[..] {
                        return Err(format!("SDES item differs: rustrtc ty {} len {}, ref ty {} len {}", i.ty, i.text.len(), j.sdes_type as u8, j.text.len()));
                    }
                }
            }
            Ok(())
        }
        RtcpPacket::Goodbye(g) => {
            let q = any.downcast_ref::<rtcp::goodbye::Goodbye>().ok_or_else(|| format!("ref type is {r:?}"))?;
            // the reference cannot tell "no reason" from an empty reason
            let mine = g.reason.clone().unwrap_or_default();
            if q.sources != g.sources || mine.as_bytes() != &q.reason[..] {
                return Err(format!("BYE differs: rustrtc {} sources reason {} bytes, ref {} sources reason {} bytes", g.sources.len(), mine.len(), q.sources.len(), q.reason.len()));
            }
            Ok(())
        }
        RtcpPacket::PictureLossIndication(p) => {
            let q = any.downcast_ref::<rtcp::payload_feedbacks::picture_loss_indication::PictureLossIndication>().ok_or_else(|| format!("ref type is {r:?}"))?;
            (q.sender_ssrc == p.sender_ssrc && q.media_ssrc == p.media_ssrc).then_some(()).ok_or_else(|| "PLI differs".to_string())
        }
        RtcpPacket::FullIntraRequest(f) => {
            let q = any.downcast_ref::<rtcp::payload_feedbacks::full_intra_request::FullIntraRequest>().ok_or_else(|| format!("ref type is {r:?}"))?;
            let ok = q.sender_ssrc == f.sender_ssrc && q.fir.len() == f.requests.len() && q.fir.iter().zip(&f.requests).all(|(a, b)| a.ssrc == b.ssrc && a.sequence_number == b.sequence_number);
            ok.then_some(()).ok_or_else(|| format!("FIR differs: rustrtc {} entries, ref {}", f.requests.len(), q.fir.len()))
        }
        RtcpPacket::GenericNack(n) => {
            let q = any.downcast_ref::<rtcp::transport_feedbacks::transport_layer_nack::TransportLayerNack>().ok_or_else(|| format!("ref type is {r:?}"))?;
            let a: std::collections::BTreeSet<u16> = n.lost_packets.iter().copied().collect();
            let b: std::collections::BTreeSet<u16> = q.nacks.iter().flat_map(|p| p.packet_list()).collect();
            (q.sender_ssrc == n.sender_ssrc && q.media_ssrc == n.media_ssrc && a == b).then_some(()).ok_or_else(|| format!("NACK differs: rustrtc {a:?} ref {b:?}"))
        }
        RtcpPacket::RemoteBitrateEstimate(m) => {
            let q = any.downcast_ref::<rtcp::payload_feedbacks::receiver_estimated_maximum_bitrate::ReceiverEstimatedMaximumBitrate>().ok_or_else(|| format!("ref type is {r:?}"))?;
            if q.sender_ssrc != m.sender_ssrc || q.ssrcs != m.ssrcs {
                return Err("REMB ssrc fields differ".into());
            }
            // the reference decodes a zero mantissa to 2^(exp+23) (its own defect); skip the value then
            if m.bitrate_bps != 0 && q.bitrate != m.bitrate_bps as f32 {
                return Err(format!("REMB bitrate rustrtc={} ref={}", m.bitrate_bps, q.bitrate));
            }
            Ok(())
        }
        RtcpPacket::TransportWideCc(t) => {
            let q = any.downcast_ref::<rtcp::transport_feedbacks::transport_layer_cc::TransportLayerCc>().ok_or_else(|| format!("ref type is {r:?}"))?;
            let hdr = q.sender_ssrc == t.sender_ssrc && q.media_ssrc == t.media_ssrc && q.base_sequence_number == t.base_sequence && q.packet_status_count == t.packet_status_count && q.reference_time == t.reference_time_64ms && q.fb_pkt_count == t.feedback_packet_count;
            if !hdr {
                return Err("TWCC header fields differ".into());
            }
            let mut body = vec![];
            for c in &q.packet_chunks {
                body.extend_from_slice(&c.marshal().map_err(|e| e.to_string())?);
            }
            for d in &q.recv_deltas {
                body.extend_from_slice(&d.marshal().map_err(|e| e.to_string())?);
            }
            // trailing zero bytes are alignment padding to the reference
            let ok = t.payload.len() >= body.len() && t.payload[..body.len()] == body[..] && t.payload[body.len()..].iter().all(|b| *b == 0);
            ok.then_some(()).ok_or_else(|| format!("TWCC chunks/deltas differ: rustrtc payload {:02x?} ref {:02x?}", t.payload, body))
        }
    }
}

fn ref_unmarshal(b: &[u8]) -> Result<Vec<RefBox>, String> {
    match ref_call(|| rtcp::packet::unmarshal(&mut Bytes::copy_from_slice(b))) {
        Ok(Ok(v)) => Ok(v),
        Ok(Err(e)) => Err(format!("reference rejects: {e}")),
        Err(e) => Err(e),
    }
}

pub fn check_rtcp(specs: &[Spec]) -> Out {
    let mut o = Out::default();
    let xs: Vec<RtcpPacket> = specs.iter().map(|s| s.build()).collect();
    let want: Vec<RtcpPacket> = specs.iter().map(|s| s.expected()).collect();
    let feat = specs.iter().map(|s| s.feature()).find(|f| *f != "in-range").unwrap_or("in-range");
    let kind = if specs.len() == 1 { format!("rtcp.{}", specs[0].kind()) } else { format!("rtcp.compound({})", specs.iter().map(|s| s.kind()).collect::<Vec<_>>().join("+")) };
    let bucket = specs.iter().map(|s| s.bucket()).collect::<Vec<_>>().join(" | ");
    let sig = |k: &str| format!("{kind};{feat};{k}");

    let b = match marshal_rtcp_packets(&xs) {
        Ok(b) => b,
        Err(e) => {
            o.class = format!("{bucket}:rejected({e:?})");
            return o;
        }
    };
    o.accepted = true;
    let mut parsed: Option<Vec<RtcpPacket>> = None;
    match parse_rtcp_packets(&b, None) {
        Ok(p) => {
            let same = p.len() == want.len() && p.iter().zip(&want).all(|(a, b)| logical_eq(a, b));
            if !same {
                let i = p.iter().zip(&want).position(|(a, b)| !logical_eq(a, b));
                let d = match i {
                    Some(i) => format!("packet {i}: sent {} / parsed {}", short(&want[i]), short(&p[i])),
                    None => format!("sent {} packets, parsed {}", want.len(), p.len()),
                };
                o.fail(sig("roundtrip"), format!("parse(marshal(x)) != x [{bucket}]: {d}"));
            }
            // serialising what was parsed is stable
            match marshal_rtcp_packets(&p) {
                Ok(b2) => match parse_rtcp_packets(&b2, None) {
                    Ok(p2) if p2.len() == p.len() && p2.iter().zip(&p).all(|(a, b)| logical_eq(a, b)) => {}
                    other => o.fail(sig("reparse"), format!("parse(marshal(parse(b))) != parse(b) [{bucket}]: {}", vcore::truncate(&format!("{other:?}"), 300))),
                },
                Err(e) => o.fail(sig("reparse"), format!("marshal refuses what rustrtc itself parsed: {e:?} [{bucket}]")),
            }
            parsed = Some(p);
        }
        Err(e) => o.fail(sig("roundtrip"), format!("parse rejects rustrtc's own output ({e:?}) [{bucket}], {} bytes", b.len())),
    }
    // the independent implementation parses rustrtc's bytes to the same fields
    let comparable = specs.iter().all(|s| s.ref_comparable());
    match if comparable { ref_unmarshal(&b) } else { Ok(vec![]) } {
        Ok(_) if !comparable => {}
        Ok(rs) => {
            o.ref_checks += 1;
            if rs.len() != want.len() {
                o.fail(sig("ref"), format!("reference sees {} packets in rustrtc's {} [{bucket}]", rs.len(), want.len()));
            } else {
                for (i, (x, r)) in want.iter().zip(&rs).enumerate() {
                    if let Err(e) = agree(x, r.as_ref()) {
                        o.fail(sig("ref"), format!("reference parse of rustrtc bytes, packet {i}: {e} [{bucket}]"));
                        break;
                    }
                }
            }
        }
        Err(e) => o.fail(sig("ref"), format!("{e} (rustrtc's bytes) [{bucket}]")),
    }
    let _ = parsed;
    // vice versa: reference bytes -> rustrtc -> bytes -> reference
    let refs: Option<Vec<RefBox>> = specs.iter().map(|s| s.build_ref()).collect();
    if let Some(refs) = refs {
        if let Ok(Ok(rb)) = ref_call(|| rtcp::packet::marshal(&refs)) {
            match parse_rtcp_packets(&rb, None) {
                Ok(px) => {
                    o.ref_checks += 1;
                    let mut ok = px.len() == refs.len();
                    if ok {
                        for (i, (x, r)) in px.iter().zip(&refs).enumerate() {
                            if let Err(e) = agree(x, r.as_ref()) {
                                o.fail(sig("ref"), format!("rustrtc parse of reference bytes, packet {i}: {e} [{bucket}]"));
                                ok = false;
                                break;
                            }
                        }
                    } else {
                        o.fail(sig("ref"), format!("rustrtc sees {} packets in the reference's {} [{bucket}]", px.len(), refs.len()));
                    }
                    if ok {
                        match marshal_rtcp_packets(&px) {
                            Ok(b3) => match ref_unmarshal(&b3) {
                                Ok(r3) => {
                                    o.ref_checks += 1;
                                    let good = r3.len() == px.len() && px.iter().zip(&r3).all(|(x, r)| agree(x, r.as_ref()).is_ok());
                                    if !good {
                                        o.fail(sig("ref"), format!("marshal(parse(reference bytes)) is parsed differently by the reference [{bucket}]"));
                                    }
                                }
                                Err(e) => o.fail(sig("ref"), format!("{e} (marshal(parse(reference bytes))) [{bucket}]")),
                            },
                            Err(e) => o.fail(sig("reparse"), format!("marshal refuses what rustrtc parsed from reference bytes: {e:?} [{bucket}]")),
                        }
                    }
                }
                Err(e) => o.fail(sig("ref"), format!("rustrtc rejects reference bytes ({e:?}) [{bucket}]")),
            }
        }
    }
    o.class = format!("{bucket}:{}", if o.fails.is_empty() { "ok".to_string() } else { format!("violation({})", o.fails.iter().map(|f| f.sig.rsplit(';').next().unwrap_or("")).collect::<std::collections::BTreeSet<_>>().into_iter().collect::<Vec<_>>().join("+")) });
    o
}

/// Hand-built canonical REMB image (exp, mantissa): rustrtc must decode mantissa·2^exp, or refuse
/// when that does not fit its u64; re-encoding must be read identically by the reference.
pub fn check_remb_wire(exp: u8, mantissa: u32, ssrcs: usize) -> Out {
    let mut o = Out::default();
    let mut b = vec![0x8F, 206, 0, 0];
    b.extend_from_slice(&0x0102_0304u32.to_be_bytes());
    b.extend_from_slice(&0u32.to_be_bytes());
    b.extend_from_slice(b"REMB");
    b.push(ssrcs as u8);
    b.push((exp << 2) | ((mantissa >> 16) as u8 & 3));
    b.push((mantissa >> 8) as u8);
    b.push(mantissa as u8);
    for i in 0..ssrcs {
        b.extend_from_slice(&v32(2, i as u32).to_be_bytes());
    }
    let words = (b.len() / 4 - 1) as u16;
    b[2..4].copy_from_slice(&words.to_be_bytes());
    let exact: u128 = (mantissa as u128) << exp;
    let fits = exact <= u64::MAX as u128;
    let bucket = format!("rembwire:exp={exp},m={mantissa:#x},n={ssrcs},fits={}", fits as u8);
    let feat = if fits { "in-range" } else { "mantissa<<exp>u64" };
    match parse_rtcp_packets(&b, None) {
        Err(_) => {
            if fits {
                o.fail(format!("rtcp.remb.wire;{feat};parse-rejected"), format!("canonical REMB (exp {exp}, mantissa {mantissa:#x}, {ssrcs} ssrcs) rejected"));
            }
            o.class = format!("{bucket}:rejected");
        }
        Ok(p) => {
            o.accepted = true;
            let got = match p.as_slice() {
                [RtcpPacket::RemoteBitrateEstimate(r)] => Some(r.clone()),
                _ => None,
            };
            match got {
                Some(r) if r.bitrate_bps as u128 == exact && r.ssrcs.len() == ssrcs && r.sender_ssrc == 0x0102_0304 => {
                    // marshal(parse(b)) must carry the same fields for the independent parser
                    match marshal_rtcp_packets(&p) {
                        Ok(b2) => {
                            let r0 = ref_unmarshal(&b);
                            let r2 = ref_unmarshal(&b2);
                            match (r0, r2) {
                                (Ok(r0), Ok(r2)) => {
                                    o.ref_checks += 1;
                                    // (a zero mantissa is mis-decoded by the reference itself: 2^(exp+23))
                                    if !(r0.len() == 1 && r2.len() == 1 && (mantissa == 0 || r0[0].equal(r2[0].as_ref()))) {
                                        o.fail(format!("rtcp.remb.wire;{feat};ref"), format!("reference reads marshal(parse(b)) differently from b: exp {exp} mantissa {mantissa:#x}: {:?} vs {:?}", r0, r2));
                                    }
                                    if let Err(e) = agree(&p[0], r0[0].as_ref()) {
                                        o.fail(format!("rtcp.remb.wire;{feat};ref"), format!("{e} (exp {exp}, mantissa {mantissa:#x})"));
                                    }
                                }
                                (a, b) => o.fail(format!("rtcp.remb.wire;{feat};ref"), format!("reference rejects: {:?} / {:?}", a.err(), b.err())),
                            }
                        }
                        Err(e) => o.fail(format!("rtcp.remb.wire;{feat};reparse"), format!("marshal refuses parsed REMB: {e:?}")),
                    }
                    o.class = format!("{bucket}:ok");
                }
                other => {
                    o.fail(
                        format!("rtcp.remb.wire;{feat};value-mismatch"),
                        format!("REMB exp {exp} mantissa {mantissa:#x} means {exact} bps; rustrtc decoded {:?}", other.map(|r| r.bitrate_bps)),
                    );
                    o.class = format!("{bucket}:wrong-value");
                }
            }
        }
    }
    o
}

/// Hand-built RR with one report block carrying the raw 24-bit loss field `v24`.
pub fn check_lost_wire(v24: u32) -> Out {
    let mut o = Out::default();
    let mut b = vec![0x81, 201, 0, 7];
    b.extend_from_slice(&0xCAFE_F00Du32.to_be_bytes());
    b.extend_from_slice(&0x0BAD_CAFEu32.to_be_bytes());
    b.push(0x5A);
    b.extend_from_slice(&v24.to_be_bytes()[1..]);
    for k in 0..4u32 {
        b.extend_from_slice(&(0x1111_1111u32 * (k + 1)).to_be_bytes());
    }
    let want = ((v24 << 8) as i32) >> 8;
    let sig = "rtcp.rr.wire;lost24";
    match parse_rtcp_packets(&b, None) {
        Ok(p) => {
            o.accepted = true;
            let got = match p.as_slice() {
                [RtcpPacket::ReceiverReport(r)] if r.report_blocks.len() == 1 => Some(r.report_blocks[0].packets_lost),
                _ => None,
            };
            if got != Some(want) {
                o.fail(format!("{sig};sign-extension"), format!("24-bit loss field {v24:#08x} means {want}; rustrtc decoded {got:?}"));
            }
            match marshal_rtcp_packets(&p) {
                Ok(b2) if b2 == b => {}
                Ok(b2) => o.fail(format!("{sig};reencode"), format!("marshal(parse(b)) != b for loss field {v24:#08x}: {}", vcore::hex(&b2[12..16]))),
                Err(e) => o.fail(format!("{sig};reencode"), format!("marshal refuses parsed RR: {e:?}")),
            }
        }
        Err(e) => o.fail(format!("{sig};parse-rejected"), format!("canonical RR rejected: {e:?}")),
    }
    // the reference keeps the raw 24 bits (unsigned)
    {
        if let Ok(rs) = ref_unmarshal(&b) {
            o.ref_checks += 1;
            let t = rs.first().and_then(|r| r.as_any().downcast_ref::<rtcp::receiver_report::ReceiverReport>().map(|r| r.reports[0].total_lost));
            if t != Some(v24) {
                o.fail(format!("{sig};ref"), format!("reference total_lost {t:?} for field {v24:#08x}"));
            }
        }
    }
    let region = if v24 == 0 { "zero" } else if v24 == 0x7FFFFF { "max" } else if v24 == 0x800000 { "min" } else if v24 == 0xFFFFFF { "-1" } else if v24 & 0x800000 != 0 { "neg" } else { "pos" };
    o.class = format!("lostwire:{region}:{}", if o.fails.is_empty() { "ok" } else { "violation" });
    o
}

// ---------------------------------------------------------------------------------------------
// deep block: structural mutations of canonical images (declared length / count vs actual)

fn mut_kind(m: &Mutn) -> String {
    match m {
        Mutn::Len(d) => format!("len{d:+}"),
        Mutn::Cut(n) => format!("cut{n}"),
        Mutn::Add(n, v) => format!("add{n}x{v:02x}"),
        Mutn::Count(d) => format!("count{d:+}"),
        Mutn::PadBit => "padbit".into(),
        Mutn::Ver(v) => format!("ver{v}"),
        Mutn::Pt(p) => format!("pt{p}"),
    }
}

fn ref_comparable_parsed(p: &RtcpPacket) -> bool {
    match p {
        // the payload of a mutated TWCC is not a chunk/delta structure
        RtcpPacket::TransportWideCc(_) => false,
        RtcpPacket::SourceDescription(s) => s.chunks.iter().all(|c| c.items.iter().all(|i| (1..=8).contains(&i.ty))),
        _ => true,
    }
}

/// The canonical image of `specs` (rustrtc's own serialisation) with one mutation applied to
/// packet `which`. The property speaks about canonical encodings only, so nothing is demanded
/// about *whether* rustrtc accepts the mutated image. What it does promise for every logical
/// packet the stack serialises still applies to whatever the parser returned: if the marshaller
/// accepts the parsed packets, parsing that serialisation gives the same logical packets and the
/// reference reads the same fields. A panic is a failure (nothing was returned).
pub fn check_wire_mut(specs: &[Spec], which: usize, m: &Mutn) -> Out {
    let mut o = Out::default();
    let xs: Vec<RtcpPacket> = specs.iter().map(|s| s.build()).collect();
    let kinds = specs.iter().map(|s| s.kind()).collect::<Vec<_>>().join("+");
    let tag = format!("wiremut:{kinds}#{which}:{}", mut_kind(m));
    let Ok(mut b) = marshal_rtcp_packets(&xs) else {
        o.class = format!("{tag}:base-rejected");
        return o;
    };
    // locate packet `which`
    let mut off = 0usize;
    for _ in 0..which {
        if off + 4 > b.len() {
            break;
        }
        off += (u16::from_be_bytes([b[off + 2], b[off + 3]]) as usize + 1) * 4;
    }
    if off + 4 > b.len() {
        o.class = format!("{tag}:no-such-packet");
        return o;
    }
    match m {
        Mutn::Len(d) => {
            let l = u16::from_be_bytes([b[off + 2], b[off + 3]]).wrapping_add(*d as i16 as u16);
            b[off + 2..off + 4].copy_from_slice(&l.to_be_bytes());
        }
        Mutn::Cut(n) => {
            let k = b.len().saturating_sub(*n as usize);
            b.truncate(k);
        }
        Mutn::Add(n, v) => b.extend(std::iter::repeat_n(*v, *n as usize)),
        Mutn::Count(d) => {
            let c = (b[off] & 0x1F).wrapping_add(*d as u8) & 0x1F;
            b[off] = (b[off] & 0xE0) | c;
        }
        Mutn::PadBit => b[off] ^= 0x20,
        Mutn::Ver(v) => b[off] = (b[off] & 0x3F) | (v << 6),
        Mutn::Pt(p) => b[off + 1] = *p,
    }
    let sig = |k: &str| format!("rtcp.wire-mutation;{};{k}", mut_kind(m).trim_matches(|c: char| c == '+' || c == '-' || c.is_ascii_digit()));
    let p = match parse_rtcp_packets(&b, None) {
        Err(_) => {
            o.class = format!("{tag}:rejected");
            return o;
        }
        Ok(p) => p,
    };
    o.accepted = true;
    let b2 = match marshal_rtcp_packets(&p) {
        Err(_) => {
            // e.g. a NACK without FCI entries: parsed, but not a packet the marshaller will emit
            o.class = format!("{tag}:parsed-not-serialisable");
            return o;
        }
        Ok(b2) => b2,
    };
    match parse_rtcp_packets(&b2, None) {
        Ok(p2) if p2.len() == p.len() && p2.iter().zip(&p).all(|(a, b)| logical_eq(a, b)) => {}
        other => o.fail(
            sig("reserialise-unstable"),
            format!("parse(marshal(P)) != P for P = parse(mutated image): image {} ; P = {} ; second parse = {}", vcore::truncate(&vcore::hex(&b), 200), vcore::truncate(&format!("{p:?}"), 300), vcore::truncate(&format!("{other:?}"), 300)),
        ),
    }
    if !p.is_empty() && p.iter().all(ref_comparable_parsed) {
        match ref_unmarshal(&b2) {
            Ok(rs) => {
                o.ref_checks += 1;
                if rs.len() != p.len() {
                    o.fail(sig("ref"), format!("reference sees {} packets in marshal(P), rustrtc parsed {}; image {}", rs.len(), p.len(), vcore::truncate(&vcore::hex(&b), 200)));
                } else {
                    for (i, (x, r)) in p.iter().zip(&rs).enumerate() {
                        if let Err(e) = agree(x, r.as_ref()) {
                            o.fail(sig("ref"), format!("reference reads marshal(P) differently, packet {i}: {e}; mutated image {}", vcore::truncate(&vcore::hex(&b), 200)));
                            break;
                        }
                    }
                }
            }
            Err(e) => o.fail(sig("ref"), format!("{e} (marshal of what rustrtc parsed from the mutated image {})", vcore::truncate(&vcore::hex(&b), 200))),
        }
    }
    let same = p.len() == xs.len() && p.iter().zip(&specs.iter().map(|s| s.expected()).collect::<Vec<_>>()).all(|(a, b)| logical_eq(a, b));
    o.class = format!("{tag}:{}:{}", if same { "parsed-as-original" } else { "parsed-differently" }, if o.fails.is_empty() { "ok" } else { "violation" });
    o
}
