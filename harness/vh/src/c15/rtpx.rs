//! RTP packets, header-extension algebra, RTX.
use super::{Out, ref_call, v32};
use bytes::Bytes;
use rustrtc::rtp::{RtpHeader, RtpHeaderExtension, RtpPacket};
use rustrtc::rtx::{RtxSenderConfig, unwrap_rtx_packet, wrap_rtx_packet};
use serde::{Deserialize, Serialize};
use std::collections::BTreeMap;
use webrtc_util::marshal::{Marshal, Unmarshal};

#[derive(Clone, Debug, Serialize, Deserialize, PartialEq)]
pub enum ExtShape {
    None,
    /// RFC 8285 one-byte form, elements with these data lengths (1..=16), ids 1,14,7 in order
    OneByte(Vec<u8>),
    /// X bit set, profile 0xBEDE, zero words
    OneByteEmpty,
    /// id1/len2, then an id-15 terminator byte, then an (invisible) id3 element
    OneByteTerm,
    /// id1/len1, two interior padding bytes, id2/len2
    OneBytePadMid,
    /// RFC 8285 two-byte form (0x1000), elements with these lengths (0..=255), ids 1,200,15
    TwoByte(Vec<u8>),
    /// RFC 3550 raw profile extension with this many 32-bit words
    Raw(u16, u8),
    // ---- thorough-tier deep blocks
    /// one-byte form with explicit (id 1..=14, data length 1..=16) elements. Padding mask: bit 0 one
    /// zero byte before the first element, bit 1 one zero byte between elements, bit 2 a whole
    /// zero word after the last element.
    OneByteX(Vec<(u8, u8)>, u8),
    /// two-byte form with explicit (id 1..=255, data length 0..=255) elements; same padding mask
    TwoByteX(Vec<(u8, u8)>, u8),
    /// raw profile extension with this many 32-bit words (the length field is 16 bits wide)
    RawW(u16, u32),
}

pub const ONE_IDS: [u8; 3] = [1, 14, 7];
pub const TWO_IDS: [u8; 3] = [1, 200, 15];

fn elem_data(i: usize, len: usize) -> Vec<u8> {
    (0..len).map(|j| (0x31u8.wrapping_mul(i as u8 + 1)).wrapping_add(j as u8) | 1).collect()
}

impl ExtShape {
    /// (profile, extension block bytes (32-bit aligned), logical elements)
    pub fn build(&self) -> Option<(u16, Vec<u8>, Vec<(u8, Vec<u8>)>)> {
        let mut data = vec![];
        let mut elems = vec![];
        let profile = match self {
            ExtShape::None => return None,
            ExtShape::OneByte(lens) => {
                for (i, l) in lens.iter().enumerate() {
                    let d = elem_data(i, *l as usize);
                    data.push((ONE_IDS[i] << 4) | (*l - 1));
                    data.extend_from_slice(&d);
                    elems.push((ONE_IDS[i], d));
                }
                0xBEDE
            }
            ExtShape::OneByteEmpty => 0xBEDE,
            ExtShape::OneByteTerm => {
                data.extend_from_slice(&[0x11, 0xA1, 0xA2, 0xF0, 0x30, 0xB1]);
                elems.push((1, vec![0xA1, 0xA2]));
                0xBEDE
            }
            ExtShape::OneBytePadMid => {
                data.extend_from_slice(&[0x10, 0xA1, 0, 0, 0x21, 0xB1, 0xB2]);
                elems.push((1, vec![0xA1]));
                elems.push((2, vec![0xB1, 0xB2]));
                0xBEDE
            }
            ExtShape::TwoByte(lens) => {
                for (i, l) in lens.iter().enumerate() {
                    let d = elem_data(i, *l as usize);
                    data.push(TWO_IDS[i]);
                    data.push(*l);
                    data.extend_from_slice(&d);
                    elems.push((TWO_IDS[i], d));
                }
                0x1000
            }
            ExtShape::Raw(p, words) => {
                data = (0..(*words as usize * 4)).map(|j| 0xC0u8.wrapping_add(j as u8)).collect();
                *p
            }
            ExtShape::OneByteX(el, pad) | ExtShape::TwoByteX(el, pad) => {
                let two = matches!(self, ExtShape::TwoByteX(..));
                for (i, (id, l)) in el.iter().enumerate() {
                    if (i == 0 && pad & 1 != 0) || (i > 0 && pad & 2 != 0) {
                        data.push(0);
                    }
                    let d = elem_data(i, *l as usize);
                    if two {
                        data.push(*id);
                        data.push(*l);
                    } else {
                        data.push((*id << 4) | (*l - 1));
                    }
                    data.extend_from_slice(&d);
                    elems.push((*id, d));
                }
                if pad & 4 != 0 {
                    while data.len() % 4 != 0 {
                        data.push(0);
                    }
                    data.extend_from_slice(&[0; 4]);
                }
                if two { 0x1000 } else { 0xBEDE }
            }
            ExtShape::RawW(p, words) => {
                data = (0..(*words as usize * 4)).map(|j| 0xC0u8.wrapping_add(j as u8)).collect();
                *p
            }
        };
        while data.len() % 4 != 0 {
            data.push(0);
        }
        Some((profile, data, elems))
    }
    pub fn bucket(&self) -> String {
        match self {
            ExtShape::None => "none".into(),
            ExtShape::OneByte(l) => format!("1b{l:?}"),
            ExtShape::OneByteEmpty => "1b-empty".into(),
            ExtShape::OneByteTerm => "1b-term15".into(),
            ExtShape::OneBytePadMid => "1b-padmid".into(),
            ExtShape::TwoByte(l) => format!("2b{l:?}"),
            ExtShape::Raw(p, w) => format!("raw{p:04x}x{w}"),
            // deep blocks: coarse buckets (element count, padding mask, size class), so that the
            // class table stays small
            ExtShape::OneByteX(el, pad) => format!("1bx{}e,pad{pad}", el.len()),
            ExtShape::TwoByteX(el, pad) => format!("2bx{}e,pad{pad}", el.len()),
            ExtShape::RawW(p, w) => format!("raww{p:04x},{}", match *w { 0 => "0", 1..=255 => "1..255", 256..=65535 => "256..65535", _ => ">65535" }),
        }
    }
    /// ids looked up by every comparison of this shape: the fixed probe set plus the shape's own
    /// element ids and their neighbours
    pub fn probe_ids(&self) -> Vec<u8> {
        let mut v = PROBE_IDS.to_vec();
        if let ExtShape::OneByteX(el, _) | ExtShape::TwoByteX(el, _) = self {
            for (id, _) in el {
                v.extend([id.wrapping_sub(1), *id, id.wrapping_add(1)]);
            }
            v.sort_unstable();
            v.dedup();
        }
        v
    }
    /// shapes the reference crate handles correctly (its one-byte parser desynchronises after an
    /// id-15 terminator: it stops reading the extension block without skipping the rest)
    pub fn ref_ok(&self) -> bool {
        !matches!(self, ExtShape::OneByteTerm)
    }
}

/// Boring RFC 8285 lookup model.
pub fn model_get_ext(ext: Option<(u16, &[u8])>, id: u8) -> Option<Vec<u8>> {
    let (profile, d) = ext?;
    let mut o = 0usize;
    match profile {
        0xBEDE => {
            while o < d.len() {
                let b = d[o];
                o += 1;
                if b == 0 {
                    continue;
                }
                let eid = b >> 4;
                let len = (b & 0x0F) as usize + 1;
                if eid == 15 {
                    return None;
                }
                if o + len > d.len() {
                    return None;
                }
                if eid == id {
                    return Some(d[o..o + len].to_vec());
                }
                o += len;
            }
            None
        }
        0x1000 => {
            while o < d.len() {
                let eid = d[o];
                o += 1;
                if eid == 0 {
                    continue;
                }
                if o >= d.len() {
                    return None;
                }
                let len = d[o] as usize;
                o += 1;
                if o + len > d.len() {
                    return None;
                }
                if eid == id {
                    return Some(d[o..o + len].to_vec());
                }
                o += len;
            }
            None
        }
        _ => None,
    }
}

#[derive(Clone, Debug, Serialize, Deserialize, PartialEq)]
pub struct RtpCase {
    pub csrc: usize,
    pub ext: ExtShape,
    pub pad: u8,
    pub payload: usize,
    pub marker: bool,
    pub pt: u8,
    /// 0: seq/ts/ssrc all zero, 1: all ones, 2: mixed
    pub fill: u8,
}

pub fn payload_bytes(n: usize, salt: u8) -> Vec<u8> {
    (0..n).map(|i| (i as u8).wrapping_mul(7).wrapping_add(salt) | 0x80).collect()
}

pub fn build_rtp(c: &RtpCase) -> RtpPacket {
    let mut h = RtpHeader::new(c.pt, v32(c.fill, 1) as u16, v32(c.fill, 2), v32(c.fill, 3));
    h.marker = c.marker;
    h.csrcs = (0..c.csrc).map(|i| v32(c.fill, 10 + i as u32)).collect();
    h.extension = c.ext.build().map(|(p, d, _)| RtpHeaderExtension::new(p, d));
    RtpPacket { header: h, payload: Bytes::from(payload_bytes(c.payload, 3)), padding_len: c.pad }
}

fn ext_view(h: &RtpHeader) -> Option<(u16, &[u8])> {
    h.extension.as_ref().map(|e| (e.profile, &e.data[..]))
}

/// ids probed by every extension comparison
pub const PROBE_IDS: [u8; 21] = [0, 1, 2, 3, 4, 5, 6, 7, 8, 9, 10, 11, 12, 13, 14, 15, 16, 199, 200, 201, 255];

fn cmp_ref_fields(x: &RtpPacket, r: &rtp::packet::Packet, what: &str, ids: &[u8]) -> Result<(), String> {
    let h = &x.header;
    let rh = &r.header;
    if rh.version != 2 {
        return Err(format!("{what}: ref version {}", rh.version));
    }
    if rh.marker != h.marker || rh.payload_type != h.payload_type {
        return Err(format!("{what}: marker/pt ref=({},{}) rustrtc=({},{})", rh.marker, rh.payload_type, h.marker, h.payload_type));
    }
    if rh.sequence_number != h.sequence_number || rh.timestamp != h.timestamp || rh.ssrc != h.ssrc {
        return Err(format!("{what}: seq/ts/ssrc differ"));
    }
    if rh.csrc != h.csrcs {
        return Err(format!("{what}: csrc list differs ref={:?} rustrtc={:?}", rh.csrc, h.csrcs));
    }
    if rh.padding != (x.padding_len != 0) {
        return Err(format!("{what}: padding flag ref={} rustrtc padding_len={}", rh.padding, x.padding_len));
    }
    if rh.extension != h.extension.is_some() {
        return Err(format!("{what}: X bit ref={} rustrtc={}", rh.extension, h.extension.is_some()));
    }
    if let Some(e) = &h.extension {
        if rh.extension_profile != e.profile {
            return Err(format!("{what}: ext profile ref={:04x} rustrtc={:04x}", rh.extension_profile, e.profile));
        }
        if e.profile == 0xBEDE || e.profile == 0x1000 {
            for &id in ids {
                // the reference stores id-0 never (padding); rustrtc must return None for it too
                let a = h.get_extension(id).map(|b| b.to_vec());
                let b = rh.get_extension(id).map(|b| b.to_vec());
                if a != b {
                    return Err(format!("{what}: extension id {id}: rustrtc={a:?} ref={b:?}"));
                }
            }
        } else {
            let b = rh.get_extension(0).map(|b| b.to_vec()).unwrap_or_default();
            if b != e.data.to_vec() {
                return Err(format!("{what}: raw extension payload differs"));
            }
        }
    }
    if r.payload != x.payload {
        return Err(format!("{what}: payload differs (ref {} bytes, rustrtc {} bytes)", r.payload.len(), x.payload.len()));
    }
    Ok(())
}

pub fn check_rtp(c: &RtpCase) -> Out {
    let mut o = Out::default();
    let bucket = format!(
        "rtp:cc={},ext={},pad={},pl={},m={},pt={},f={}",
        c.csrc, c.ext.bucket(), c.pad, c.payload, c.marker as u8, c.pt, c.fill
    );
    let sigp = if matches!(c.ext, ExtShape::RawW(_, w) if w > 65535) { "rtp.packet;ext_words>65535" } else { "rtp.packet;in-range" };
    let ids = c.ext.probe_ids();
    let x = build_rtp(c);
    let b = match x.marshal() {
        Ok(b) => b,
        Err(e) => {
            // The marshaller may refuse; nothing further to demand.
            o.class = format!("{bucket}:rejected({e:?})");
            if c.csrc <= 15 {
                // in-range packets being refused would make the run vacuous; recorded by class only
            }
            return o;
        }
    };
    o.accepted = true;
    // marshal_into is the same serialiser
    let mut b2 = vec![0xEEu8; 3];
    x.marshal_into(&mut b2);
    if b2 != b {
        o.fail(format!("{sigp};marshal_into!=marshal"), format!("marshal_into differs from marshal for {c:?}"));
    }
    // inverse law 1
    match RtpPacket::parse(&b) {
        Ok(p) => {
            if p != x {
                o.fail(format!("{sigp};roundtrip"), format!("parse(marshal(x)) != x: case={c:?} x={} parsed={}", crate::truncate(&format!("{x:?}"), 400), crate::truncate(&format!("{p:?}"), 400)));
            }
        }
        Err(e) => o.fail(format!("{sigp};roundtrip"), format!("parse rejects own output: {e:?} case={c:?}")),
    }
    // model agreement on extension lookup
    for &id in &ids {
        let a = x.header.get_extension(id).map(|v| v.to_vec());
        let m = model_get_ext(ext_view(&x.header), id);
        if a != m {
            o.fail("rtp.ext;get;model-mismatch", format!("get_extension({id}) = {a:?}, RFC 8285 model = {m:?}, shape {:?}", c.ext));
        }
    }
    // independent implementation parses rustrtc's bytes to the same fields
    if c.ext.ref_ok() {
        match ref_call(|| rtp::packet::Packet::unmarshal(&mut Bytes::from(b.clone()))) {
            Ok(Ok(r)) => {
                o.ref_checks += 1;
                if let Err(e) = cmp_ref_fields(&x, &r, "ref parse of rustrtc bytes", &ids) {
                    o.fail(format!("{sigp};ref"), format!("{e}; case={c:?}"));
                }
            }
            Ok(Err(e)) => o.fail(format!("{sigp};ref"), format!("reference rejects rustrtc bytes: {e}; case={c:?}")),
            Err(e) => o.fail(format!("{sigp};ref"), format!("{e}; case={c:?}")),
        }
        // and vice versa: the reference serialises the same logical packet, rustrtc parses it
        let mut rh = rtp::header::Header {
            version: 2,
            padding: c.pad != 0,
            extension: x.header.extension.is_some(),
            marker: c.marker,
            payload_type: c.pt,
            sequence_number: x.header.sequence_number,
            timestamp: x.header.timestamp,
            ssrc: x.header.ssrc,
            csrc: x.header.csrcs.clone(),
            ..Default::default()
        };
        if let Some((p, d, elems)) = c.ext.build() {
            rh.extension_profile = p;
            if p == 0xBEDE || p == 0x1000 {
                rh.extensions = elems
                    .iter()
                    .map(|(id, d)| rtp::header::Extension { id: *id, payload: Bytes::from(d.clone()) })
                    .collect();
            } else {
                rh.extensions = vec![rtp::header::Extension { id: 0, payload: Bytes::from(d) }];
            }
        }
        let rp = rtp::packet::Packet { header: rh, payload: x.payload.clone() };
        // the reference is consulted only where it reads its own serialisation back unchanged
        // (it mis-sizes raw extension blocks of 65536 bytes and more)
        let ref_self_consistent = |rb: &Bytes| matches!(ref_call(|| rtp::packet::Packet::unmarshal(&mut rb.clone())), Ok(Ok(r)) if r == rp);
        if let Ok(Ok(rb)) = ref_call(|| rp.marshal())
            && ref_self_consistent(&rb)
        {
            match RtpPacket::parse(&rb) {
                Ok(px) => {
                    o.ref_checks += 1;
                    if let Err(e) = cmp_ref_fields(&px, &rp, "rustrtc parse of reference bytes", &ids) {
                        o.fail(format!("{sigp};ref"), format!("{e}; case={c:?}"));
                    }
                    // serialising what was parsed gives bytes the reference parses to the same fields
                    match px.marshal() {
                        Ok(b3) => {
                            let r0 = ref_call(|| rtp::packet::Packet::unmarshal(&mut rb.clone()));
                            let r3 = ref_call(|| rtp::packet::Packet::unmarshal(&mut Bytes::from(b3.clone())));
                            match (r0, r3) {
                                (Ok(Ok(r0)), Ok(Ok(r3))) => {
                                    o.ref_checks += 1;
                                    if r0 != r3 {
                                        o.fail(format!("{sigp};ref"), format!("marshal(parse(ref bytes)) parsed by reference differs: {r0:?} vs {r3:?}"));
                                    }
                                }
                                (_, r3) => o.fail(format!("{sigp};ref"), format!("reference rejects marshal(parse(ref bytes)): {:?}", r3.map(|r| r.map(|_| ())))),
                            }
                            match RtpPacket::parse(&b3) {
                                Ok(p3) if p3 == px => {}
                                other => o.fail(format!("{sigp};roundtrip"), format!("parse(marshal(parse(b))) != parse(b): {other:?}")),
                            }
                        }
                        Err(e) => o.fail(format!("{sigp};roundtrip"), format!("marshal refuses a packet rustrtc parsed: {e:?}; case={c:?}")),
                    }
                }
                Err(e) => o.fail(format!("{sigp};ref"), format!("rustrtc rejects reference bytes: {e:?}; case={c:?}")),
            }
        }
    }
    o.class = format!("{bucket}:{}", if o.fails.is_empty() { "ok" } else { "violation" });
    o
}

// ---------------------------------------------------------------------------------------------
// extension algebra

#[derive(Clone, Debug, Serialize, Deserialize, PartialEq)]
pub struct ExtAlgCase {
    pub seed: ExtShape,
    pub csrc: usize,
    /// (id, data length) per set_extension call
    pub ops: Vec<(u8, u8)>,
}

pub fn check_ext_alg(c: &ExtAlgCase) -> Out {
    let mut o = Out::default();
    let seed = RtpCase { csrc: c.csrc, ext: c.seed.clone(), pad: 0, payload: 1, marker: false, pt: 96, fill: 2 };
    let mut pkt = build_rtp(&seed);
    let settable = matches!(pkt.header.extension.as_ref().map(|e| e.profile), None | Some(0xBEDE));
    // model: id -> value of everything visible in the seed
    let mut model: BTreeMap<u8, Vec<u8>> = BTreeMap::new();
    for id in 1..=14u8 {
        if let Some(v) = model_get_ext(ext_view(&pkt.header), id) {
            model.insert(id, v);
        }
    }
    let two_byte_model: Vec<(u8, Option<Vec<u8>>)> =
        PROBE_IDS.iter().map(|id| (*id, model_get_ext(ext_view(&pkt.header), *id))).collect();
    let mut okc = 0;
    for (step, (id, len)) in c.ops.iter().enumerate() {
        let val: Vec<u8> = (0..*len).map(|j| 0xA0u8 ^ ((step as u8) << 5) ^ (*id << 1) ^ j).collect();
        let before = pkt.header.clone();
        let r = pkt.header.set_extension(*id, &val);
        match r {
            Ok(()) => {
                okc += 1;
                if !settable {
                    // rustrtc documents that only 0xBEDE is modifiable; accepting would be fine
                    // only if the laws below hold, so fall through to the checks.
                }
                model.insert(*id, val.clone());
                let e = pkt.header.extension.as_ref().expect("extension present after set");
                if e.data.len() % 4 != 0 {
                    o.fail("rtp.ext;set;unaligned-block", format!("extension block {} bytes after set({id},{len}) ops={:?}", e.data.len(), c.ops));
                }
                let got = pkt.header.get_extension(*id).map(|v| v.to_vec());
                if got.as_deref() != Some(&val[..]) {
                    o.fail("rtp.ext;set-then-get;value-mismatch", format!("set({id},{val:?}) then get -> {got:?}; seed {:?} ops {:?}", c.seed, c.ops));
                }
                for pid in PROBE_IDS {
                    let got = pkt.header.get_extension(pid).map(|v| v.to_vec());
                    let want = model.get(&pid).cloned();
                    if pid != *id && got != want {
                        o.fail("rtp.ext;set;other-extension-disturbed", format!("after set({id},len {len}) get({pid}) = {got:?}, expected {want:?}; seed {:?} ops {:?}", c.seed, c.ops));
                    }
                }
            }
            Err(_) => {
                if pkt.header != before {
                    o.fail("rtp.ext;set;failed-call-mutated-header", format!("set({id},len {len}) failed but changed the header; seed {:?}", c.seed));
                }
                if settable && (1..=14).contains(id) && (1..=16).contains(len) {
                    o.fail("rtp.ext;set;valid-call-rejected", format!("set({id},len {len}) rejected on a settable header; seed {:?} ops {:?}", c.seed, c.ops));
                }
                for (pid, want) in &two_byte_model {
                    let got = pkt.header.get_extension(*pid).map(|v| v.to_vec());
                    if !settable && &got != want {
                        o.fail("rtp.ext;set;other-extension-disturbed", format!("after failed set get({pid}) = {got:?}, expected {want:?}"));
                    }
                }
            }
        }
    }
    // the resulting header serialises, parses back identically, and the reference sees the same values
    if okc > 0 {
        o.accepted = true;
        match pkt.marshal() {
            Ok(b) => {
                match RtpPacket::parse(&b) {
                    Ok(p) if p == pkt => {}
                    other => o.fail("rtp.ext;set;roundtrip", format!("packet after set_extension does not round trip: {other:?}")),
                }
                if c.seed.ref_ok() {
                    match ref_call(|| rtp::packet::Packet::unmarshal(&mut Bytes::from(b.clone()))) {
                        Ok(Ok(r)) => {
                            o.ref_checks += 1;
                            for pid in PROBE_IDS {
                                let want = model.get(&pid).cloned();
                                let got = r.header.get_extension(pid).map(|v| v.to_vec());
                                if got != want {
                                    o.fail("rtp.ext;set;ref", format!("reference reads id {pid} = {got:?}, expected {want:?}; seed {:?} ops {:?}", c.seed, c.ops));
                                }
                            }
                        }
                        other => o.fail("rtp.ext;set;ref", format!("reference rejects packet after set_extension: {:?}", other.map(|r| r.map(|_| ())))),
                    }
                }
            }
            Err(e) => o.fail("rtp.ext;set;roundtrip", format!("marshal refuses header after set_extension: {e:?}")),
        }
    }
    let replaced = c.ops.iter().filter(|(id, _)| ONE_IDS.contains(id)).count();
    o.class = format!(
        "ext:seed={},ops={},ok={},hit_existing={}:{}",
        c.seed.bucket(),
        c.ops.iter().map(|(i, l)| format!("{i}/{l}")).collect::<Vec<_>>().join(","),
        okc,
        replaced,
        if o.fails.is_empty() { "ok" } else { "violation" }
    );
    o
}

// ---------------------------------------------------------------------------------------------
// RTX (RFC 4588)

#[derive(Clone, Debug, Serialize, Deserialize, PartialEq)]
pub struct RtxCase {
    pub seq: u16,
    pub payload: usize,
    pub marker: bool,
    /// 0: plain original, 1: original with CSRCs, one-byte extensions and padding
    pub shape: u8,
}

pub fn check_rtx(c: &RtxCase) -> Out {
    check_rtx_inner(c, 96, 97)
}

/// Same laws with explicit primary / RTX payload types (payload of 5 bytes, plain original).
pub fn check_rtx_pt(seq: u16, pt: u8, rtx_pt: u8, marker: bool) -> Out {
    let mut o = check_rtx_inner(&RtxCase { seq, payload: 5, marker, shape: 0 }, pt, rtx_pt);
    let res = if o.fails.is_empty() { "ok" } else { "violation" };
    let b = |p: u8| match p { 0..=63 => "0..63", 64..=95 => "64..95", _ => "96..127" };
    o.class = format!("rtxpt:pt={},rtx_pt={},m={}:{res}", b(pt), b(rtx_pt), marker as u8);
    o
}

fn check_rtx_inner(c: &RtxCase, pt: u8, rtx_pt: u8) -> Out {
    let mut o = Out::default();
    let ts = (c.seq as u32).wrapping_mul(2_654_435_761).wrapping_add(c.payload as u32);
    let mut h = RtpHeader::new(pt, c.seq, ts, 0xAABB_CCDD);
    h.marker = c.marker;
    let mut pad = 0;
    if c.shape == 1 {
        h.csrcs = vec![7, 8];
        let (p, d, _) = ExtShape::OneByte(vec![1, 3]).build().unwrap();
        h.extension = Some(RtpHeaderExtension::new(p, d));
        pad = 3;
    }
    let orig = RtpPacket { header: h, payload: Bytes::from(payload_bytes(c.payload, c.seq as u8)), padding_len: pad };
    let cfg = RtxSenderConfig { rtx_ssrc: 0x1122_3344, rtx_payload_type: rtx_pt };
    let rtx_seq = c.seq.wrapping_mul(31).wrapping_add(0xFFF0);
    let rtx = wrap_rtx_packet(&orig, &cfg, rtx_seq);
    let sig = "rtx.wrap-unwrap";
    // over the wire
    let wire = match rtx.marshal() {
        Ok(w) => w,
        Err(e) => {
            o.fail(format!("{sig};marshal-rejected"), format!("RTX packet does not serialise: {e:?} {c:?}"));
            o.class = "rtx:marshal-rejected".into();
            return o;
        }
    };
    o.accepted = true;
    let back = match RtpPacket::parse(&wire) {
        Ok(p) => p,
        Err(e) => {
            o.fail(format!("{sig};roundtrip"), format!("RTX packet does not parse: {e:?} {c:?}"));
            o.class = "rtx:parse-error".into();
            return o;
        }
    };
    if back != rtx {
        o.fail(format!("{sig};roundtrip"), format!("RTX wire round trip differs {c:?}"));
    }
    // RFC 4588 wire layout as seen by the independent parser
    match ref_call(|| rtp::packet::Packet::unmarshal(&mut Bytes::from(wire.clone()))) {
        Ok(Ok(r)) => {
            o.ref_checks += 1;
            let ok = r.header.ssrc == cfg.rtx_ssrc
                && r.header.payload_type == cfg.rtx_payload_type
                && r.header.sequence_number == rtx_seq
                && r.header.timestamp == ts
                && r.header.marker == c.marker
                && r.payload.len() == c.payload + 2
                && r.payload[..2] == c.seq.to_be_bytes()
                && r.payload[2..] == orig.payload[..];
            if !ok {
                o.fail(format!("{sig};ref"), format!("RFC 4588 layout not seen by reference parser: {:?} for {c:?}", r.header));
            }
        }
        other => o.fail(format!("{sig};ref"), format!("reference rejects RTX packet: {:?}", other.map(|r| r.map(|_| ())))),
    }
    match unwrap_rtx_packet(&back, orig.header.ssrc, orig.header.payload_type) {
        Some(u) => {
            let mut bad = vec![];
            if u.header.sequence_number != orig.header.sequence_number {
                bad.push("seq");
            }
            if u.header.timestamp != orig.header.timestamp {
                bad.push("timestamp");
            }
            if u.header.marker != orig.header.marker {
                bad.push("marker");
            }
            if u.payload != orig.payload {
                bad.push("payload");
            }
            if u.header.ssrc != orig.header.ssrc || u.header.payload_type != orig.header.payload_type {
                bad.push("ssrc/pt");
            }
            if !bad.is_empty() {
                o.fail(format!("{sig};not-restored({})", bad.join("+")), format!("unwrap(wrap(p)) lost {bad:?}: orig seq {} ts {} m {} len {}, got seq {} ts {} m {} len {}", c.seq, ts, c.marker, c.payload, u.header.sequence_number, u.header.timestamp, u.header.marker, u.payload.len()));
            }
        }
        None => o.fail(format!("{sig};unwrap-none"), format!("unwrap_rtx_packet returned None for a wrapped packet {c:?}")),
    }
    let region = match c.seq {
        0 => "0",
        65535 => "65535",
        32768 => "32768",
        _ => "mid",
    };
    o.class = format!("rtx:seq={region},pl={},m={},shape={}:{}", c.payload, c.marker as u8, c.shape, if o.fails.is_empty() { "ok" } else { "violation" });
    o
}
