//! NACK: (pid, blp) wire pairs, lost-sequence sets across the 65535/0 wrap, and the public NACK
//! helpers of peer_connection.rs (receiver gap detection, sender retransmission buffer).
use super::Out;
use super::rtcpx::{Spec, check_rtcp};
use bytes::Bytes;
use rustrtc::peer_connection::{DefaultRtpReceiverNackHandler, DefaultRtpSenderNackHandler, RtpReceiverInterceptor, RtpSenderInterceptor};
use rustrtc::rtp::*;
use std::collections::BTreeSet;

/// The 40-value window centred on the 65535/0 wrap.
pub fn window(n: u16) -> Vec<u16> {
    let half = n / 2;
    (0..n).map(|i| 0u16.wrapping_sub(half).wrapping_add(i)).collect()
}

/// Hand-built generic NACK FCI (pid, blp): the decoded set must be RFC 4585's, re-encoding must
/// preserve the set, and the reference must read the re-encoding as the same set.
pub fn check_nack_wire(pid: u16, blp: u16) -> Out {
    check_nack_wire_n(&[(pid, blp)])
}

/// The same with several FCI entries (their ranges may overlap or repeat: the meaning is the
/// union of the named sequence numbers).
pub fn check_nack_wire_n(pairs: &[(u16, u16)]) -> Out {
    let mut o = Out::default();
    let words = 2 + pairs.len() as u16;
    let mut b = vec![0x81, 205, (words >> 8) as u8, words as u8, 0, 0, 0, 5, 0, 0, 0, 6];
    let mut want: BTreeSet<u16> = BTreeSet::new();
    let mut wraps = false;
    for &(pid, blp) in pairs {
        b.extend_from_slice(&pid.to_be_bytes());
        b.extend_from_slice(&blp.to_be_bytes());
        want.insert(pid);
        for i in 0..16u16 {
            if blp >> i & 1 == 1 {
                want.insert(pid.wrapping_add(i + 1));
                wraps |= pid.wrapping_add(i + 1) < pid;
            }
        }
    }
    let (pid, blp) = pairs.first().copied().unwrap_or((0, 0));
    let sig = "rtcp.nack.wire";
    let single = pairs.len() == 1;
    match parse_rtcp_packets(&b, None) {
        Ok(p) => {
            o.accepted = true;
            match p.as_slice() {
                [RtcpPacket::GenericNack(n)] => {
                    let got: BTreeSet<u16> = n.lost_packets.iter().copied().collect();
                    if got != want || n.sender_ssrc != 5 || n.media_ssrc != 6 {
                        o.fail(format!("{sig};set-mismatch"), format!("pid {pid} blp {blp:#06x}: expected {want:?}, parsed {got:?}"));
                    }
                    if single && n.lost_packets.len() != got.len() {
                        o.fail(format!("{sig};duplicates"), format!("pid {pid} blp {blp:#06x}: parsed list has duplicates {:?}", n.lost_packets));
                    }
                    match marshal_rtcp_packets(&p) {
                        Ok(b2) => {
                            match parse_rtcp_packets(&b2, None) {
                                Ok(p2) => {
                                    let got2: BTreeSet<u16> = match p2.as_slice() {
                                        [RtcpPacket::GenericNack(n2)] => n2.lost_packets.iter().copied().collect(),
                                        _ => BTreeSet::new(),
                                    };
                                    if got2 != want {
                                        o.fail(format!("{sig};repack-set-mismatch"), format!("pid {pid} blp {blp:#06x}: set after parse→marshal→parse {got2:?}, expected {want:?}"));
                                    }
                                }
                                Err(e) => o.fail(format!("{sig};repack-set-mismatch"), format!("re-encoded NACK rejected: {e:?}")),
                            }
                            match super::ref_call(|| rtcp::packet::unmarshal(&mut Bytes::from(b2.clone()))) {
                                Ok(Ok(rs)) => {
                                    o.ref_checks += 1;
                                    let r: BTreeSet<u16> = rs
                                        .iter()
                                        .filter_map(|r| r.as_any().downcast_ref::<rtcp::transport_feedbacks::transport_layer_nack::TransportLayerNack>())
                                        .flat_map(|t| t.nacks.iter().flat_map(|p| p.packet_list()))
                                        .collect();
                                    if r != want {
                                        o.fail(format!("{sig};ref"), format!("reference reads re-encoded NACK as {r:?}, expected {want:?}"));
                                    }
                                }
                                other => o.fail(format!("{sig};ref"), format!("reference rejects re-encoded NACK: {:?}", other.map(|r| r.map(|_| ())))),
                            }
                        }
                        Err(e) => o.fail(format!("{sig};repack-set-mismatch"), format!("marshal refuses parsed NACK: {e:?}")),
                    }
                }
                other => o.fail(format!("{sig};set-mismatch"), format!("unexpected parse result {other:?}")),
            }
        }
        Err(e) => o.fail(format!("{sig};parse-rejected"), format!("canonical NACK rejected: {e:?}")),
    }
    if single {
        o.class = format!("nackwire:pid={pid},bits={},wraps={}:{}", blp.count_ones(), wraps as u8, if o.fails.is_empty() { "ok" } else { "violation" });
    } else {
        o.class = format!("nackwire{}:set={},wraps={}:{}", pairs.len(), want.len(), wraps as u8, if o.fails.is_empty() { "ok" } else { "violation" });
    }
    o
}

/// A set of lost sequence numbers (given in wrap order) through pack → marshal → parse, in both
/// directions with the reference (delegates to the generic RTCP check, whose NACK equality is set
/// equality).
pub fn check_nack_set(seqs: &[u16]) -> Out {
    let mut o = check_rtcp(&[Spec::Nack { lost: seqs.to_vec(), fill: 2 }]);
    // re-key signature and class to the structure of the set
    let span_wrap = seqs.iter().any(|s| *s >= 0x8000) && seqs.iter().any(|s| *s < 0x8000);
    let mut sorted = seqs.to_vec();
    sorted.sort_by_key(|s| s.wrapping_add(0x8000));
    let maxgap = sorted.windows(2).map(|w| w[1].wrapping_sub(w[0])).max().unwrap_or(0);
    let gap = if maxgap <= 16 { "<=16" } else { ">16" };
    for f in &mut o.fails {
        let kind = f.sig.rsplit(';').next().unwrap_or("").to_string();
        f.sig = format!("rtcp.nack.set;wrap={};{kind}", span_wrap as u8);
        f.detail = format!("lost set {seqs:?}: {}", f.detail);
    }
    o.class = format!("nackset:n={},wrap={},maxgap{gap}:{}", seqs.len(), span_wrap as u8, if o.fails.is_empty() { "ok" } else { "violation" });
    o
}

fn pkt(seq: u16) -> RtpPacket {
    RtpPacket::new(RtpHeader::new(96, seq, seq as u32 * 90, 0x5151), vec![seq as u8, (seq >> 8) as u8])
}

/// Receiver sees `last` then `seq`: the NACK it emits must name exactly the sequence numbers
/// strictly between them (mod 2^16), survive marshal→parse as a set, and select exactly those
/// packets from a sender buffer holding the whole window.
pub fn check_nack_gap(last: u16, seq: u16) -> Out {
    let mut o = Out::default();
    let a: std::net::SocketAddr = "127.0.0.1:1".parse().unwrap();
    let rx = DefaultRtpReceiverNackHandler::new();
    let first = futures::executor::block_on(rx.on_packet_received(&pkt(last), a, a));
    let second = futures::executor::block_on(rx.on_packet_received(&pkt(seq), a, a));
    let diff = seq.wrapping_sub(last);
    let mut want: BTreeSet<u16> = BTreeSet::new();
    if diff > 1 && diff < 32768 {
        let mut s = last.wrapping_add(1);
        while s != seq {
            want.insert(s);
            s = s.wrapping_add(1);
        }
    }
    let sig = "nack.gap";
    if first.is_some() {
        o.fail(format!("{sig};nack-on-first-packet"), format!("first packet {last} produced {first:?}"));
    }
    match second {
        None => {
            if !want.is_empty() {
                o.fail(format!("{sig};missing-nack"), format!("last {last} then {seq}: no NACK, expected {want:?}"));
            }
            o.class = format!("nackgap:none,wrap={}:{}", (seq < last) as u8, if o.fails.is_empty() { "ok" } else { "violation" });
        }
        Some(pkt0) => {
            o.accepted = true;
            let RtcpPacket::GenericNack(n) = &pkt0 else {
                o.fail(format!("{sig};wrong-packet"), format!("{pkt0:?}"));
                return o;
            };
            let got: BTreeSet<u16> = n.lost_packets.iter().copied().collect();
            if got != want {
                o.fail(format!("{sig};set-mismatch"), format!("last {last} then {seq}: NACK lists {got:?}, expected {want:?}"));
            }
            match marshal_rtcp_packets(std::slice::from_ref(&pkt0)).and_then(|b| parse_rtcp_packets(&b, None)) {
                Ok(p) => {
                    let wire: Vec<u16> = match p.as_slice() {
                        [RtcpPacket::GenericNack(m)] => m.lost_packets.clone(),
                        _ => vec![],
                    };
                    let ws: BTreeSet<u16> = wire.iter().copied().collect();
                    if ws != want {
                        o.fail(format!("{sig};wire-set-mismatch"), format!("last {last} then {seq}: after marshal→parse {ws:?}, expected {want:?}"));
                    }
                    // sender side: buffer holds the whole 64-value wrap window
                    let tx = DefaultRtpSenderNackHandler::new(256);
                    for s in window(64) {
                        futures::executor::block_on(tx.on_packet_sent(&pkt(s), a, a));
                    }
                    let out = tx.packets_for_nack(&wire, std::time::Instant::now());
                    let sent: BTreeSet<u16> = out.iter().map(|p| p.header.sequence_number).collect();
                    let bad_payload = out.iter().any(|p| p.payload[..] != [p.header.sequence_number as u8, (p.header.sequence_number >> 8) as u8]);
                    if sent != want || out.len() != want.len() || bad_payload {
                        o.fail(format!("{sig};retransmit-set-mismatch"), format!("last {last} then {seq}: sender selected {sent:?} ({} packets), expected {want:?}", out.len()));
                    }
                }
                Err(e) => o.fail(format!("{sig};wire-set-mismatch"), format!("NACK from receiver handler does not survive the wire: {e:?}")),
            }
            o.class = format!("nackgap:n={},wrap={}:{}", want.len(), (seq < last) as u8, if o.fails.is_empty() { "ok" } else { "violation" });
        }
    }
    o
}
