//! A controlled scheduler for real OS threads whose only interaction points are the lock
//! operations announced through hook H6 (`rustrtc::verif::sync`), and a stateless,
//! preemption-bounded depth-first explorer over its decisions.
//!
//! Exactly one registered thread runs at a time. A thread stops at every `lock`, `try_lock`
//! (before the attempt) and `unlock` (before the release, the lock still held); the scheduler then
//! picks the next thread among the ENABLED ones: a thread waiting to `lock` a mutex that another
//! thread holds is not enabled (blocking is modelled, nobody spins); `try_lock` and `unlock`
//! are always enabled. "No thread enabled, not all finished" is a deadlock.
//!
//! Enabled threads are listed in canonical order - the thread that ran last first (if it is still
//! enabled), then ascending thread index - so decision 0 everywhere is "run to completion without
//! preemption", and choosing another index while the last thread is still enabled costs one
//! preemption. The explorer runs the all-zero schedule, then every schedule with one deviation,
//! and so on, up to the preemption bound (or without bound), re-executing the real code from
//! scratch for every schedule; a prefix that cannot be replayed exactly is a machinery failure.
use rustrtc::verif::sync::{LockOp, SyncHook, set_thread_hook};
use std::collections::HashMap;
use std::sync::{Arc, Condvar, Mutex};
use std::time::{Duration, Instant};

#[derive(Clone, Copy, Debug, PartialEq, Eq)]
enum Status {
    NotArrived,
    Waiting(Option<LockOp>, usize), // None = start point
    Running,
    Finished,
}

#[derive(Clone, Debug)]
pub struct Point {
    /// thread indices, canonical order
    pub enabled: Vec<usize>,
    pub chosen: usize,
    /// the thread that ran last is among the enabled ones (then it is enabled[0])
    pub last_still_enabled: bool,
    /// what the chosen thread is about to do, with the lock named by order of first appearance
    pub desc: String,
}

struct St {
    status: Vec<Status>,
    held: HashMap<usize, usize>,
    current: Option<usize>,
    last: Option<usize>,
    prefix: Vec<usize>,
    points: Vec<Point>,
    lock_names: Vec<usize>,
    free: bool,
    deadlock: bool,
    diverged: Option<String>,
}

pub struct Sched {
    st: Mutex<St>,
    cv: Condvar,
}

struct ThreadHook {
    sched: Arc<Sched>,
    tid: usize,
}

impl SyncHook for ThreadHook {
    fn point(&self, op: LockOp, lock_id: usize) {
        self.sched.point(self.tid, Some(op), lock_id);
    }
    fn acquired(&self, lock_id: usize, ok: bool) {
        if ok {
            let mut st = self.sched.st.lock().unwrap();
            st.held.insert(lock_id, self.tid);
        }
    }
    fn released(&self, lock_id: usize) {
        let mut st = self.sched.st.lock().unwrap();
        st.held.remove(&lock_id);
    }
}

impl Sched {
    fn new(n: usize, prefix: Vec<usize>) -> Arc<Sched> {
        Arc::new(Sched {
            st: Mutex::new(St {
                status: vec![Status::NotArrived; n],
                held: HashMap::new(),
                current: None,
                last: None,
                prefix,
                points: vec![],
                lock_names: vec![],
                free: false,
                deadlock: false,
                diverged: None,
            }),
            cv: Condvar::new(),
        })
    }

    fn decide(st: &mut St) {
        if st.free || st.current.is_some() {
            return;
        }
        if st.status.iter().any(|s| matches!(s, Status::NotArrived | Status::Running)) {
            return;
        }
        let mut enabled: Vec<usize> = vec![];
        for (t, s) in st.status.iter().enumerate() {
            if let Status::Waiting(op, id) = s {
                let blocked = *op == Some(LockOp::Lock) && st.held.contains_key(id);
                if !blocked {
                    enabled.push(t);
                }
            }
        }
        if enabled.is_empty() {
            if st.status.iter().any(|s| !matches!(s, Status::Finished)) {
                st.deadlock = true;
                st.free = true;
            }
            return;
        }
        let mut last_still_enabled = false;
        if let Some(l) = st.last {
            if let Some(pos) = enabled.iter().position(|t| *t == l) {
                enabled.remove(pos);
                enabled.insert(0, l);
                last_still_enabled = true;
            }
        }
        let k = st.points.len();
        let idx = if k < st.prefix.len() { st.prefix[k] } else { 0 };
        if idx >= enabled.len() {
            st.diverged = Some(format!("decision {k}: prefix asks for alternative {idx} of {}", enabled.len()));
            st.free = true;
            return;
        }
        let t = enabled[idx];
        let desc = match st.status[t] {
            Status::Waiting(None, _) => format!("T{t}:start"),
            Status::Waiting(Some(op), id) => {
                let name = match st.lock_names.iter().position(|x| *x == id) {
                    Some(p) => p,
                    None => {
                        st.lock_names.push(id);
                        st.lock_names.len() - 1
                    }
                };
                format!("T{t}:{op:?}(L{name})")
            }
            _ => unreachable!(),
        };
        st.points.push(Point { enabled, chosen: idx, last_still_enabled, desc });
        st.current = Some(t);
        st.last = Some(t);
    }

    fn point(&self, tid: usize, op: Option<LockOp>, id: usize) {
        let mut st = self.st.lock().unwrap();
        if st.free {
            return;
        }
        st.status[tid] = Status::Waiting(op, id);
        if st.current == Some(tid) {
            st.current = None;
        }
        Self::decide(&mut st);
        self.cv.notify_all();
        while st.current != Some(tid) && !st.free {
            st = self.cv.wait(st).unwrap();
        }
        st.status[tid] = Status::Running;
    }

    fn finish(&self, tid: usize) {
        let mut st = self.st.lock().unwrap();
        st.status[tid] = Status::Finished;
        if st.current == Some(tid) {
            st.current = None;
        }
        Self::decide(&mut st);
        self.cv.notify_all();
    }
}

pub struct Execution {
    pub points: Vec<Point>,
    pub deadlock: bool,
    /// a panic message per thread that panicked
    pub panics: Vec<String>,
}

impl Execution {
    pub fn choices(&self) -> Vec<usize> {
        self.points.iter().map(|p| p.chosen).collect()
    }
    pub fn schedule(&self) -> Vec<String> {
        self.points.iter().map(|p| p.desc.clone()).collect()
    }
    pub fn preemptions(&self) -> usize {
        self.points.iter().filter(|p| p.chosen != 0 && p.last_still_enabled).count()
    }
}

/// Runs the thread bodies once under the schedule `prefix` (then decision 0 to the end).
pub fn run_schedule(bodies: Vec<Box<dyn FnOnce() + Send + 'static>>, prefix: &[usize]) -> Execution {
    let n = bodies.len();
    let sched = Sched::new(n, prefix.to_vec());
    let mut handles = vec![];
    for (tid, body) in bodies.into_iter().enumerate() {
        let s = sched.clone();
        handles.push(std::thread::spawn(move || {
            set_thread_hook(Some(Arc::new(ThreadHook { sched: s.clone(), tid }) as Arc<dyn SyncHook>));
            s.point(tid, None, 0);
            let r = crate::catch(std::panic::AssertUnwindSafe(body));
            set_thread_hook(None);
            s.finish(tid);
            r.err()
        }));
    }
    // wait for completion or deadlock
    let start = Instant::now();
    {
        let mut st = sched.st.lock().unwrap();
        loop {
            if st.deadlock || st.diverged.is_some() || st.status.iter().all(|s| *s == Status::Finished) {
                break;
            }
            let (g, _) = sched.cv.wait_timeout(st, Duration::from_millis(200)).unwrap();
            st = g;
            if start.elapsed() > Duration::from_secs(20) {
                crate::machinery_failure(&format!("controlled execution did not finish in 20 s; schedule so far {:?}", st.points.iter().map(|p| p.desc.clone()).collect::<Vec<_>>()));
            }
        }
        if let Some(d) = &st.diverged {
            crate::machinery_failure(&format!("schedule replay diverged: {d}; schedule so far {:?}", st.points.iter().map(|p| p.desc.clone()).collect::<Vec<_>>()));
        }
    }
    let deadlock = sched.st.lock().unwrap().deadlock;
    let mut panics = vec![];
    if !deadlock {
        for h in handles {
            match h.join() {
                Ok(Some(p)) => panics.push(p),
                Ok(None) => {}
                Err(_) => panics.push("thread panicked outside the body".into()),
            }
        }
    }
    // on deadlock the threads are left blocked for good (leaked); the caller reports and stops
    let st = sched.st.lock().unwrap();
    Execution { points: st.points.clone(), deadlock, panics }
}

#[derive(Default, Clone, Debug)]
pub struct ExploreStats {
    pub schedules: u64,
    pub decisions: u64,
    pub max_points: usize,
    pub max_preemptions_used: usize,
    pub bound: Option<usize>,
}

/// Depth-first exploration of every schedule with at most `bound` preemptions (None = all).
/// `run` builds a fresh system, runs it under the given prefix and returns the execution;
/// `check` judges it (it sees the prefix-completed execution) and returns false to stop.
pub fn explore(bound: Option<usize>, mut run: impl FnMut(&[usize]) -> Execution, mut check: impl FnMut(&Execution) -> bool) -> ExploreStats {
    let mut stats = ExploreStats { bound, ..Default::default() };
    let mut stack: Vec<Vec<usize>> = vec![vec![]];
    while let Some(prefix) = stack.pop() {
        let x = run(&prefix);
        // the prefix must have been followed exactly
        let got = x.choices();
        if got.len() < prefix.len() || got[..prefix.len()] != prefix[..] {
            crate::machinery_failure(&format!("prefix {prefix:?} was not replayed: got {got:?}"));
        }
        stats.schedules += 1;
        stats.decisions += x.points.len() as u64;
        stats.max_points = stats.max_points.max(x.points.len());
        stats.max_preemptions_used = stats.max_preemptions_used.max(x.preemptions());
        if !check(&x) {
            break;
        }
        let mut cost = x.points[..prefix.len()].iter().filter(|p| p.chosen != 0 && p.last_still_enabled).count();
        for i in prefix.len()..x.points.len() {
            let p = &x.points[i];
            let c = cost + usize::from(p.last_still_enabled);
            if bound.map_or(true, |b| c <= b) {
                for alt in (1..p.enabled.len()).rev() {
                    let mut np = got[..i].to_vec();
                    np.push(alt);
                    stack.push(np);
                }
            }
            // p.chosen is 0 beyond the prefix: no cost added
            if p.chosen != 0 && p.last_still_enabled {
                cost += 1;
            }
        }
    }
    stats
}
