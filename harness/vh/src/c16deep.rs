//! C16 thorough-tier deep blocks (module of the `c16` binary; not part of the `vh` library).
//!
//! Every block is a complete enumeration of a stated product, streamed (index -> case) through
//! rayon; nothing is materialised. A case is a small serialisable descriptor (`D`) so that
//! `--replay` can re-run it alone.
use super::*;
use serde::{Deserialize, Serialize};

// ---------------------------------------------------------------------------------------
// domains
// ---------------------------------------------------------------------------------------

/// Transaction ids of the deep blocks: the three of the original sweep plus five that are
/// neither constant nor palindromic (one equals the magic cookie repeated: it XORs to zero).
pub const DTX: [[u8; 12]; 8] = [
    [0u8; 12],
    [0xffu8; 12],
    [0x01, 0x23, 0x45, 0x67, 0x89, 0xab, 0xcd, 0xef, 0x10, 0x32, 0x54, 0x76],
    [0, 1, 2, 3, 4, 5, 6, 7, 8, 9, 10, 11],
    [0xfe, 0xdc, 0xba, 0x98, 0x76, 0x54, 0x32, 0x10, 0x0f, 0x1e, 0x2d, 0x3c],
    [0x80, 0, 0, 0, 0, 0, 0, 0, 0, 0, 0, 0x01],
    [0x21, 0x12, 0xa4, 0x42, 0x21, 0x12, 0xa4, 0x42, 0x21, 0x12, 0xa4, 0x42],
    [0x5a, 0xa5, 0x5a, 0xa5, 0x5a, 0xa5, 0x5a, 0xa5, 0x5a, 0xa5, 0x5a, 0xa4],
];

/// (method index, class index) combinations used where the header is not the subject.
pub const MC: [(usize, usize); 4] = [(0, 0), (0, 2), (1, 3), (5, 1)];

const PORTS: [u16; 12] = [0, 1, 0x2111, 0x2112, 0x2113, 0xa442, 0x00ff, 0xff00, 32767, 32768, 65534, 65535];
const OCT: [u8; 10] = [0, 1, 0x21, 0x12, 0xa4, 0x42, 127, 128, 254, 255];
const W32: [u32; 6] = [0, 1, 0x2112_a442, 0x8000_0000, 0xffff_ffff, 0x0123_4567];

/// Number of addresses in the deep lattice.
pub fn n_addr() -> u64 {
    10_000 + 1296 + 4096 + 100
}

/// Address `i` of the deep lattice: IPv4 = every octet over 10 edge values; IPv6 = every 32-bit
/// word over 6 edge values, one walking byte (16 positions x 256 values), IPv4-mapped forms.
pub fn addr_at(i: u64) -> IpAddr {
    if i < 10_000 {
        let o = |k: u64| OCT[(i / 10u64.pow(k as u32) % 10) as usize];
        IpAddr::V4(Ipv4Addr::new(o(3), o(2), o(1), o(0)))
    } else if i < 11_296 {
        let j = i - 10_000;
        let w = |k: u32| W32[(j / 6u64.pow(k) % 6) as usize];
        let mut b = [0u8; 16];
        for k in 0..4 {
            b[k * 4..k * 4 + 4].copy_from_slice(&w(3 - k as u32).to_be_bytes());
        }
        IpAddr::V6(Ipv6Addr::from(b))
    } else if i < 15_392 {
        let j = i - 11_296;
        let mut b = [0x20, 0x01, 0x0d, 0xb8, 0, 0, 0, 0, 0, 0, 0, 0, 0, 0, 0, 0x01];
        b[(j / 256) as usize] = (j % 256) as u8;
        IpAddr::V6(Ipv6Addr::from(b))
    } else {
        let j = i - 15_392;
        IpAddr::V6(Ipv4Addr::new(OCT[(j / 10) as usize], 0, 2, OCT[(j % 10) as usize]).to_ipv6_mapped())
    }
}

fn xor_typ(kind: u8) -> AttrType {
    [ATTR_XORMAPPED_ADDRESS, ATTR_XOR_PEER_ADDRESS, ATTR_XOR_RELAYED_ADDRESS][kind as usize % 3]
}

/// Exactly `n` bytes of valid UTF-8 in one of three styles: 0 = the original mixed text,
/// 1 = ASCII only, 2 = as many 4-byte characters as fit, then ASCII.
pub fn styled(n: usize, tag: u8, style: u8) -> String {
    match style {
        0 => text(n, tag),
        1 => (0..n).map(|i| (b'A' + ((i + tag as usize) % 26) as u8) as char).collect(),
        _ => {
            let mut s = String::new();
            while s.len() + 4 <= n {
                s.push('\u{1F600}');
            }
            while s.len() < n {
                s.push('z');
            }
            s
        }
    }
}

const TEXT_KINDS: [(&str, AttrType, u8); 5] =
    [("USERNAME", ATTR_USERNAME, 0), ("REALM", ATTR_REALM, 7), ("NONCE", ATTR_NONCE, 13), ("SOFTWARE", ATTR_SOFTWARE, 19), ("DATA", ATTR_DATA, 3)];

/// Attribute types rustrtc's encoder or decoder names; any other type below 0x8000 is
/// comprehension-required and unknown to it, so a decode error is RFC-conformant there.
const RUSTRTC_TYPES: [u16; 18] =
    [0x0006, 0x0008, 0x0009, 0x000c, 0x000d, 0x0012, 0x0013, 0x0014, 0x0015, 0x0016, 0x0019, 0x0020, 0x0024, 0x0025, 0x8022, 0x8028, 0x8029, 0x802a];
/// Types swept over every value length: the above plus standard / unknown ones.
pub const LEN_TYPES: [u16; 28] = [
    0x0006, 0x0008, 0x0009, 0x000c, 0x000d, 0x0012, 0x0013, 0x0014, 0x0015, 0x0016, 0x0019, 0x0020, 0x0024, 0x0025, 0x8022, 0x8028, 0x8029, 0x802a,
    0x0001, 0x000a, 0x0018, 0x001a, 0x0022, 0x8023, 0x802b, 0x802c, 0xc001, 0xffff,
];

fn must_decode(typ: u16) -> bool {
    typ >= 0x8000 || RUSTRTC_TYPES.contains(&typ)
}

// ---------------------------------------------------------------------------------------
// shared judges
// ---------------------------------------------------------------------------------------

fn ref_new(mc: (usize, usize), tx: &[u8; 12]) -> Message {
    let mut m = Message::new();
    m.transaction_id = TransactionId(*tx);
    m.set_type(MessageType::new(ref_method(mc.0), ref_class(mc.1)));
    m.write_header();
    m
}

fn ref_finish(m: &mut Message, key: Option<&Vec<u8>>, fp: bool) {
    if let Some(k) = key {
        MessageIntegrity(k.clone()).add_to(m).unwrap_or_else(|e| vh::machinery_failure(&format!("reference MI failed: {e}")));
    }
    if fp {
        FINGERPRINT.add_to(m).unwrap_or_else(|e| vh::machinery_failure(&format!("reference FP failed: {e}")));
    }
}

fn rust_decode(bytes: &[u8]) -> Result<rustrtc::transports::ice::stun::StunDecoded, Fail> {
    match vh::catch(|| StunMessage::decode(bytes)) {
        Err(p) => Err(("panic".into(), format!("decode panicked: {p}"))),
        Ok(Err(e)) => Err(("decode-error".into(), format!("rustrtc rejects reference message: {e}"))),
        Ok(Ok(d)) => Ok(d),
    }
}

fn check_header(d: &rustrtc::transports::ice::stun::StunDecoded, mc: (usize, usize), tx: &[u8; 12]) -> Result<(), Fail> {
    if d.method != METHODS[mc.0].0 || d.class != CLASSES[mc.1].0 {
        return Err(("header-type".into(), format!("decoded {:?} {:?}, built {} {}", d.method, d.class, METHODS[mc.0].1, CLASSES[mc.1].1)));
    }
    if d.transaction_id != *tx {
        return Err(("header-txid".into(), "transaction id differs".into()));
    }
    Ok(())
}

/// MESSAGE-INTEGRITY as decoded by rustrtc against the reference message it came from.
fn check_decoded_mi(d: &rustrtc::transports::ice::stun::StunDecoded, m: &Message, bytes: &[u8], key: Option<&Vec<u8>>) -> Result<(), Fail> {
    let Some(k) = key else {
        if d.message_integrity.is_some() {
            return Err(("field:message_integrity".into(), "MESSAGE-INTEGRITY decoded though the message has none".into()));
        }
        return Ok(());
    };
    // offset of the reference's MI attribute header
    let mut off = 20usize;
    let mut val = None;
    for a in &m.attributes.0 {
        if a.typ == ATTR_MESSAGE_INTEGRITY {
            val = Some(a.value.clone());
            break;
        }
        off += 4 + (a.value.len() + 3) / 4 * 4;
    }
    let val = val.unwrap_or_else(|| vh::machinery_failure("reference message lost its MI"));
    match &d.message_integrity {
        Some((o, h)) if *o == off && h[..] == val[..] => {}
        other => {
            return Err((
                "field:message_integrity".into(),
                format!("decoded MESSAGE-INTEGRITY {:?}, the reference wrote it at offset {off} with value {}", other.as_ref().map(|(o, h)| (*o, hex(h))), hex(&val)),
            ));
        }
    }
    match vh::catch(std::panic::AssertUnwindSafe(|| d.verify_integrity(bytes, k))) {
        Err(p) => Err(("panic".into(), format!("verify_integrity panicked: {p}"))),
        Ok(false) => Err(("mi-verify-false".into(), "verify_integrity() is false for a MESSAGE-INTEGRITY the reference computed under this key".into())),
        Ok(true) => Ok(()),
    }
}

/// rustrtc builds; the reference must read the same header, exactly the attributes `want` (as the
/// reference's own setters encode them), a valid MI under `key` and a valid FINGERPRINT.
fn judge_encoded(msg: &StunMessage, mc: (usize, usize), want: &[RawAttribute], key: Option<&Vec<u8>>, fp: bool) -> Result<Message, Fail> {
    let bytes = match vh::catch(std::panic::AssertUnwindSafe(|| msg.encode(key.map(|k| &k[..]), fp))) {
        Err(p) => return Err(("panic".into(), format!("encode panicked: {p}"))),
        Ok(Err(e)) => return Err(("encode-error".into(), format!("encode returned Err: {e}"))),
        Ok(Ok(b)) => b,
    };
    let mut m = Message::new();
    if let Err(e) = m.unmarshal_binary(&bytes) {
        return Err(("ref-reject".into(), format!("stun crate rejects the message: {e}; wire {}", vh::truncate(&hex(&bytes), 120))));
    }
    if bytes.len() != 20 + m.length as usize || bytes.len() % 4 != 0 {
        return Err(("length-field".into(), format!("header length {} but {} bytes on the wire", m.length, bytes.len())));
    }
    if m.typ != MessageType::new(ref_method(mc.0), ref_class(mc.1)) {
        return Err(("header-type".into(), format!("reference decodes type as '{}'", m.typ)));
    }
    if m.transaction_id.0 != msg.transaction_id {
        return Err(("header-txid".into(), "transaction id differs".into()));
    }
    let extra = key.is_some() as usize + fp as usize;
    if m.attributes.0.len() != want.len() + extra {
        return Err(("attr-count".into(), format!("reference sees {} attributes, expected {}", m.attributes.0.len(), want.len() + extra)));
    }
    for (i, w) in want.iter().enumerate() {
        let g = &m.attributes.0[i];
        if g.typ != w.typ {
            return Err((format!("attr-type:{}", w.typ), format!("attribute #{i}: type {} expected {}", g.typ, w.typ)));
        }
        if g.value != w.value {
            return Err((format!("attr-value:{}", w.typ), format!("attribute #{i} {}: value {} expected {}", w.typ, vh::truncate(&hex(&g.value), 80), vh::truncate(&hex(&w.value), 80))));
        }
    }
    let mut idx = want.len();
    if let Some(k) = key {
        let g = &m.attributes.0[idx];
        if g.typ != ATTR_MESSAGE_INTEGRITY || g.value.len() != 20 {
            return Err(("mi-missing".into(), format!("attribute #{idx} is {} len {}", g.typ, g.value.len())));
        }
        if let Err(e) = MessageIntegrity(k.clone()).check(&mut m) {
            return Err(("mi-invalid".into(), format!("MessageIntegrity::check: {e}")));
        }
        idx += 1;
    }
    if fp {
        if m.attributes.0[idx].typ != ATTR_FINGERPRINT {
            return Err(("fp-missing".into(), format!("last attribute is {}", m.attributes.0[idx].typ)));
        }
        if let Err(e) = FINGERPRINT.check(&m) {
            return Err(("fp-invalid".into(), format!("FINGERPRINT.check: {e}")));
        }
    }
    Ok(m)
}

fn xor_value(a: SocketAddr, tx: &[u8; 12]) -> Vec<u8> {
    let mut s = Message::new();
    s.transaction_id = TransactionId(*tx);
    s.write_header();
    XorMappedAddress { ip: a.ip(), port: a.port() }.add_to(&mut s).unwrap_or_else(|e| vh::machinery_failure(&format!("reference xor setter: {e}")));
    s.attributes.0[0].value.clone()
}

// ---------------------------------------------------------------------------------------
// the case descriptor
// ---------------------------------------------------------------------------------------

#[derive(Clone, Debug, Serialize, Deserialize)]
pub enum D {
    /// reference builds probes + one attribute of `typ` with a `len`-byte value at position `pos`
    AttrLen { typ: u16, len: usize, pos: u8, key: usize, fp: bool, txid: usize, mc: usize },
    /// reference builds `attrs` (indices into `mi_instances`) with MI inserted before position `mi_at`
    MiPlace { attrs: Vec<usize>, mi_at: usize, key: usize, fp: bool, txid: usize },
    /// one XOR address attribute. dir 0: rustrtc builds (kind 0 mapped, 1 peer); dir 1: reference builds (0,1,2 relayed)
    Xor { dir: u8, kind: u8, addr: u64, port: u16, txid: usize, key: usize, fp: bool },
    ErrCode { code: u16, reason: usize, key: usize, fp: bool, txid: usize },
    /// kind 0 CHANNEL-NUMBER, 1 REQUESTED-TRANSPORT, 2 LIFETIME, 3 PRIORITY, 4 ICE-CONTROLLING, 5 ICE-CONTROLLED
    Scalar { kind: u8, v: u64, key: usize, fp: bool, mc: usize },
    /// one text/DATA attribute of TEXT_KINDS[kind]; dir 0 rustrtc builds, 1 reference builds
    Text { dir: u8, kind: u8, len: usize, style: u8, key: usize, fp: bool },
    TextPair { dir: u8, k1: u8, l1: usize, k2: u8, l2: usize, key: usize, fp: bool },
}

pub fn mi_instances() -> Vec<A> {
    vec![
        A::XorMapped(1),
        A::XorMapped(4),
        A::XorPeer(5),
        A::XorRelayed(2),
        A::Realm(5),
        A::Nonce(127),
        A::Username(3),
        A::Username(6),
        A::Data(1),
        A::Data(4),
        A::Lifetime(600),
        A::ErrorCode(401, 12),
        A::UseCandidate,
        A::Software(3),
        A::Priority(u32::MAX),
    ]
}

fn lattice64() -> Vec<u64> {
    let mut v = vec![0u64, u64::MAX, 0x0123_4567_89ab_cdef];
    for k in 0..64 {
        v.extend([1u64 << k, (1u64 << k).wrapping_sub(1), (1u64 << k).wrapping_add(1)]);
    }
    v.sort_unstable();
    v.dedup();
    v
}
pub fn lattice32() -> Vec<u32> {
    let mut v: Vec<u32> = lattice64().into_iter().filter(|x| *x <= u32::MAX as u64).map(|x| x as u32).collect();
    v.push(600);
    v.sort_unstable();
    v.dedup();
    v
}

impl D {
    pub fn block(&self) -> &'static str {
        match self {
            D::AttrLen { .. } => "stun_attr_len",
            D::MiPlace { .. } => "stun_mi_placement",
            D::Xor { .. } => "stun_xor_addr",
            D::ErrCode { .. } => "stun_error_code",
            D::Scalar { .. } => "stun_scalar",
            D::Text { .. } => "stun_text_len",
            D::TextPair { .. } => "stun_text_pair",
        }
    }

    /// Structural part of the signature (besides the failure category).
    pub fn shape(&self) -> String {
        match self {
            D::AttrLen { typ, len, pos, key, fp, .. } => format!("type={typ:#06x};len={len};pos={pos};key={};fp={}", KEY_NAMES[*key], *fp as u8),
            D::MiPlace { attrs, mi_at, key, fp, .. } => {
                let inst = mi_instances();
                format!("attrs={};mi_at={mi_at};key={};fp={}", attrs.iter().map(|i| inst[*i].label()).collect::<Vec<_>>().join("+"), KEY_NAMES[*key], *fp as u8)
            }
            D::Xor { dir, kind, addr, port, .. } => {
                let ip = addr_at(*addr);
                let fam = match ip {
                    IpAddr::V4(_) => "v4",
                    IpAddr::V6(v) if v.to_ipv4_mapped().is_some() => "v6-mapped-v4",
                    IpAddr::V6(_) => "v6",
                };
                format!("dir={};attr={};family={fam};port={port}", ["encode", "decode"][*dir as usize % 2], xor_typ(*kind))
            }
            D::ErrCode { code, reason, .. } => format!("code={code};reason_len={reason}"),
            D::Scalar { kind, v, .. } => format!("attr={};value={v}", ["CHANNEL-NUMBER", "REQUESTED-TRANSPORT", "LIFETIME", "PRIORITY", "ICE-CONTROLLING", "ICE-CONTROLLED"][*kind as usize % 6]),
            D::Text { dir, kind, len, style, key, fp } => format!("dir={};attr={};len={len};style={style};key={};fp={}", ["encode", "decode"][*dir as usize % 2], TEXT_KINDS[*kind as usize % 5].0, KEY_NAMES[*key], *fp as u8),
            D::TextPair { dir, k1, l1, k2, l2, .. } => format!("dir={};attrs={}[{l1}]+{}[{l2}]", ["encode", "decode"][*dir as usize % 2], TEXT_KINDS[*k1 as usize % 5].0, TEXT_KINDS[*k2 as usize % 5].0),
        }
    }

    /// Runs the case. Ok(result class) / Err((category, detail)).
    pub fn run(&self, cx: &Ctx) -> Result<String, Fail> {
        match self {
            D::AttrLen { typ, len, pos, key, fp, txid, mc } => run_attr_len(cx, *typ, *len, *pos, *key, *fp, *txid, MC[*mc % 4]),
            D::MiPlace { attrs, mi_at, key, fp, txid } => run_mi_place(cx, attrs, *mi_at, *key, *fp, *txid),
            D::Xor { dir, kind, addr, port, txid, key, fp } => run_xor(cx, *dir, *kind, SocketAddr::new(addr_at(*addr), *port), *txid, *key, *fp),
            D::ErrCode { code, reason, key, fp, txid } => run_err_code(cx, *code, *reason, *key, *fp, *txid),
            D::Scalar { kind, v, key, fp, mc } => run_scalar(cx, *kind, *v, *key, *fp, MC[*mc % 4]),
            D::Text { dir, kind, len, style, key, fp } => run_texts(cx, *dir, &[(*kind, *len, *style)], *key, *fp),
            D::TextPair { dir, k1, l1, k2, l2, key, fp } => run_texts(cx, *dir, &[(*k1, *l1, 0), (*k2, *l2, 1)], *key, *fp),
        }
    }
}

// ---- attribute type x value length ----------------------------------------------------------

fn x_value(typ: u16, len: usize, tx: &[u8; 12]) -> Vec<u8> {
    match typ {
        0x0006 => text(len, 0).into_bytes(),
        0x0014 => text(len, 7).into_bytes(),
        0x0015 => text(len, 13).into_bytes(),
        0x8022 => text(len, 19).into_bytes(),
        0x0020 | 0x0012 | 0x0016 if len == 8 => xor_value("192.0.2.33:40000".parse().unwrap(), tx),
        0x0020 | 0x0012 | 0x0016 if len == 20 => xor_value("[2001:db8:1::7]:40001".parse().unwrap(), tx),
        0x0009 if len >= 4 => {
            let mut v = vec![0, 0, 4, 38];
            v.extend_from_slice(text(len - 4, 5).as_bytes());
            v
        }
        _ => blob(len),
    }
}

#[allow(clippy::too_many_arguments)]
fn run_attr_len(cx: &Ctx, typ: u16, len: usize, pos: u8, key: usize, fp: bool, txid: usize, mc: (usize, usize)) -> Result<String, Fail> {
    let tx = &DTX[txid % 8];
    let p_addr: SocketAddr = "[2001:db8::ff]:8466".parse().unwrap();
    let probes: Vec<(u16, Vec<u8>)> = vec![
        (0x0020, xor_value(p_addr, tx)),
        (0x0015, text(5, 13).into_bytes()),
        (0x0006, text(3, 0).into_bytes()),
        (0x000d, 600u32.to_be_bytes().to_vec()),
    ];
    let probes: Vec<(u16, Vec<u8>)> = probes.into_iter().filter(|(t, _)| *t != typ).collect();
    let x = (typ, x_value(typ, len, tx));
    let mut list = probes.clone();
    let at = match pos {
        0 => 0,
        1 => list.len() / 2,
        _ => list.len(),
    };
    list.insert(at, x.clone());
    let mut m = ref_new(mc, tx);
    for (t, v) in &list {
        m.add(AttrType(*t), v);
    }
    // a fake MESSAGE-INTEGRITY / FINGERPRINT as the swept attribute: no real one is added
    // (which of two would count is not defined)
    let k = if typ == 0x0008 || typ == 0x8028 { None } else { cx.keys[key].as_ref() };
    let fp = fp && typ != 0x8028 && typ != 0x0008;
    ref_finish(&mut m, k, fp);
    let bytes = m.raw.clone();
    let d = match rust_decode(&bytes) {
        Ok(d) => d,
        Err((cat, det)) if cat == "decode-error" && !must_decode(typ) => {
            let _ = det;
            return Ok("unknown-comprehension-required:rejected".into());
        }
        Err(e) => return Err(e),
    };
    check_header(&d, mc, tx)?;
    let has = |t: u16| list.iter().any(|(tt, _)| *tt == t);
    let bad = |field: &str, got: String, want: String| -> Result<String, Fail> { Err((format!("field:{field}"), format!("{field}: decoded {got}, the message carries {want}"))) };
    // probes, and absence of what the message does not carry
    if typ != 0x0020 && d.xor_mapped_address != Some(p_addr) {
        return bad("xor_mapped_address", format!("{:?}", d.xor_mapped_address), format!("{p_addr}"));
    }
    if typ != 0x0015 && d.nonce.as_deref() != Some(&text(5, 13)[..]) {
        return bad("nonce", format!("{:?}", d.nonce), format!("{:?}", text(5, 13)));
    }
    if typ != 0x0006 && d.username.as_deref() != Some(&text(3, 0)[..]) {
        return bad("username", format!("{:?}", d.username), format!("{:?}", text(3, 0)));
    }
    if typ != 0x000d && d.lifetime != Some(600) {
        return bad("lifetime", format!("{:?}", d.lifetime), "600".into());
    }
    if !has(0x0016) && d.xor_relayed_address.is_some() || !has(0x0012) && d.xor_peer_address.is_some() || !has(0x0009) && d.error_code.is_some() || !has(0x0014) && d.realm.is_some() || !has(0x0013) && d.data.is_some() || !has(0x0025) && d.use_candidate {
        return bad("absent-attribute", format!("{d:?}"), "no such attribute".into());
    }
    // the swept attribute itself, where (type, length) is well-formed
    let xv = &x.1;
    let mut wellformed = true;
    match typ {
        0x0006 if d.username.as_deref() != std::str::from_utf8(xv).ok() => return bad("username", format!("{:?}", d.username.as_ref().map(|s| s.len())), format!("{} bytes of text", len)),
        0x0014 if d.realm.as_deref() != std::str::from_utf8(xv).ok() => return bad("realm", format!("{:?}", d.realm.as_ref().map(|s| s.len())), format!("{} bytes of text", len)),
        0x0015 if d.nonce.as_deref() != std::str::from_utf8(xv).ok() => return bad("nonce", format!("{:?}", d.nonce.as_ref().map(|s| s.len())), format!("{} bytes of text", len)),
        0x0013 if d.data.as_deref() != Some(&xv[..]) => return bad("data", format!("{:?}", d.data.as_ref().map(|s| s.len())), format!("{} bytes", len)),
        0x000d if len == 4 && d.lifetime != Some(u32::from_be_bytes([xv[0], xv[1], xv[2], xv[3]])) => return bad("lifetime", format!("{:?}", d.lifetime), hex(xv)),
        0x0009 if len >= 4 && d.error_code != Some(438) => return bad("error_code", format!("{:?}", d.error_code), "438".into()),
        0x0025 if len == 0 && !d.use_candidate => return bad("use_candidate", "false".into(), "USE-CANDIDATE".into()),
        0x0020 | 0x0012 | 0x0016 if len == 8 || len == 20 => {
            let want: SocketAddr = if len == 8 { "192.0.2.33:40000".parse().unwrap() } else { "[2001:db8:1::7]:40001".parse().unwrap() };
            let got = match typ {
                0x0020 => d.xor_mapped_address,
                0x0012 => d.xor_peer_address,
                _ => d.xor_relayed_address,
            };
            if got != Some(want) {
                return bad("xor-address", format!("{got:?}"), format!("{want}"));
            }
        }
        0x0008 if len == 20 => {
            let off = 20 + list[..at].iter().map(|(_, v)| 4 + (v.len() + 3) / 4 * 4).sum::<usize>();
            if d.message_integrity.as_ref().map(|(o, h)| (*o, &h[..])) != Some((off, &xv[..])) {
                return bad("message_integrity", format!("{:?}", d.message_integrity.as_ref().map(|(o, _)| *o)), format!("offset {off}"));
            }
        }
        0x0006 | 0x0014 | 0x0015 | 0x0013 => {}
        0x000d | 0x0009 | 0x0025 | 0x0020 | 0x0012 | 0x0016 | 0x0008 => wellformed = false,
        _ => {}
    }
    if typ != 0x0008 {
        check_decoded_mi(&d, &m, &bytes, k)?;
    }
    Ok(format!("{}:{}", if RUSTRTC_TYPES.contains(&typ) { format!("{typ:#06x}") } else if typ >= 0x8000 { "optional-unknown".into() } else { "required-unknown".into() }, if wellformed { "decoded" } else { "odd-length-not-judged" }))
}

// ---- MESSAGE-INTEGRITY placement ------------------------------------------------------------

fn run_mi_place(cx: &Ctx, attrs: &[usize], mi_at: usize, key: usize, fp: bool, txid: usize) -> Result<String, Fail> {
    let inst = mi_instances();
    let tx = &DTX[txid % 8];
    let mc = (1, 2);
    let list: Vec<A> = attrs.iter().map(|i| inst[*i].clone()).collect();
    let mut m = ref_new(mc, tx);
    let k = cx.keys[key].as_ref();
    for (i, a) in list.iter().enumerate() {
        if i == mi_at {
            ref_finish(&mut m, k, false);
        }
        a.add_ref(&mut m, &cx.ad).unwrap_or_else(|e| vh::machinery_failure(&format!("reference setter failed: {e}")));
    }
    if mi_at >= list.len() {
        ref_finish(&mut m, k, false);
    }
    ref_finish(&mut m, None, fp);
    let bytes = m.raw.clone();
    // the reference itself must accept what it built (otherwise the harness is wrong)
    if let Some(k) = k {
        let mut chk = Message::new();
        chk.unmarshal_binary(&bytes).unwrap_or_else(|e| vh::machinery_failure(&format!("reference rejects its own message: {e}")));
        if let Err(e) = MessageIntegrity(k.clone()).check(&mut chk) {
            vh::machinery_failure(&format!("reference MI check fails on its own message: {e}"));
        }
    }
    let d = rust_decode(&bytes)?;
    check_header(&d, mc, tx)?;
    check_decoded_mi(&d, &m, &bytes, k)?;
    // attribute values: any occurrence of a kind is accepted; kinds present only behind
    // MESSAGE-INTEGRITY may also be ignored (RFC 5389 s15.4)
    fn chk<T: PartialEq + std::fmt::Debug>(field: &str, got: &Option<T>, before: Vec<T>, after: Vec<T>) -> Result<(), Fail> {
        let ok = match got {
            None => before.is_empty(),
            Some(g) => before.iter().chain(after.iter()).any(|w| w == g),
        };
        if ok { Ok(()) } else { Err((format!("field:{field}"), vh::truncate(&format!("{field}: decoded {got:?}, before MI {before:?}, after MI {after:?}"), 300))) }
    }
    let cut = mi_at.min(list.len());
    let (b, a) = list.split_at(cut);
    let sa = |l: &[A], f: &dyn Fn(&A) -> Option<SocketAddr>| l.iter().filter_map(|x| f(x)).collect::<Vec<_>>();
    let fm = |x: &A| if let A::XorMapped(i) = x { Some(cx.ad[*i]) } else { None };
    let fpe = |x: &A| if let A::XorPeer(i) = x { Some(cx.ad[*i]) } else { None };
    let fr = |x: &A| if let A::XorRelayed(i) = x { Some(cx.ad[*i]) } else { None };
    chk("xor_mapped_address", &d.xor_mapped_address, sa(b, &fm), sa(a, &fm))?;
    chk("xor_peer_address", &d.xor_peer_address, sa(b, &fpe), sa(a, &fpe))?;
    chk("xor_relayed_address", &d.xor_relayed_address, sa(b, &fr), sa(a, &fr))?;
    let st = |l: &[A], f: &dyn Fn(&A) -> Option<String>| l.iter().filter_map(|x| f(x)).collect::<Vec<_>>();
    let f_realm = |x: &A| if let A::Realm(n) = x { Some(text(*n, x.tag())) } else { None };
    let f_nonce = |x: &A| if let A::Nonce(n) = x { Some(text(*n, x.tag())) } else { None };
    let f_user = |x: &A| if let A::Username(n) = x { Some(text(*n, x.tag())) } else { None };
    chk("realm", &d.realm, st(b, &f_realm), st(a, &f_realm))?;
    chk("nonce", &d.nonce, st(b, &f_nonce), st(a, &f_nonce))?;
    chk("username", &d.username, st(b, &f_user), st(a, &f_user))?;
    let f_data = |l: &[A]| l.iter().filter_map(|x| if let A::Data(n) = x { Some(blob(*n)) } else { None }).collect::<Vec<_>>();
    chk("data", &d.data, f_data(b), f_data(a))?;
    let f_life = |l: &[A]| l.iter().filter_map(|x| if let A::Lifetime(v) = x { Some(*v) } else { None }).collect::<Vec<_>>();
    chk("lifetime", &d.lifetime, f_life(b), f_life(a))?;
    let f_err = |l: &[A]| l.iter().filter_map(|x| if let A::ErrorCode(c, _) = x { Some(*c) } else { None }).collect::<Vec<_>>();
    chk("error_code", &d.error_code, f_err(b), f_err(a))?;
    let (ub, ua) = (b.iter().any(|x| matches!(x, A::UseCandidate)), a.iter().any(|x| matches!(x, A::UseCandidate)));
    if d.use_candidate && !ub && !ua || !d.use_candidate && ub {
        return Err(("field:use_candidate".into(), format!("use_candidate decoded {}, before MI {ub}, after MI {ua}", d.use_candidate)));
    }
    Ok(format!("n={},mi_at={},trailing={}", list.len(), cut, list.len() - cut))
}

// ---- XOR addresses --------------------------------------------------------------------------

fn run_xor(cx: &Ctx, dir: u8, kind: u8, addr: SocketAddr, txid: usize, key: usize, fp: bool) -> Result<String, Fail> {
    let tx = &DTX[txid % 8];
    let mc = (0, 2);
    let k = cx.keys[key].as_ref();
    let typ = xor_typ(kind);
    let fam = if addr.is_ipv4() { "v4" } else { "v6" };
    if dir == 0 {
        let attr = if kind == 0 { StunAttribute::XorMappedAddress(addr) } else { StunAttribute::XorPeerAddress(addr) };
        let msg = StunMessage { class: CLASSES[mc.1].0, method: METHODS[mc.0].0, transaction_id: *tx, attributes: vec![attr] };
        let want = RawAttribute { typ, length: 0, value: xor_value(addr, tx) };
        let m = judge_encoded(&msg, mc, &[want], k, fp)?;
        let mut g = XorMappedAddress::default();
        g.get_from_as(&m, typ).map_err(|e| (format!("typed-getter:{typ}"), format!("reference getter failed: {e}")))?;
        if SocketAddr::new(g.ip, g.port) != addr {
            return Err((format!("typed-getter:{typ}"), format!("reference reads {}:{} for {addr}", g.ip, g.port)));
        }
        Ok(format!("enc:{typ}:{fam}"))
    } else {
        let mut m = ref_new(mc, tx);
        XorMappedAddress { ip: addr.ip(), port: addr.port() }.add_to_as(&mut m, typ).unwrap_or_else(|e| vh::machinery_failure(&format!("reference xor setter: {e}")));
        ref_finish(&mut m, k, fp);
        let bytes = m.raw.clone();
        let d = rust_decode(&bytes)?;
        check_header(&d, mc, tx)?;
        let got = [d.xor_mapped_address, d.xor_peer_address, d.xor_relayed_address];
        for (i, g) in got.iter().enumerate() {
            let want = if i == kind as usize % 3 { Some(addr) } else { None };
            if *g != want {
                return Err((format!("field:{}", ["xor_mapped_address", "xor_peer_address", "xor_relayed_address"][i]), format!("decoded {g:?}, the reference wrote {typ} = {addr} (transaction id {})", hex(tx))));
            }
        }
        check_decoded_mi(&d, &m, &bytes, k)?;
        Ok(format!("dec:{typ}:{fam}"))
    }
}

// ---- ERROR-CODE -----------------------------------------------------------------------------

fn run_err_code(cx: &Ctx, code: u16, reason: usize, key: usize, fp: bool, txid: usize) -> Result<String, Fail> {
    let tx = &DTX[txid % 8];
    let mc = (1, 3);
    let k = cx.keys[key].as_ref();
    let mut m = ref_new(mc, tx);
    A::Realm(5).add_ref(&mut m, &cx.ad).unwrap();
    ErrorCodeAttribute { code: ErrorCode(code), reason: text(reason, 5).into_bytes() }.add_to(&mut m).unwrap_or_else(|e| vh::machinery_failure(&format!("reference ERROR-CODE setter: {e}")));
    A::Nonce(4).add_ref(&mut m, &cx.ad).unwrap();
    ref_finish(&mut m, k, fp);
    let bytes = m.raw.clone();
    let d = rust_decode(&bytes)?;
    check_header(&d, mc, tx)?;
    if d.error_code != Some(code) {
        return Err(("field:error_code".into(), format!("decoded {:?}, the reference wrote class {} number {}", d.error_code, code / 100, code % 100)));
    }
    if d.realm.as_deref() != Some(&text(5, 7)[..]) || d.nonce.as_deref() != Some(&text(4, 13)[..]) {
        return Err(("field:neighbour".into(), format!("REALM / NONCE around ERROR-CODE decoded as {:?} / {:?}", d.realm, d.nonce)));
    }
    check_decoded_mi(&d, &m, &bytes, k)?;
    Ok(format!("class={},reason%4={}", code / 100, reason % 4))
}

// ---- scalar attributes ----------------------------------------------------------------------

fn run_scalar(cx: &Ctx, kind: u8, v: u64, key: usize, fp: bool, mc: (usize, usize)) -> Result<String, Fail> {
    let tx = &DTX[3];
    let k = cx.keys[key].as_ref();
    let a = match kind {
        0 => A::ChannelNumber(v as u16),
        1 => A::ReqTransport(v as u8),
        2 => A::Lifetime(v as u32),
        3 => A::Priority(v as u32),
        4 => A::Controlling(v),
        _ => A::Controlled(v),
    };
    // encode direction
    let msg = StunMessage { class: CLASSES[mc.1].0, method: METHODS[mc.0].0, transaction_id: *tx, attributes: vec![a.to_rustrtc(&cx.ad).unwrap()] };
    let mut s = ref_new(mc, tx);
    a.add_ref(&mut s, &cx.ad).unwrap_or_else(|e| vh::machinery_failure(&format!("reference setter failed: {e}")));
    let m = judge_encoded(&msg, mc, &s.attributes.0, k, fp)?;
    typed_getter_agrees(&m, &a, &cx.ad).map_err(|d| (format!("typed-getter:{}", a.kind()), d))?;
    // decode direction where rustrtc exposes the value
    if kind == 2 {
        ref_finish(&mut s, k, fp);
        let bytes = s.raw.clone();
        let d = rust_decode(&bytes)?;
        check_header(&d, mc, tx)?;
        if d.lifetime != Some(v as u32) {
            return Err(("field:lifetime".into(), format!("decoded {:?}, the reference wrote {v}", d.lifetime)));
        }
        check_decoded_mi(&d, &s, &bytes, k)?;
    }
    let range = match kind {
        0 => match v { 0..=0x3fff => "below-range", 0x4000..=0x7fff => "valid", _ => "reserved" },
        _ => if v == 0 { "0" } else if v.is_power_of_two() { "2^k" } else { "other" },
    };
    Ok(format!("{}:{range}", a.kind()))
}

// ---- text / DATA lengths --------------------------------------------------------------------

fn run_texts(cx: &Ctx, dir: u8, items: &[(u8, usize, u8)], key: usize, fp: bool) -> Result<String, Fail> {
    let tx = &DTX[4];
    let mc = if dir == 0 { (1, 0) } else { (1, 3) };
    let k = cx.keys[key].as_ref();
    let val = |&(kind, len, style): &(u8, usize, u8)| -> Vec<u8> {
        let (_, _, tag) = TEXT_KINDS[kind as usize % 5];
        if kind == 4 { blob(len) } else { styled(len, tag, style).into_bytes() }
    };
    let want: Vec<RawAttribute> = items.iter().map(|it| RawAttribute { typ: TEXT_KINDS[it.0 as usize % 5].1, length: 0, value: val(it) }).collect();
    if dir == 0 {
        let attrs: Vec<StunAttribute> = items
            .iter()
            .map(|it| {
                let v = val(it);
                let s = || String::from_utf8(v.clone()).unwrap();
                match it.0 % 5 {
                    0 => StunAttribute::Username(s()),
                    1 => StunAttribute::Realm(s()),
                    2 => StunAttribute::Nonce(s()),
                    3 => StunAttribute::Software(s()),
                    _ => StunAttribute::Data(v.clone()),
                }
            })
            .collect();
        let msg = StunMessage { class: CLASSES[mc.1].0, method: METHODS[mc.0].0, transaction_id: *tx, attributes: attrs };
        let m = judge_encoded(&msg, mc, &want, k, fp)?;
        // typed text getter of the first item
        let (kind, _, _) = items[0];
        if kind % 5 != 4 {
            let t = TextAttribute::get_from_as(&m, TEXT_KINDS[kind as usize % 5].1).map_err(|e| ("typed-getter:text".to_string(), format!("reference getter failed: {e}")))?;
            if t.text.as_bytes() != &want[0].value[..] {
                return Err(("typed-getter:text".into(), "reference reads a different text".into()));
            }
        }
    } else {
        let mut m = ref_new(mc, tx);
        for w in &want {
            m.add(w.typ, &w.value);
        }
        // a trailing probe shows the text was skipped with the right padding
        m.add(ATTR_LIFETIME, &777u32.to_be_bytes());
        ref_finish(&mut m, k, fp);
        let bytes = m.raw.clone();
        let d = rust_decode(&bytes)?;
        check_header(&d, mc, tx)?;
        if d.lifetime != Some(777) {
            return Err(("field:lifetime".into(), format!("LIFETIME behind the text attributes decoded as {:?}", d.lifetime)));
        }
        for (kind, name) in [(0u8, "username"), (1, "realm"), (2, "nonce")] {
            let wants: Vec<String> = items.iter().filter(|it| it.0 % 5 == kind).map(|it| String::from_utf8(val(it)).unwrap()).collect();
            let got = match kind {
                0 => &d.username,
                1 => &d.realm,
                _ => &d.nonce,
            };
            let ok = match got {
                None => wants.is_empty(),
                Some(g) => wants.iter().any(|w| w == g),
            };
            if !ok {
                return Err((format!("field:{name}"), format!("{name}: decoded {:?} bytes, the reference wrote {:?} bytes", got.as_ref().map(|s| s.len()), wants.iter().map(|w| w.len()).collect::<Vec<_>>())));
            }
        }
        let wants: Vec<Vec<u8>> = items.iter().filter(|it| it.0 % 5 == 4).map(val).collect();
        let ok = match &d.data {
            None => wants.is_empty(),
            Some(g) => wants.iter().any(|w| w == g),
        };
        if !ok {
            return Err(("field:data".into(), format!("data: decoded {:?} bytes, the reference wrote {:?}", d.data.as_ref().map(|s| s.len()), wants.iter().map(|w| w.len()).collect::<Vec<_>>())));
        }
        check_decoded_mi(&d, &m, &bytes, k)?;
    }
    Ok(format!("{}:{}:pad={}", ["enc", "dec"][dir as usize % 2], items.iter().map(|it| TEXT_KINDS[it.0 as usize % 5].0).collect::<Vec<_>>().join("+"), items.iter().map(|it| ((4 - it.1 % 4) % 4).to_string()).collect::<Vec<_>>().join("+")))
}

// ---------------------------------------------------------------------------------------
// streaming runner
// ---------------------------------------------------------------------------------------

#[derive(Default)]
pub struct DeepAcc {
    pub cases: u64,
    pub passed: u64,
    pub classes: BTreeMap<String, u64>,
    /// signature -> (rank, case json, detail, hits)
    pub fails: BTreeMap<String, (u64, Value, String, u64)>,
}

impl DeepAcc {
    fn fail(&mut self, sig: String, rank: u64, replay: impl FnOnce() -> Value, detail: String) {
        match self.fails.get_mut(&sig) {
            Some(e) => {
                e.3 += 1;
                if rank < e.0 {
                    e.0 = rank;
                    e.1 = replay();
                    e.2 = detail;
                }
            }
            None => {
                self.fails.insert(sig, (rank, replay(), detail, 1));
            }
        }
    }
    pub fn merge(mut self, o: DeepAcc) -> DeepAcc {
        self.cases += o.cases;
        self.passed += o.passed;
        for (k, v) in o.classes {
            *self.classes.entry(k).or_default() += v;
        }
        for (k, v) in o.fails {
            match self.fails.get_mut(&k) {
                Some(e) => {
                    let hits = e.3 + v.3;
                    if v.0 < e.0 {
                        *e = v;
                    }
                    e.3 = hits;
                }
                None => {
                    self.fails.insert(k, v);
                }
            }
        }
        self
    }
}

/// Signature of a failing deep STUN case: block, failure category, and the structural shape with
/// the enumerated magnitudes bucketed (so that one defect gives one signature).
fn stun_signature(d: &D, cat: &str) -> String {
    let shape = match d {
        D::AttrLen { typ, len, pos, .. } => format!("type={typ:#06x};len%4={};pos={pos}", len % 4),
        D::MiPlace { attrs, mi_at, .. } => format!("n={};trailing={}", attrs.len(), attrs.len().saturating_sub(*mi_at)),
        D::Xor { .. } => d.shape().rsplit_once(";port=").map(|(a, _)| a.to_string()).unwrap_or_default(),
        D::ErrCode { code, .. } => format!("class={}", code / 100),
        D::Scalar { .. } => d.shape().split(';').next().unwrap_or("").to_string(),
        D::Text { dir, kind, len, .. } => format!("dir={};attr={};len%4={}", ["encode", "decode"][*dir as usize % 2], TEXT_KINDS[*kind as usize % 5].0, len % 4),
        D::TextPair { dir, k1, l1, k2, l2, .. } => format!("dir={};attrs={}+{};len%4={}+{}", ["encode", "decode"][*dir as usize % 2], TEXT_KINDS[*k1 as usize % 5].0, TEXT_KINDS[*k2 as usize % 5].0, l1 % 4, l2 % 4),
    };
    format!("{}.{};fail={cat};{shape}", d.block(), match d { D::AttrLen { .. } | D::MiPlace { .. } | D::ErrCode { .. } => "decode", _ => "both" })
}

pub fn run_stun_block<F>(rep: &mut vh::Report, cx: &Ctx, name: &str, space: &str, n: u64, generate: F) -> DeepAcc
where
    F: Fn(u64) -> Option<D> + Sync,
{
    let t0 = std::time::Instant::now();
    let acc = (0..n)
        .into_par_iter()
        .fold(DeepAcc::default, |mut a, i| {
            if let Some(d) = generate(i) {
                a.cases += 1;
                match d.run(cx) {
                    Ok(class) => {
                        a.passed += 1;
                        *a.classes.entry(class).or_default() += 1;
                    }
                    Err((cat, detail)) => {
                        let sig = stun_signature(&d, &cat);
                        let shape = d.shape();
                        a.fail(sig, i, || json!({"part": "deep", "case": serde_json::to_value(&d).unwrap()}), format!("{detail} | minimal case: {shape}"));
                    }
                }
            }
            a
        })
        .reduce(DeepAcc::default, DeepAcc::merge);
    finish_block(rep, name, space, n, &acc, t0.elapsed().as_secs_f64());
    acc
}

pub fn finish_block(rep: &mut vh::Report, name: &str, space: &str, index_space: u64, acc: &DeepAcc, wall: f64) {
    if acc.cases == 0 || (acc.passed == 0 && acc.fails.is_empty()) {
        vh::machinery_failure(&format!("deep block {name} is vacuous"));
    }
    for (sig, (_rank, replay, detail, hits)) in &acc.fails {
        rep.violation(Violation { signature: sig.clone(), detail: format!("{detail} ({hits} failing cases with this signature in block {name})"), replay: replay.clone() });
    }
    let mut blocks = rep.coverage.get("deep_blocks").and_then(|v| v.as_array().cloned()).unwrap_or_default();
    blocks.push(json!({"block": name, "space": space, "index_space": index_space, "cases": acc.cases, "passed": acc.passed,
        "distinct_classes": acc.classes.len(), "violating_signatures": acc.fails.len(), "wall_s": wall, "exhaustive": true}));
    rep.set("deep_blocks", Value::Array(blocks));
    rep.add("evaluations", acc.cases);
    rep.add("deep_cases", acc.cases);
    rep.add("deep_distinct_classes", acc.classes.len() as u64);
}

pub fn replay_deep(cx: &Ctx, v: &Value) -> Result<String, Fail> {
    let d: D = serde_json::from_value(v["case"].clone()).unwrap_or_else(|e| vh::machinery_failure(&format!("bad deep replay: {e}")));
    println!("deep case {d:?} ({})", d.shape());
    d.run(cx)
}

// ---------------------------------------------------------------------------------------
// the STUN blocks
// ---------------------------------------------------------------------------------------

struct Ix(u64);
impl Ix {
    fn take(&mut self, n: u64) -> u64 {
        let r = self.0 % n;
        self.0 /= n;
        r
    }
    fn pick<T: Copy>(&mut self, v: &[T]) -> T {
        v[self.take(v.len() as u64) as usize]
    }
}

pub fn stun_blocks(rep: &mut vh::Report, cx: &Ctx) {
    // (1) attribute type x value length
    let text_like = |t: u16| matches!(t, 0x0006 | 0x0014 | 0x0015 | 0x8022 | 0x0013 | 0x8023 | 0xc001 | 0x0009);
    let mut tl: Vec<(u16, usize)> = vec![];
    for t in LEN_TYPES {
        for len in 0..=(if text_like(t) { 767 } else { 44 }) {
            tl.push((t, len));
        }
    }
    let ntl = tl.len() as u64;
    run_stun_block(rep, cx, "stun_attr_len_known", "28 attribute types (the 18 rustrtc names + 10 standard/unknown) x every value length 0..=44 (text-like, DATA, ERROR-CODE: 0..=767) x position {first, middle, last} among 4 probe attributes x 3 keys x fingerprint x 3 transaction ids x 2 method/class", ntl * 3 * 3 * 2 * 3 * 2, |i| {
        let mut x = Ix(i);
        let (typ, len) = tl[x.take(ntl) as usize];
        Some(D::AttrLen { typ, len, pos: x.take(3) as u8, key: x.take(3) as usize, fp: x.take(2) == 1, txid: x.pick(&[2usize, 3, 6]), mc: x.pick(&[1usize, 2]) })
    });
    run_stun_block(rep, cx, "stun_attr_type_all", "all 65536 attribute types x value length {0,1,2,3,4,5,7,8,19,20,21} x position {first, middle, last} x key {none, short-term} x fingerprint", 65536 * 11 * 3 * 2 * 2, |i| {
        let mut x = Ix(i);
        let typ = x.take(65536) as u16;
        let len = x.pick(&[0usize, 1, 2, 3, 4, 5, 7, 8, 19, 20, 21]);
        Some(D::AttrLen { typ, len, pos: x.take(3) as u8, key: x.take(2) as usize, fp: x.take(2) == 1, txid: 4, mc: 1 })
    });
    // (2) MESSAGE-INTEGRITY placement
    let ni = mi_instances().len() as u64;
    let nseq = 1 + ni + ni * ni + ni * ni * ni;
    run_stun_block(rep, cx, "stun_mi_placement", "every sequence of <=3 of 15 reference-built attribute instances x MESSAGE-INTEGRITY before every position (attributes may follow it) x {short-term, long-term} x fingerprint x 3 transaction ids", nseq * 4 * 2 * 2 * 3, |i| {
        let mut x = Ix(i);
        let mut s = x.take(nseq);
        let attrs: Vec<usize> = if s == 0 {
            vec![]
        } else if s <= ni {
            vec![(s - 1) as usize]
        } else if s <= ni + ni * ni {
            s -= 1 + ni;
            vec![(s / ni) as usize, (s % ni) as usize]
        } else {
            s -= 1 + ni + ni * ni;
            vec![(s / ni / ni) as usize, (s / ni % ni) as usize, (s % ni) as usize]
        };
        let mi_at = x.take(4) as usize;
        if mi_at > attrs.len() {
            return None;
        }
        Some(D::MiPlace { attrs, mi_at, key: 1 + x.take(2) as usize, fp: x.take(2) == 1, txid: x.pick(&[2usize, 4, 7]) })
    });
    // (3) XOR addresses
    let na = n_addr();
    run_stun_block(rep, cx, "stun_xor_addr_lattice", "XOR-MAPPED / XOR-PEER (both directions) and XOR-RELAYED (decode) x 15492 addresses (IPv4: every octet over 10 edge values; IPv6: every 32-bit word over 6 edge values, a walking byte over 16 positions x 256 values, 100 IPv4-mapped) x 12 ports x 8 transaction ids x key {none, short-term} x fingerprint", na * 12 * 8 * 5 * 2 * 2, |i| {
        let mut x = Ix(i);
        let addr = x.take(na);
        let port = x.pick(&PORTS);
        let txid = x.take(8) as usize;
        let (dir, kind) = x.pick(&[(0u8, 0u8), (0, 1), (1, 0), (1, 1), (1, 2)]);
        Some(D::Xor { dir, kind, addr, port, txid, key: x.take(2) as usize, fp: x.take(2) == 1 })
    });
    // (4) ERROR-CODE
    run_stun_block(rep, cx, "stun_error_code_full", "ERROR-CODE class 0..=7 x number 0..=99 x reason length {0..=8, 127, 128, 763} x 3 keys x fingerprint x 2 transaction ids", 800 * 12 * 3 * 2 * 2, |i| {
        let mut x = Ix(i);
        let code = x.take(800) as u16;
        let reason = x.pick(&[0usize, 1, 2, 3, 4, 5, 6, 7, 8, 127, 128, 763]);
        Some(D::ErrCode { code, reason, key: x.take(3) as usize, fp: x.take(2) == 1, txid: x.pick(&[2usize, 5]) })
    });
    // (5) scalar attributes
    let l64 = lattice64();
    let l32 = lattice32();
    let mut sc: Vec<(u8, u64)> = (0..=65535u64).map(|v| (0u8, v)).collect();
    sc.extend((0..=255u64).map(|v| (1u8, v)));
    sc.extend(l32.iter().map(|v| (2u8, *v as u64)));
    sc.extend(l32.iter().map(|v| (3u8, *v as u64)));
    sc.extend(l64.iter().map(|v| (4u8, *v)));
    sc.extend(l64.iter().map(|v| (5u8, *v)));
    let nsc = sc.len() as u64;
    run_stun_block(rep, cx, "stun_scalar_full", "CHANNEL-NUMBER 0..=65535 (incl. the reserved ranges), REQUESTED-TRANSPORT 0..=255, LIFETIME and PRIORITY over every 2^k and 2^k+-1, ICE-CONTROLLING / ICE-CONTROLLED over every 2^k and 2^k+-1 (64 bit) x 3 keys x fingerprint x 4 method/class", nsc * 3 * 2 * 4, |i| {
        let mut x = Ix(i);
        let (kind, v) = sc[x.take(nsc) as usize];
        Some(D::Scalar { kind, v, key: x.take(3) as usize, fp: x.take(2) == 1, mc: x.take(4) as usize })
    });
    // (6) text / DATA lengths
    run_stun_block(rep, cx, "stun_text_len_full", "USERNAME, REALM, NONCE, SOFTWARE (length 0..=763) and DATA (0..=1500) x 3 UTF-8 styles x both directions x 3 keys x fingerprint", 5 * 1501 * 3 * 2 * 3 * 2, |i| {
        let mut x = Ix(i);
        let kind = x.take(5) as u8;
        let len = x.take(1501) as usize;
        let style = x.take(3) as u8;
        if kind != 4 && len > 763 || kind == 4 && style != 0 {
            return None;
        }
        Some(D::Text { dir: x.take(2) as u8, kind, len, style, key: x.take(3) as usize, fp: x.take(2) == 1 })
    });
    let pl: Vec<usize> = (0..=16).chain([127, 128, 255, 256, 511, 512, 513, 762, 763]).collect();
    let npl = pl.len() as u64;
    run_stun_block(rep, cx, "stun_text_pairs", "every ordered pair of {USERNAME, REALM, NONCE, SOFTWARE, DATA} x both lengths over {0..=16, 127, 128, 255, 256, 511, 512, 513, 762, 763} x both directions x 3 keys x fingerprint", 25 * npl * npl * 2 * 3 * 2, |i| {
        let mut x = Ix(i);
        let (k1, k2) = (x.take(5) as u8, x.take(5) as u8);
        let (l1, l2) = (x.pick(&pl), x.pick(&pl));
        Some(D::TextPair { dir: x.take(2) as u8, k1, l1, k2, l2, key: x.take(3) as usize, fp: x.take(2) == 1 })
    });
}

// ---------------------------------------------------------------------------------------
// original sweep machinery over larger domains
// ---------------------------------------------------------------------------------------

/// Forward instances for the large ordered-pair sweep: the original 69 plus every text / DATA
/// length 0..=20 and further boundary lengths, the extended address list, more scalars.
pub fn fwd_instances_ext() -> Vec<A> {
    let mut v = fwd_instances();
    let extra_lens: Vec<usize> = (0..=20).chain([126, 128, 255, 256, 511, 512, 762]).collect();
    for &n in &extra_lens {
        for a in [A::Software(n), A::Realm(n), A::Nonce(n), A::Username(n)] {
            if !v.contains(&a) {
                v.push(a);
            }
        }
        if !v.contains(&A::Data(n)) {
            v.push(A::Data(n));
        }
    }
    for n in [1198usize, 1200, 1400, 1500] {
        v.push(A::Data(n));
    }
    for i in 6..addrs_ext().len() {
        v.push(A::XorMapped(i));
        v.push(A::XorPeer(i));
    }
    for x in [0x3fffu16, 0x4001, 0x8000] {
        v.push(A::ChannelNumber(x));
    }
    for x in [1u32, 3600] {
        v.push(A::Lifetime(x));
    }
    v
}

pub fn rev_instances_ext() -> Vec<A> {
    let mut v = rev_instances();
    let extra_lens: Vec<usize> = (0..=20).chain([126, 128, 255, 256, 511, 512, 762]).collect();
    for &n in &extra_lens {
        for a in [A::Realm(n), A::Nonce(n), A::Username(n), A::Data(n)] {
            if !v.contains(&a) {
                v.push(a);
            }
        }
    }
    for n in [1198usize, 1200, 1400, 1500] {
        v.push(A::Data(n));
    }
    for i in 6..addrs_ext().len() {
        v.push(A::XorMapped(i));
        v.push(A::XorPeer(i));
        v.push(A::XorRelayed(i));
    }
    for c in [0u16, 99, 100, 400, 420, 437, 487, 500, 508, 700, 799] {
        v.push(A::ErrorCode(c, 3));
    }
    for x in [1u32, 3600] {
        v.push(A::Lifetime(x));
    }
    v
}

/// The four orders of a size-3 multiset that the original sweep (canonical + reversed) leaves out.
pub fn sweep_stun_other_orders(cx: &Ctx, dir: &'static str, inst: &[A]) -> (Sweep, u64) {
    let ms: Vec<Vec<usize>> = multisets(inst.len(), 3).into_iter().filter(|m| m.len() == 3).collect();
    let inner = inner_product();
    let n_inner = inner.len() as u64;
    let orders: [[usize; 3]; 4] = [[0, 2, 1], [1, 0, 2], [1, 2, 0], [2, 0, 1]];
    let seqs_of = |idxs: &Vec<usize>| -> Vec<Vec<usize>> {
        let canon = idxs.clone();
        let rev: Vec<usize> = idxs.iter().rev().copied().collect();
        let mut out: Vec<Vec<usize>> = vec![];
        for o in orders {
            let s: Vec<usize> = o.iter().map(|k| idxs[*k]).collect();
            if s != canon && s != rev && !out.contains(&s) {
                out.push(s);
            }
        }
        out
    };
    let total: u64 = ms.iter().map(|m| seqs_of(m).len() as u64 * n_inner).sum();
    let sw = ms
        .par_iter()
        .enumerate()
        .map(|(mi, idxs)| {
            let mut s = Sweep::default();
            for (oi, seq) in seqs_of(idxs).into_iter().enumerate() {
                let attrs: Vec<A> = seq.iter().map(|i| inst[*i].clone()).collect();
                let pre = Pre::new(cx, &attrs, dir == "encode");
                for (ii, (method, class, key, fp, txid)) in inner.iter().enumerate() {
                    let c = Case { dir, method: *method, class: *class, attrs: attrs.clone(), key: *key, fp: *fp, txid: *txid };
                    s.evaluations += 1;
                    let r = if dir == "encode" { run_encode_case_pre(cx, &c, &pre) } else { run_decode_case_pre(cx, &c, &pre) };
                    match r {
                        Ok(bytes) => {
                            s.passed += 1;
                            let mut k: Vec<u8> = vec![*key as u8, *fp as u8];
                            k.extend_from_slice(&(bytes.len() as u32).to_be_bytes());
                            for a in &attrs {
                                k.extend_from_slice(&a.typ().0.to_be_bytes());
                            }
                            s.classes.insert(vh::fnv1a(&k));
                        }
                        Err((cat, detail)) => {
                            let rank = (mi as u64 * 4 + oi as u64) * n_inner + ii as u64;
                            let e = s.fails.entry(cat).or_insert((rank, c.clone(), detail.clone(), 0));
                            e.3 += 1;
                            if rank < e.0 {
                                *e = (rank, c, detail, e.3);
                            }
                        }
                    }
                }
            }
            s
        })
        .reduce(Sweep::default, Sweep::merge);
    (sw, total)
}

// ---------------------------------------------------------------------------------------
// candidates
// ---------------------------------------------------------------------------------------

const FOUNDATIONS: [&str; 6] = ["1", "0", "842163049", "a+b/c", "ZZZZZZZZZZZZZZZZZZZZZZZZZZZZZZZZ", "9f8e7d6c5b4a3921"];
const LINE_TRANSPORTS: [&str; 5] = ["udp", "UDP", "tcp", "TCP", "Tcp"];
const LINE_ADDRS: [&str; 4] = ["192.0.2.1", "2001:db8::1", "2001:DB8:0:0:0:0:0:1", "::ffff:192.0.2.1"];
const LINE_RADDRS: [Option<(&str, u16)>; 3] = [None, Some(("10.0.0.1", 5000)), Some(("fd00::2", 65535))];
const EXT_TOKENS: [&str; 5] = ["tcptype", "generation 0", "ufrag aB+/", "network-cost 10", "foo bar"];
const TT: [&str; 3] = ["active", "passive", "so"];
const PRIO_LINE: [u32; 4] = [1, 2_130_706_431, 2_147_483_647, 4_294_967_295];

/// Ordered arrangements of <=3 of the 5 extension tokens: 1 + 5 + 20 + 60 = 86.
fn ext_arrangements() -> Vec<Vec<usize>> {
    let mut out = vec![vec![]];
    for a in 0..5 {
        out.push(vec![a]);
    }
    for a in 0..5 {
        for b in 0..5 {
            if a != b {
                out.push(vec![a, b]);
            }
        }
    }
    for a in 0..5 {
        for b in 0..5 {
            for c in 0..5 {
                if a != b && a != c && b != c {
                    out.push(vec![a, b, c]);
                }
            }
        }
    }
    out
}

#[derive(Clone, Debug, Serialize, Deserialize)]
pub enum DC {
    /// a foreign candidate line over the RFC 8839 grammar
    Line { found: usize, comp: u16, transport: usize, prio: usize, addr: usize, port: u16, typ: usize, raddr: usize, exts: Vec<usize>, tt: usize, tcptype_first: bool, prefix: bool },
    /// a candidate assembled from public fields through to_sdp -> from_sdp
    Tuple { typ: usize, trans: usize, comp: u16, addr: u64, port: u16, rel: Option<(u64, u16)>, prio: u32, found: usize, prefix: bool },
}

fn cmp_candidate(back: &IceCandidate, c: &IceCandidate) -> Vec<&'static str> {
    let mut diffs = vec![];
    if back.foundation != c.foundation { diffs.push("foundation"); }
    if back.priority != c.priority { diffs.push("priority"); }
    if back.address != c.address { diffs.push("address"); }
    if back.typ != c.typ { diffs.push("typ"); }
    if !back.transport.eq_ignore_ascii_case(&c.transport) { diffs.push("transport"); }
    if back.tcp_type != c.tcp_type { diffs.push("tcptype"); }
    if back.component != c.component { diffs.push("component"); }
    if back.related_address != c.related_address { diffs.push("raddr"); }
    diffs
}

impl DC {
    pub fn run(&self) -> Result<String, Fail> {
        match self {
            DC::Line { found, comp, transport, prio, addr, port, typ, raddr, exts, tt, tcptype_first, prefix } => {
                let tcp = LINE_TRANSPORTS[*transport].eq_ignore_ascii_case("tcp");
                let mut line = format!("{} {} {} {} {} {} typ {}", FOUNDATIONS[*found], comp, LINE_TRANSPORTS[*transport], PRIO_LINE[*prio], LINE_ADDRS[*addr], port, TYPES[*typ].1);
                let rel = LINE_RADDRS[*raddr];
                let ext_str = |i: &usize| if *i == 0 { format!(" tcptype {}", TT[*tt]) } else { format!(" {}", EXT_TOKENS[*i]) };
                let rel_str = rel.map(|(ip, p)| format!(" raddr {ip} rport {p}")).unwrap_or_default();
                if *tcptype_first {
                    // the order rustrtc itself prints: tcptype before raddr/rport
                    line.push_str(&exts.iter().filter(|i| **i == 0).map(ext_str).collect::<String>());
                    line.push_str(&rel_str);
                    line.push_str(&exts.iter().filter(|i| **i != 0).map(ext_str).collect::<String>());
                } else {
                    line.push_str(&rel_str);
                    line.push_str(&exts.iter().map(ext_str).collect::<String>());
                }
                let want = IceCandidate {
                    foundation: FOUNDATIONS[*found].to_string(),
                    priority: PRIO_LINE[*prio],
                    address: SocketAddr::new(LINE_ADDRS[*addr].parse().unwrap(), *port),
                    typ: TYPES[*typ].0,
                    transport: LINE_TRANSPORTS[*transport].to_ascii_lowercase(),
                    tcp_type: if tcp && exts.contains(&0) { TCPTYPES[1 + *tt].0 } else { None },
                    related_address: rel.map(|(ip, p)| SocketAddr::new(ip.parse().unwrap(), p)),
                    component: *comp,
                };
                let fed = if *prefix { format!("candidate:{line}") } else { line.clone() };
                let back = match vh::catch(|| IceCandidate::from_sdp(&fed)) {
                    Err(p) => return Err(("panic".into(), format!("from_sdp panicked on '{fed}': {p}"))),
                    Ok(Err(e)) => return Err(("parse-error".into(), format!("from_sdp rejects the grammar-conformant line '{fed}': {e}"))),
                    Ok(Ok(b)) => b,
                };
                let diffs = cmp_candidate(&back, &want);
                if !diffs.is_empty() {
                    return Err((format!("field-lost:{}", diffs.join("+")), format!("'{fed}' parsed as {back:?}")));
                }
                // print -> parse is stable
                let l2 = match vh::catch(std::panic::AssertUnwindSafe(|| back.to_sdp())) {
                    Ok(l) => l,
                    Err(p) => return Err(("panic".into(), format!("to_sdp panicked: {p}"))),
                };
                match vh::catch(|| IceCandidate::from_sdp(&l2)) {
                    Ok(Ok(b2)) if b2 == back => {}
                    other => return Err(("reprint-unstable".into(), format!("'{fed}' -> '{l2}' -> {other:?}"))),
                }
                Ok(format!("line:{}:{}:ext{}:raddr{}", if tcp { "tcp" } else { "udp" }, TYPES[*typ].1, exts.len(), rel.is_some() as u8))
            }
            DC::Tuple { typ, trans, comp, addr, port, rel, prio, found, prefix } => {
                let (transport, tcp_type) = match trans {
                    0 => ("udp", None),
                    1 => ("tcp", None),
                    2 => ("tcp", Some(TcpType::Active)),
                    3 => ("tcp", Some(TcpType::Passive)),
                    _ => ("tcp", Some(TcpType::So)),
                };
                let c = IceCandidate {
                    foundation: FOUNDATIONS[*found].to_string(),
                    priority: *prio,
                    address: SocketAddr::new(addr_at(*addr), *port),
                    typ: TYPES[*typ].0,
                    transport: transport.into(),
                    tcp_type,
                    related_address: if *typ == 0 { None } else { rel.map(|(a, p)| SocketAddr::new(addr_at(a), p)) },
                    component: *comp,
                };
                let line = match vh::catch(std::panic::AssertUnwindSafe(|| c.to_sdp())) {
                    Ok(l) => l,
                    Err(p) => return Err(("panic".into(), format!("to_sdp panicked: {p}"))),
                };
                let fed = if *prefix { format!("candidate:{line}") } else { line.clone() };
                let back = match vh::catch(|| IceCandidate::from_sdp(&fed)) {
                    Err(p) => return Err(("panic".into(), format!("from_sdp panicked: {p}"))),
                    Ok(Err(e)) => return Err(("reparse-error".into(), format!("from_sdp rejects own line '{line}': {e}"))),
                    Ok(Ok(b)) => b,
                };
                let diffs = cmp_candidate(&back, &c);
                if !diffs.is_empty() {
                    return Err((format!("field-lost:{}", diffs.join("+")), format!("'{line}' parsed back as {back:?}")));
                }
                if back.to_sdp() != line {
                    return Err(("line-changed".into(), format!("'{line}' re-printed as '{}'", back.to_sdp())));
                }
                Ok(format!("tuple:{}:{}:{}:rel{}", TYPES[*typ].1, transport, if c.address.is_ipv4() { "v4" } else { "v6" }, c.related_address.is_some() as u8))
            }
        }
    }
    fn types(&self) -> &'static str {
        match self {
            DC::Line { typ, .. } | DC::Tuple { typ, .. } => TYPES[*typ].1,
        }
    }
}

pub fn replay_cand(v: &Value) -> Result<String, Fail> {
    let d: DC = serde_json::from_value(v["case"].clone()).unwrap_or_else(|e| vh::machinery_failure(&format!("bad deep candidate replay: {e}")));
    println!("deep candidate case {d:?}");
    d.run()
}

fn run_cand_block<F>(rep: &mut vh::Report, name: &str, space: &str, n: u64, generate: F)
where
    F: Fn(u64) -> Option<DC> + Sync,
{
    let t0 = std::time::Instant::now();
    let acc = (0..n)
        .into_par_iter()
        .fold(DeepAcc::default, |mut a, i| {
            if let Some(d) = generate(i) {
                a.cases += 1;
                match d.run() {
                    Ok(class) => {
                        a.passed += 1;
                        *a.classes.entry(class).or_default() += 1;
                    }
                    Err((cat, detail)) => {
                        let which = if matches!(d, DC::Line { .. }) { "candidate.sdp-line" } else { "candidate.sdp-roundtrip" };
                        let sig = format!("{which};fail={cat};types={}", d.types());
                        a.fail(sig, i, || json!({"part": "deep-candidate", "case": serde_json::to_value(&d).unwrap()}), format!("{detail} | minimal case {d:?}"));
                    }
                }
            }
            a
        })
        .reduce(DeepAcc::default, DeepAcc::merge);
    finish_block(rep, name, space, n, &acc, t0.elapsed().as_secs_f64());
}

pub fn candidate_blocks(rep: &mut vh::Report) {
    let arr = ext_arrangements();
    let na = arr.len() as u64;
    run_cand_block(rep, "cand_line_grammar", "RFC 8839 candidate lines: 6 foundations x component {1,2,256} x transport {udp,UDP,tcp,TCP,Tcp} x 4 priorities x 4 address spellings x port {0,9,65535} x 4 types x raddr/rport {absent, IPv4, IPv6} x every ordered arrangement of <=3 of 5 extension tokens (tcptype x 3 values, generation, ufrag, network-cost, unknown) x {grammar order, rustrtc's own tcptype-first order} x {bare, candidate: prefix}", 6 * 3 * 5 * 4 * 4 * 3 * 4 * 3 * na * 3 * 2 * 2, |i| {
        let mut x = Ix(i);
        let found = x.take(6) as usize;
        let comp = x.pick(&[1u16, 2, 256]);
        let transport = x.take(5) as usize;
        let prio = x.take(4) as usize;
        let addr = x.take(4) as usize;
        let port = x.pick(&[9u16, 0, 65535]);
        let typ = x.take(4) as usize;
        let raddr = x.take(3) as usize;
        let exts = arr[x.take(na) as usize].clone();
        let tt = x.take(3) as usize;
        let tcptype_first = x.take(2) == 1;
        let prefix = x.take(2) == 1;
        let tcp = transport >= 2;
        let has_tt = exts.contains(&0);
        // tcptype exists only on tcp candidates; host lines carry no raddr; the tcptype value and the
        // alternative order only matter when tcptype is present
        if (has_tt && !tcp) || (typ == 0 && raddr != 0) || (!has_tt && (tt != 0 || tcptype_first)) || (tcptype_first && raddr == 0) {
            return None;
        }
        Some(DC::Line { found, comp, transport, prio, addr, port, typ, raddr, exts, tt, tcptype_first, prefix })
    });
    let comps: Vec<u16> = (1..=256u16).chain([0, 257, 65535]).collect();
    let nc = comps.len() as u64;
    run_cand_block(rep, "cand_component_full", "to_sdp -> from_sdp: component 1..=256 and {0,257,65535} x 4 types x {udp, tcp x tcptype none/active/passive/so} x 8 addresses x related {absent, present} x 2 priorities x prefix", nc * 4 * 5 * 8 * 2 * 2 * 2, |i| {
        let mut x = Ix(i);
        let comp = comps[x.take(nc) as usize];
        let typ = x.take(4) as usize;
        let trans = x.take(5) as usize;
        let addr = x.pick(&[1u64, 5555, 9999, 10_001, 11_295, 11_300, 15_000, 15_400]);
        let rel = if x.take(2) == 1 { Some(((addr * 7 + 13) % n_addr(), 4242u16)) } else { None };
        let prio = x.pick(&[2_130_706_431u32, 16_777_215]);
        let prefix = x.take(2) == 1;
        if typ == 0 && rel.is_some() {
            return None;
        }
        Some(DC::Tuple { typ, trans, comp, addr, port: 9, rel, prio, found: 5, prefix })
    });
    let na2 = n_addr();
    run_cand_block(rep, "cand_addr_lattice", "to_sdp -> from_sdp: 15492 addresses (the XOR lattice: IPv4 octet edges, IPv6 word edges, walking byte, IPv4-mapped) x 12 ports x 4 types x {udp, tcp passive} x related address {absent, another lattice address of either family}", na2 * 12 * 4 * 2 * 2, |i| {
        let mut x = Ix(i);
        let addr = x.take(na2);
        let port = x.pick(&PORTS);
        let typ = x.take(4) as usize;
        let trans = x.pick(&[0usize, 3]);
        let rel = if x.take(2) == 1 { Some(((addr * 31 + 977) % na2, port.wrapping_add(1))) } else { None };
        if typ == 0 && rel.is_some() {
            return None;
        }
        Some(DC::Tuple { typ, trans, comp: 1, addr, port, rel, prio: 1_694_498_815, found: 2, prefix: false })
    });
    let l32 = lattice32();
    let nl = l32.len() as u64;
    run_cand_block(rep, "cand_priority_foundation", "to_sdp -> from_sdp: priority over every 2^k and 2^k+-1 x 6 foundation spellings x 4 types x 5 transports x prefix", nl * 6 * 4 * 5 * 2, |i| {
        let mut x = Ix(i);
        let prio = l32[x.take(nl) as usize];
        let found = x.take(6) as usize;
        let typ = x.take(4) as usize;
        let trans = x.take(5) as usize;
        let prefix = x.take(2) == 1;
        Some(DC::Tuple { typ, trans, comp: 1, addr: 4321, port: 50000, rel: None, prio, found, prefix })
    });
}

// ---------------------------------------------------------------------------------------
// candidate priorities of the public constructors; pair priorities over a large lattice
// ---------------------------------------------------------------------------------------

pub fn ctor_priority_block(rep: &mut vh::Report) {
    let t0 = std::time::Instant::now();
    // (constructor, family)
    let series: Vec<(usize, bool)> = (0..8).flat_map(|c| [(c, false), (c, true)]).collect();
    let names = ["host", "host_tcp(active)", "host_tcp(passive)", "host_tcp(so)", "tcp(\"active\")", "tcp(\"passive\")", "tcp(\"so\")", "tcp(\"bogus\")"];
    let results: Vec<(u64, u64, Vec<(String, Value, String)>)> = series
        .par_iter()
        .map(|&(ctor, v6)| {
            let a: SocketAddr = if v6 { "[2001:db8::1]:9".parse().unwrap() } else { "192.0.2.1:9".parse().unwrap() };
            let mk = |comp: u16| -> Result<IceCandidate, String> {
                vh::catch(move || match ctor {
                    0 => IceCandidate::host(a, comp),
                    1 => IceCandidate::host_tcp(a, comp, TcpType::Active),
                    2 => IceCandidate::host_tcp(a, comp, TcpType::Passive),
                    3 => IceCandidate::host_tcp(a, comp, TcpType::So),
                    4 => IceCandidate::tcp(a, comp, "active"),
                    5 => IceCandidate::tcp(a, comp, "passive"),
                    6 => IceCandidate::tcp(a, comp, "so"),
                    _ => IceCandidate::tcp(a, comp, "bogus"),
                })
            };
            let mut fails = vec![];
            let mut prev: Option<u32> = None;
            let mut formula_ok = 0u64;
            let mut n = 0u64;
            for comp in 0..=65535u16 {
                n += 1;
                let rp = json!({"part": "deep-ctor", "ctor": ctor, "v6": v6, "component": comp});
                let c = match mk(comp) {
                    Ok(c) => c,
                    Err(p) => {
                        // component ids outside 1..=256 are outside RFC 8445; a panic is still reported
                        fails.push((format!("candidate.ctor;fail=panic;ctor={}", names[ctor]), rp, format!("{}({a}, {comp}) panicked: {p}", names[ctor])));
                        break;
                    }
                };
                if (1..=256).contains(&comp) {
                    // RFC 8445 s5.1.2: priority is between 1 and 2^31 - 1, and differs between components
                    if !(1..=0x7fff_ffffu32).contains(&c.priority) {
                        fails.push((format!("candidate.ctor;fail=priority-out-of-range;ctor={}", names[ctor]), rp.clone(), format!("{}: component {comp} has priority {}", names[ctor], c.priority)));
                    }
                    if let Some(p) = prev
                        && c.priority >= p
                    {
                        fails.push((format!("candidate.ctor;fail=priority-not-decreasing-in-component;ctor={}", names[ctor]), rp.clone(), format!("{}: component {} has priority {p}, component {comp} has {}", names[ctor], comp - 1, c.priority)));
                    }
                    prev = Some(c.priority);
                    let tt = match ctor { 0 => None, 1 | 4 => Some(TcpType::Active), 3 | 6 => Some(TcpType::So), _ => Some(TcpType::Passive) };
                    if c.priority == formula_priority(126, tt, comp) {
                        formula_ok += 1;
                    }
                }
                // the constructed candidate survives the SDP round trip
                match vh::catch(std::panic::AssertUnwindSafe(|| IceCandidate::from_sdp(&c.to_sdp()))) {
                    Ok(Ok(b)) if b == c => {}
                    other => fails.push((format!("candidate.ctor;fail=sdp-roundtrip;ctor={}", names[ctor]), rp, format!("{}({a}, {comp}) = {c:?} -> '{}' -> {other:?}", names[ctor], c.to_sdp()))),
                }
                if fails.len() > 8 {
                    break;
                }
            }
            (n, formula_ok, fails)
        })
        .collect();
    let mut acc = DeepAcc::default();
    let mut formula = 0u64;
    for (n, f, fails) in results {
        acc.cases += n;
        acc.passed += n;
        formula += f;
        for (k, (sig, rp, det)) in fails.into_iter().enumerate() {
            acc.fail(sig, k as u64, || rp, det);
        }
    }
    *acc.classes.entry("ctor:ok".into()).or_default() += acc.cases;
    *acc.classes.entry(format!("ctor:recommended-formula-agreements={formula}")).or_default() += 1;
    rep.set("ctor_priority_recommended_formula_agreements_of_4096", formula);
    finish_block(rep, "cand_ctor_priority", "public constructors host / host_tcp x 3 / tcp x 4 spellings x {IPv4, IPv6} x component 0..=65535: priority within 1..=2^31-1 and strictly decreasing in the component for 1..=256 (RFC 8445 s5.1.2 MUSTs), SDP round trip of every constructed candidate; agreement with the RECOMMENDED formula is counted, not judged", 16 * 65536, &acc, t0.elapsed().as_secs_f64());
}

pub fn pair_priority_lattice(rep: &mut vh::Report) {
    let t0 = std::time::Instant::now();
    let mut extra: Vec<u32> = lattice32();
    for comp in 1..=256u16 {
        for (_, _, pref) in TYPES {
            for t in [None, Some(TcpType::Active), Some(TcpType::Passive), Some(TcpType::So)] {
                extra.push(formula_priority(pref, t, comp));
            }
        }
    }
    let prios = reachable_priorities(&extra);
    let n = prios.len();
    let loc: Vec<IceCandidate> = prios.iter().map(|p| mk_cand(*p, 1000)).collect();
    let rem: Vec<IceCandidate> = prios.iter().map(|p| mk_cand(*p, 2000)).collect();
    let acc = (0..n)
        .into_par_iter()
        .fold(DeepAcc::default, |mut a, i| {
            for j in 0..n {
                let (l, r) = (prios[i], prios[j]);
                a.cases += 1;
                // agent A holds (local = l, remote = r); its peer B holds the mirrored pair
                let pa = IceCandidatePair::new(loc[i].clone(), rem[j].clone());
                let pb = IceCandidatePair::new(rem[j].clone(), loc[i].clone());
                let mut ok = true;
                for (ra, rb, g, d) in [(IceRole::Controlling, IceRole::Controlled, l, r), (IceRole::Controlled, IceRole::Controlling, r, l)] {
                    let x = vh::catch(std::panic::AssertUnwindSafe(|| pa.priority(ra)));
                    let y = vh::catch(std::panic::AssertUnwindSafe(|| pb.priority(rb)));
                    let rp = || json!({"part": "priority", "l": l, "r": r});
                    match (x, y) {
                        (Ok(x), Ok(y)) => {
                            if x != y {
                                ok = false;
                                a.fail("priority;fail=pair-priority-asymmetric".into(), (i * n + j) as u64, rp, format!("local={l} remote={r}: one agent computes {x}, its peer computes {y}"));
                            } else if (1..=0x7fff_ffffu32).contains(&l) && (1..=0x7fff_ffffu32).contains(&r) && rfc_pair_priority(g, d).is_some_and(|w| w != x) {
                                ok = false;
                                a.fail("priority;fail=pair-priority-formula".into(), (i * n + j) as u64, rp, format!("G={g} D={d}: computed {x}, RFC 8445 formula gives {:?}", rfc_pair_priority(g, d)));
                            }
                        }
                        (Err(_), Err(_)) => {
                            if l < 0x8000_0000 && r < 0x8000_0000 {
                                ok = false;
                                a.fail("priority;fail=pair-priority-panic".into(), (i * n + j) as u64, rp, format!("local={l} remote={r}: both agents panic on priorities inside RFC 8445's range"));
                            }
                        }
                        (Err(p), Ok(_)) | (Ok(_), Err(p)) => {
                            ok = false;
                            a.fail("priority;fail=pair-priority-panic-one-side".into(), (i * n + j) as u64, rp, format!("local={l} remote={r}: only one agent panics: {p}"));
                        }
                    }
                }
                if ok {
                    a.passed += 1;
                }
            }
            *a.classes.entry(format!("prio-row:{}", if prios[i] == 0 { "0" } else if prios[i] < 0x8000_0000 { "in-range" } else { ">=2^31" })).or_default() += 1;
            a
        })
        .reduce(DeepAcc::default, DeepAcc::merge);
    rep.set("priority_lattice_values", n as u64);
    finish_block(rep, "pair_priority_lattice", &format!("every ordered pair over {n} candidate priorities (every type preference x tcptype local preference x component 1..=256, every 2^k and 2^k+-1, 0, 2^32-1), both role assignments: both agents compute the same pair priority (hence the same ordering of any pair list) and it equals RFC 8445 s6.1.2.3 inside the RFC's range"), (n * n) as u64, &acc, t0.elapsed().as_secs_f64());
}

pub fn replay_ctor(v: &Value) -> Result<String, Fail> {
    let ctor = v["ctor"].as_u64().unwrap_or(0);
    let comp = v["component"].as_u64().unwrap_or(1) as u16;
    let a: SocketAddr = if v["v6"].as_bool().unwrap_or(false) { "[2001:db8::1]:9".parse().unwrap() } else { "192.0.2.1:9".parse().unwrap() };
    let mk = move |comp: u16| {
        vh::catch(move || match ctor {
            0 => IceCandidate::host(a, comp),
            1 => IceCandidate::host_tcp(a, comp, TcpType::Active),
            2 => IceCandidate::host_tcp(a, comp, TcpType::Passive),
            3 => IceCandidate::host_tcp(a, comp, TcpType::So),
            4 => IceCandidate::tcp(a, comp, "active"),
            5 => IceCandidate::tcp(a, comp, "passive"),
            6 => IceCandidate::tcp(a, comp, "so"),
            _ => IceCandidate::tcp(a, comp, "bogus"),
        })
    };
    let c = mk(comp).map_err(|p| ("panic".to_string(), format!("constructor panicked: {p}")))?;
    println!("candidate {c:?} -> '{}'", c.to_sdp());
    if (1..=256).contains(&comp) {
        if !(1..=0x7fff_ffffu32).contains(&c.priority) {
            return Err(("priority-out-of-range".into(), format!("priority {}", c.priority)));
        }
        if comp > 1
            && let Ok(p) = mk(comp - 1)
            && c.priority >= p.priority
        {
            return Err(("priority-not-decreasing-in-component".into(), format!("component {} has {}, component {comp} has {}", comp - 1, p.priority, c.priority)));
        }
    }
    match vh::catch(std::panic::AssertUnwindSafe(|| IceCandidate::from_sdp(&c.to_sdp()))) {
        Ok(Ok(b)) if b == c => Ok("ctor:ok".into()),
        other => Err(("sdp-roundtrip".into(), format!("{other:?}"))),
    }
}

/// Medium instance lists for the size-<=3 multiset sweep: the original instances plus text
/// lengths with every padding remainder (2, 6, 126, 128, 512), more DATA lengths, four more
/// addresses.
pub fn instances_medium(forward: bool) -> Vec<A> {
    let mut v = if forward { fwd_instances() } else { rev_instances() };
    for n in [2usize, 6, 126, 128, 512] {
        let mut kinds = vec![A::Realm(n), A::Nonce(n), A::Username(n)];
        if forward {
            kinds.push(A::Software(n));
        }
        for a in kinds {
            if !v.contains(&a) {
                v.push(a);
            }
        }
    }
    for n in [2usize, 3, 5, 6, 7, 1400] {
        v.push(A::Data(n));
    }
    for i in [7usize, 9, 13, 15] {
        v.push(A::XorMapped(i));
        v.push(A::XorPeer(i));
        if !forward {
            v.push(A::XorRelayed(i));
        }
    }
    v
}
