//! loom-backed stand-ins for the primitives spsc.rs / track.rs use. Every logic line of the
//! checked modules is the repository's; only these primitives differ.
use std::future::Future;
use std::ops::{Deref, DerefMut};
use std::pin::Pin;
use std::task::{Context, Poll, Waker};

/// `get()` registers a *mutable* access with loom's happens-before race detector at the
/// point of use (reads are registered as writes: conservative, and sound for a ring in which
/// any two accesses to one slot must be ordered).
pub struct UnsafeCell<T>(loom::cell::UnsafeCell<T>);
impl<T> UnsafeCell<T> {
    pub fn new(v: T) -> Self {
        Self(loom::cell::UnsafeCell::new(v))
    }
    pub fn get(&self) -> *mut T {
        self.0.with_mut(|p| p)
    }
}

pub struct Mutex<T>(loom::sync::Mutex<T>);
pub struct MutexGuard<'a, T>(loom::sync::MutexGuard<'a, T>);
impl<T> Mutex<T> {
    pub fn new(v: T) -> Self {
        Self(loom::sync::Mutex::new(v))
    }
    pub fn lock(&self) -> MutexGuard<'_, T> {
        MutexGuard(self.0.lock().unwrap())
    }
    pub fn try_lock(&self) -> Option<MutexGuard<'_, T>> {
        self.0.try_lock().ok().map(MutexGuard)
    }
}
impl<T> Deref for MutexGuard<'_, T> {
    type Target = T;
    fn deref(&self) -> &T {
        &self.0
    }
}
impl<T> DerefMut for MutexGuard<'_, T> {
    fn deref_mut(&mut self) -> &mut T {
        &mut self.0
    }
}

/// tokio::sync::Notify with tokio's documented semantics:
/// * `notify_one` wakes the oldest registered waiter, or stores at most one permit;
/// * `notify_waiters` completes every `Notified` future *created* before the call (tokio
///   guarantees this from creation, polled or not) and stores no permit;
/// * `Notified::enable` registers the future as a waiter without polling it.
pub struct Notify {
    st: loom::sync::Mutex<NState>,
}
struct NState {
    permit: bool,
    generation: u64,
    waiters: Vec<(u64, Option<Waker>)>,
    next_id: u64,
    woken: Vec<u64>,
}
impl Notify {
    pub fn new() -> Self {
        Self {
            st: loom::sync::Mutex::new(NState {
                permit: false,
                generation: 0,
                waiters: vec![],
                next_id: 0,
                woken: vec![],
            }),
        }
    }
    pub fn notify_one(&self) {
        let mut s = self.st.lock().unwrap();
        if s.waiters.is_empty() {
            s.permit = true;
        } else {
            let (id, w) = s.waiters.remove(0);
            s.woken.push(id);
            drop(s);
            if let Some(w) = w {
                w.wake();
            }
        }
    }
    pub fn notify_waiters(&self) {
        let mut s = self.st.lock().unwrap();
        s.generation += 1;
        let ws: Vec<_> = s.waiters.drain(..).collect();
        drop(s);
        for (_, w) in ws {
            if let Some(w) = w {
                w.wake();
            }
        }
    }
    pub fn notified(&self) -> Notified<'_> {
        let mut s = self.st.lock().unwrap();
        let id = s.next_id;
        s.next_id += 1;
        Notified { n: self, id, generation: s.generation, done: false }
    }
}
pub struct Notified<'a> {
    n: &'a Notify,
    id: u64,
    generation: u64,
    done: bool,
}
impl Notified<'_> {
    /// Returns true if the future is already complete (as tokio's does).
    pub fn enable(mut self: Pin<&mut Self>) -> bool {
        if self.done {
            return true;
        }
        let mut s = self.n.st.lock().unwrap();
        if s.generation != self.generation {
            drop(s);
            self.done = true;
            return true;
        }
        if let Some(i) = s.woken.iter().position(|x| *x == self.id) {
            s.woken.remove(i);
            drop(s);
            self.done = true;
            return true;
        }
        if s.permit {
            s.permit = false;
            drop(s);
            self.done = true;
            return true;
        }
        let id = self.id;
        if !s.waiters.iter().any(|e| e.0 == id) {
            s.waiters.push((id, None));
        }
        false
    }
}
impl Future for Notified<'_> {
    type Output = ();
    fn poll(mut self: Pin<&mut Self>, cx: &mut Context<'_>) -> Poll<()> {
        if self.done {
            return Poll::Ready(());
        }
        let mut s = self.n.st.lock().unwrap();
        if s.generation != self.generation {
            drop(s);
            self.done = true;
            return Poll::Ready(());
        }
        if let Some(i) = s.woken.iter().position(|x| *x == self.id) {
            s.woken.remove(i);
            drop(s);
            self.done = true;
            return Poll::Ready(());
        }
        if s.permit {
            s.permit = false;
            drop(s);
            self.done = true;
            return Poll::Ready(());
        }
        let id = self.id;
        if let Some(e) = s.waiters.iter_mut().find(|e| e.0 == id) {
            e.1 = Some(cx.waker().clone());
        } else {
            s.waiters.push((id, Some(cx.waker().clone())));
        }
        Poll::Pending
    }
}
impl Drop for Notified<'_> {
    fn drop(&mut self) {
        // tokio: a waiter that was selected by notify_one but dropped before consuming the
        // notification forwards it to the next waiter (or the permit).
        if let Ok(mut s) = self.n.st.lock() {
            let id = self.id;
            s.waiters.retain(|e| e.0 != id);
            if !self.done {
                if let Some(i) = s.woken.iter().position(|x| *x == id) {
                    s.woken.remove(i);
                    if s.waiters.is_empty() {
                        s.permit = true;
                    } else {
                        let (nid, w) = s.waiters.remove(0);
                        s.woken.push(nid);
                        drop(s);
                        if let Some(w) = w {
                            w.wake();
                        }
                    }
                }
            }
        }
    }
}
